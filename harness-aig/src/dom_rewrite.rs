//! `hxaig rewrite` — C21 sentence 3: AIG rewriting + technology mapping leave the Boolean function
//! of every output and flip-flop D input unchanged.
//!
//! Two sources of circuits:
//!  * `design`: small synthesizable Veryl modules (generated) → the real `build_gate_ir`
//!    (feature `aig` on) once with `VERYL_AIG_ROUNDTRIP=1` (aigify → aig_to_cells, no rewrite) and
//!    once without (aigify → rewrite → aig_to_cells_techmap): the two final netlists must agree
//!    (`whole`). Then the stages are run in-process on the round-trip netlist `G`:
//!    `A = aigify(G)`, `R = rewrite(A)`, `T = aig_to_cells_techmap(R, G)`, `C = aig_to_cells(A, G)`
//!    and `G~A` (`aigify`), `A~R` (`rewrite`), `R~T` (`techmap`), `A~C` (`tocells`) are compared.
//!  * `aig`: random AIGs built through the public `AigModule` API (dense in XOR / MUX / AOI / OA
//!    shapes, shared fan-out, constants), a hand-made port-only `GateModule` as `original`:
//!    `A~R`, `R~T`.
//!
//! Request line: `eqv <tag> <mode> <X> <Y>` with mode `x<k>` (all 2^k vectors, k ≤ 16) or
//! `r<k>:<nbits>:<w0>,<w1>,…` (explicit random vectors, one hex word per input). Reply `eq` or
//! `ne <sink> <vector>`. impl.txt = `eq` (what the implementation claims by construction),
//! oracle.txt = this file's evaluator on the real data structures, model.txt = the Lean evaluator
//! on the serialisation.
use crate::circ::*;
use crate::rng::Rng;
use crate::util::{Log, Opts};
use std::collections::BTreeMap;
use std::panic;
use veryl_analyzer::ir as air;
use veryl_analyzer::{Analyzer, Context, symbol_table};
use veryl_metadata::Metadata;
use veryl_parser::Parser;
use veryl_parser::resource_table;
use veryl_synthesizer::aig::graph::{AigEdge, AigModule};
use veryl_synthesizer::aig::{convert, rewrite, techmap};
use veryl_synthesizer::ir::{NetDriver, NetInfo};
use veryl_synthesizer::{GateModule, GatePort, PortDir};

pub fn build(code: &str) -> Result<air::Ir, String> {
    symbol_table::clear();
    let metadata = Metadata::create_default("prj").map_err(|e| format!("{e}"))?;
    let parser = Parser::parse(code, &"").map_err(|e| format!("parse: {e}"))?;
    let analyzer = Analyzer::new(&metadata);
    let mut context = Context::default();
    let mut ir = air::Ir::default();
    let mut errors = vec![];
    errors.append(&mut analyzer.analyze_pass1("prj", &parser.veryl));
    errors.append(&mut Analyzer::analyze_post_pass1());
    errors.append(&mut analyzer.analyze_pass2(&parser.veryl, &mut context, Some(&mut ir)));
    errors.append(&mut Analyzer::analyze_post_pass2(&ir));
    if let Some(e) = errors.iter().find(|e| e.is_error()) {
        return Err(format!("analyze: {}", format!("{e}").lines().next().unwrap_or("")));
    }
    Ok(ir)
}

// ------------------------------------------------------------------------------------------------
// design generator
// ------------------------------------------------------------------------------------------------

const BIN: &[&str] = &["+", "-", "&", "|", "^", "~^", "==", "!=", "<:", "<=", ">:", ">=", "<<", ">>", "&&", "||", "*"];
const UN: &[&str] = &["~", "-", "!", "&", "|", "^", "~&", "~|", "~^"];

struct Sig {
    name: String,
    w: usize,
}

fn gen_expr(r: &mut Rng, depth: u32, sigs: &[Sig]) -> String {
    if depth == 0 || r.below(5) == 0 {
        if r.below(6) == 0 {
            let w = *r.pick(&[1usize, 2, 3, 4, 8]);
            let v = match r.below(4) {
                0 => 0,
                1 => (1u64 << w) - 1,
                2 => 1u64 << (w - 1),
                _ => r.next() & ((1u64 << w) - 1),
            };
            return format!("{w}'h{v:x}");
        }
        let s = r.pick(sigs);
        return match r.below(4) {
            0 if s.w > 1 => format!("{}[{}]", s.name, r.below(s.w as u64)),
            1 if s.w > 2 => {
                let lo = r.below(s.w as u64 - 1);
                let hi = r.range(lo, s.w as u64 - 1);
                format!("{}[{}:{}]", s.name, hi, lo)
            }
            _ => s.name.clone(),
        };
    }
    match r.below(12) {
        0 | 1 => format!("({}{})", r.pick(UN), gen_expr(r, depth - 1, sigs)),
        2 | 3 => format!(
            "(if {} ? {} : {})",
            gen_expr(r, depth - 1, sigs),
            gen_expr(r, depth - 1, sigs),
            gen_expr(r, depth - 1, sigs)
        ),
        4 => format!("{{{}, {}}}", gen_expr(r, depth - 1, sigs), gen_expr(r, depth - 1, sigs)),
        5 => format!(
            "(case {} {{ 0: {}, 1: {}, default: {} }})",
            gen_expr(r, depth - 1, sigs),
            gen_expr(r, depth - 1, sigs),
            gen_expr(r, depth - 1, sigs),
            gen_expr(r, depth - 1, sigs)
        ),
        _ => format!("({} {} {})", gen_expr(r, depth - 1, sigs), r.pick(BIN), gen_expr(r, depth - 1, sigs)),
    }
}

/// A small module; `budget` = maximal number of input + register bits (support of the logic).
pub fn gen_design(r: &mut Rng, budget: usize) -> String {
    let seq = r.below(10) < 6;
    let n_in = r.range(1, 4) as usize;
    let n_reg = if seq { r.range(1, 3) as usize } else { 0 };
    let n_out = r.range(1, 3) as usize;
    let mut left = budget.max(n_in + n_reg);
    let mut sigs: Vec<Sig> = vec![];
    let mut ports = String::new();
    let wsel = |r: &mut Rng, left: &mut usize, remaining: usize| -> usize {
        let maxw = (*left - (remaining - 1)).max(1);
        let w = (*r.pick(&[1usize, 1, 2, 3, 4, 5, 8])).min(maxw);
        *left -= w;
        w
    };
    let mut remaining = n_in + n_reg;
    if seq {
        ports.push_str("    clk: input clock,\n");
        if r.below(4) != 0 {
            ports.push_str("    rst: input reset,\n");
        }
    }
    let has_rst = ports.contains("rst");
    // reset derived by logic (the FF's reset pin is then driven by a cell, not by a port)
    let derived_rst = has_rst && r.below(6) == 0;
    // a memory large enough for RAM inference (default threshold 1024 bits)
    let ram = seq && r.below(16) == 0;
    for i in 0..n_in {
        let w = wsel(r, &mut left, remaining);
        remaining -= 1;
        ports.push_str(&format!("    i{i}: input logic<{w}>,\n"));
        sigs.push(Sig { name: format!("i{i}"), w });
    }
    let mut regs: Vec<Sig> = vec![];
    for i in 0..n_reg {
        let w = wsel(r, &mut left, remaining);
        remaining -= 1;
        regs.push(Sig { name: format!("r{i}"), w });
    }
    let mut body = String::new();
    for g in &regs {
        body.push_str(&format!("    var {}: logic<{}>;\n", g.name, g.w));
        sigs.push(Sig { name: g.name.clone(), w: g.w });
    }
    // shared intermediate wires (fan-out > 1)
    let n_let = r.below(3) as usize;
    for i in 0..n_let {
        let w = *r.pick(&[1usize, 2, 4, 8]);
        let e = gen_expr(r, 2, &sigs);
        body.push_str(&format!("    let w{i}: logic<{w}> = {e};\n"));
        sigs.push(Sig { name: format!("w{i}"), w });
    }
    let mut outs = String::new();
    for i in 0..n_out {
        let w = *r.pick(&[1usize, 1, 2, 4, 8]);
        ports.push_str(&format!("    o{i}: output logic<{w}>,\n"));
        let d = r.range(1, 3) as u32;
        outs.push_str(&format!("    assign o{i} = {};\n", gen_expr(r, d, &sigs)));
    }
    if derived_rst {
        let e = format!("rst & {}", { let s0 = &sigs[0]; if s0.w > 1 { format!("{}[0]", s0.name) } else { s0.name.clone() } });
        body.push_str(&format!("    let rst2: reset = {e};\n"));
    }
    if ram {
        ports.push_str("    wa: input logic<7>,\n    ra: input logic<7>,\n    we: input logic,\n    md: output logic<8>,\n");
        body.push_str("    var mem: logic<8> [128];\n    always_ff (clk) {\n        if we {\n");
        body.push_str(&format!("            mem[wa] = {};\n        }}\n    }}\n", gen_expr(r, 2, &sigs)));
        outs.push_str("    assign md = mem[ra];\n");
    }
    if seq {
        body.push_str(if derived_rst { "    always_ff (clk, rst2) {\n" } else { "    always_ff {\n" });
        if has_rst {
            body.push_str("        if_reset {\n");
            for g in &regs {
                let v = match r.below(3) {
                    0 => "0".to_string(),
                    1 => format!("{}'h{:x}", g.w, (1u64 << g.w) - 1),
                    _ => format!("{}'h{:x}", g.w, r.next() & ((1u64 << g.w) - 1)),
                };
                body.push_str(&format!("            {} = {};\n", g.name, v));
            }
            body.push_str("        } else {\n");
        }
        for g in &regs {
            let d = r.range(1, 3) as u32;
            if r.below(3) == 0 {
                // enable-style conditional update
                body.push_str(&format!(
                    "            if {} {{ {} = {}; }}\n",
                    gen_expr(r, 1, &sigs),
                    g.name,
                    gen_expr(r, d, &sigs)
                ));
            } else {
                body.push_str(&format!("            {} = {};\n", g.name, gen_expr(r, d, &sigs)));
            }
        }
        if has_rst {
            body.push_str("        }\n");
        }
        body.push_str("    }\n");
    }
    format!("module Top (\n{ports}) {{\n{body}{outs}}}\n")
}

// ------------------------------------------------------------------------------------------------
// random AIGs through the public API
// ------------------------------------------------------------------------------------------------

pub struct RandAig {
    pub aig: AigModule,
    pub original: GateModule,
}

pub fn gen_aig(r: &mut Rng, n_in: usize, n_ops: usize, n_out: usize) -> RandAig {
    let mut original = GateModule::default();
    original.name = Some(resource_table::insert_str("Rand"));
    original.nets.push(NetInfo { driver: NetDriver::Const(false), origin: None });
    original.nets.push(NetInfo { driver: NetDriver::Const(true), origin: None });
    let mut aig = AigModule::new();
    aig.net_edge.insert(0, AigEdge::CONST0);
    aig.net_edge.insert(1, AigEdge::CONST1);
    let mut edges: Vec<AigEdge> = vec![];
    for i in 0..n_in {
        let net = original.nets.len() as u32;
        original.nets.push(NetInfo { driver: NetDriver::PortInput, origin: None });
        let name = resource_table::insert_str(&format!("x{i}"));
        original.ports.push(GatePort { name, path: vec![name], dir: PortDir::Input, nets: vec![net] });
        edges.push(aig.add_input(net));
    }
    let pick = |r: &mut Rng, edges: &Vec<AigEdge>| -> AigEdge {
        // recent edges more often (deep cones), constants rarely
        let e = if r.below(30) == 0 {
            AigEdge::CONST0
        } else if r.below(3) == 0 {
            edges[edges.len() - 1 - r.below(edges.len().min(4) as u64) as usize]
        } else {
            *r.pick(edges)
        };
        e.negate_if(r.below(2) == 0)
    };
    for _ in 0..n_ops {
        let a = pick(r, &edges);
        let b = pick(r, &edges);
        let c = pick(r, &edges);
        let e = match r.below(10) {
            0..=3 => aig.mk_and(a, b),
            4 => aig.mk_or(a, b),
            5 | 6 => aig.mk_xor(a, b),
            7 | 8 => aig.mk_mux(a, b, c),
            _ => {
                let t = aig.mk_and(a, b);
                aig.mk_and(t, c)
            }
        };
        edges.push(e);
    }
    for i in 0..n_out {
        let net = original.nets.len() as u32;
        original.nets.push(NetInfo { driver: NetDriver::Undriven, origin: None });
        let name = resource_table::insert_str(&format!("y{i}"));
        original.ports.push(GatePort { name, path: vec![name], dir: PortDir::Output, nets: vec![net] });
        let e = if i == 0 { *edges.last().unwrap() } else { pick(r, &edges) };
        aig.add_sink(net, e.negate_if(r.below(3) == 0));
    }
    RandAig { aig, original }
}

// ------------------------------------------------------------------------------------------------
// comparison
// ------------------------------------------------------------------------------------------------

pub struct Cmp<'a> {
    pub log: &'a mut Log,
    pub rng: Rng,
    pub hist: BTreeMap<String, u64>,
    pub nrand: usize,
}

impl<'a> Cmp<'a> {
    /// One `eqv` line for the pair (x, y).
    pub fn eqv(&mut self, tag: &str, x: &Circ, y: &Circ) {
        let r = (|| -> Result<(String, String), String> {
            let mut support = x.leaves()?;
            support.extend(y.leaves()?);
            support.sort();
            support.dedup();
            let k = support.len();
            if x.n_sinks() != y.n_sinks() {
                return Err(format!("sink count {} vs {}", x.n_sinks(), y.n_sinks()));
            }
            let (inputs, nw, nbits, mode) = if k <= 16 {
                let (v, nw, nb) = exhaustive_inputs(k);
                (v, nw, nb, format!("x{k}"))
            } else {
                let nw = self.nrand.div_ceil(64);
                let mut v = vec![];
                for j in 0..k {
                    let m = self.rng.below(8);
                    let words: Vec<u64> = (0..nw)
                        .map(|w| match (m, w) {
                            (0, 0) => 0,           // first 64 vectors: all-zero / all-one corners
                            (1, 0) => !0,
                            _ => self.rng.next() ^ (j as u64).wrapping_mul(0x9E37),
                        })
                        .collect();
                    v.push(words);
                }
                let nbits = (nw * 64) as u64;
                let ws: Vec<String> = v.iter().map(|w| words_hex(w)).collect();
                (v, nw, nbits, format!("r{k}:{nbits}:{}", ws.join(",")))
            };
            let sx = x.ser(&support)?;
            let sy = y.ser(&support)?;
            let vx = x.eval(&support, &inputs, nw)?;
            let vy = y.eval(&support, &inputs, nw)?;
            let verdict = match first_diff(&vx, &vy, nbits) {
                None => "eq".to_string(),
                Some((s, v)) => format!("ne {s:x} {v:x}"),
            };
            bump(&mut self.hist, &format!("support.{}", if k <= 16 { format!("{k:02}") } else { "17+".into() }));
            // diversity: constant sinks vs others
            for s in &vx {
                let ones: u32 = s.iter().map(|w| w.count_ones()).sum();
                bump(&mut self.hist, if ones == 0 || ones as u64 == nbits { "sink.constant" } else { "sink.nonconstant" });
            }
            Ok((format!("eqv {tag} {mode} {sx} {sy}"), verdict))
        })();
        match r {
            Ok((op, verdict)) => {
                bump(&mut self.hist, &format!("eqv.{tag}"));
                self.log.push3(op, "eq".into(), verdict);
            }
            Err(e) => {
                // not comparable (cycle, sink-count mismatch): the implementation broke the structure
                bump(&mut self.hist, &format!("uncomparable.{tag}"));
                let e: String = e.split_whitespace().collect::<Vec<_>>().join("_");
                self.log.push3(format!("bad {tag} {e}"), "eq".into(), format!("ne-structure {e}"));
            }
        }
    }
}

impl<'a> Cmp<'a> {
    /// Nets consumed by an FF (D, clock, reset), a RAM port or an output port must be driven by
    /// something after the AIG pass: an `Undriven` one means the pass deleted its logic cone.
    /// `dangling <tag> rams=<number of RAM blocks>` → number of such nets in the cones of FF clock+reset pins / RAM pins /
    /// (RAM designs only) data sinks; oracle: all 0; the model has no say (`?`).
    pub fn dangling(&mut self, tag: &str, g: &GateModule) {
        let mut ffctl = vec![];
        for ff in &g.ffs {
            ffctl.push(ff.clock);
            if let Some(r) = &ff.reset {
                ffctl.push(r.net);
            }
        }
        let mut ram = vec![];
        g.for_each_ram_input_net(|n| ram.push(n));
        let count = |roots: Vec<u32>| -> usize {
            let mut bad = 0;
            let mut seen = vec![false; g.nets.len()];
            let mut stack = roots;
            while let Some(n) = stack.pop() {
                if seen[n as usize] {
                    continue;
                }
                seen[n as usize] = true;
                match &g.nets[n as usize].driver {
                    NetDriver::Undriven => bad += 1,
                    NetDriver::Cell(ci) => stack.extend(g.cells[*ci].inputs.iter().copied()),
                    _ => {}
                }
            }
            bad
        };
        // An undriven net in a DATA cone can predate the AIG pass (a register that is never written has no FF
        // and its net no driver, with or without the feature), so data cones are only reported for designs
        // with RAM blocks, where they are the RAM read-data nets whose `RamRead` driver the pass resets.
        let d = if g.ram_blocks.is_empty() { 0 } else { count(gate_sinks(g)) };
        let (f, r) = (count(ffctl), count(ram));
        bump(&mut self.hist, &format!("dangling.{tag}.{}", if d + f + r == 0 { "none" } else { "some" }));
        self.log.push3(
            format!("dangling {tag} rams={}", g.ram_blocks.len()),
            format!("ffctl={f} rampins={r} ramdata={d}"),
            "ffctl=0 rampins=0 ramdata=0".into(),
        );
    }

    /// Checker self-test: change the kind of one cell of the tech-mapped netlist `t` (same arity) and
    /// compare with the AIG it came from. The implementation claims nothing about mutants, so impl.txt
    /// carries the oracle's verdict; the Lean evaluator must reproduce it, location included.
    pub fn mutant(&mut self, r: &AigModule, orig: &GateModule, t: &GateModule) {
        if t.cells.is_empty() {
            return;
        }
        let mut m = t.clone();
        let i = self.rng.below(m.cells.len() as u64) as usize;
        let k = m.cells[i].kind;
        let same: Vec<veryl_synthesizer::CellKind> =
            crate::dom_aig::KINDS.iter().copied().filter(|x| x.arity() == k.arity() && *x != k).collect();
        m.cells[i].kind = *self.rng.pick(&same);
        let n0 = self.log.ops.len();
        self.eqv("mutant", &Circ::Aig(r, orig), &Circ::Gate(&m, gate_sinks(&m)));
        if self.log.ops.len() == n0 + 1 {
            let v = self.log.oracle[n0].clone();
            bump(&mut self.hist, if v == "eq" { "mutant.unobservable" } else { "mutant.detected" });
            self.log.imp[n0] = v;
        }
    }
}

fn cell_hist(h: &mut BTreeMap<String, u64>, tag: &str, m: &GateModule) {
    for c in &m.cells {
        bump(h, &format!("{tag}.{}", c.kind.symbol()));
    }
}

fn set_roundtrip(on: bool) {
    unsafe {
        if on {
            std::env::set_var("VERYL_AIG_ROUNDTRIP", "1");
        } else {
            std::env::remove_var("VERYL_AIG_ROUNDTRIP");
        }
    }
}

pub fn check_design(cmp: &mut Cmp, code: &str) -> Result<(), String> {
    let ir = build(code)?;
    let top: veryl_parser::resource_table::StrId = "Top".into();
    let run = |rt: bool| -> Result<GateModule, String> {
        set_roundtrip(rt);
        let r = panic::catch_unwind(panic::AssertUnwindSafe(|| veryl_synthesizer::build_gate_ir(&ir, top)));
        set_roundtrip(false);
        match r {
            Ok(Ok(g)) => Ok(g.module),
            Ok(Err(e)) => Err(format!("synth: {}", format!("{e}").lines().next().unwrap_or(""))),
            Err(_) => Err("panic".into()),
        }
    };
    let g0 = run(true)?;
    let g1 = match run(false) {
        Ok(g) => g,
        Err(e) if e == "panic" => {
            cmp.log.push3("bad whole panic-in-rewrite-pipeline".into(), "eq".into(), "ne-structure panic".into());
            return Ok(());
        }
        Err(e) => return Err(e),
    };
    if std::env::var("HXAIG_DUMP").is_ok() {
        eprintln!("--- roundtrip\n{}\n--- rewritten\n{}", g0, g1);
        for (tag, g) in [("roundtrip", &g0), ("rewritten", &g1)] {
            for n in gate_aux_sinks(g) {
                eprintln!("{tag}: aux net n{n} driver {:?} key {}", g.nets[n as usize].driver, leaf_key(g, n));
            }
        }
    }
    cell_hist(&mut cmp.hist, "cells.roundtrip", &g0);
    cell_hist(&mut cmp.hist, "cells.rewritten", &g1);
    bump(&mut cmp.hist, if g0.ffs.is_empty() { "design.comb" } else { "design.seq" });
    if !g0.ram_blocks.is_empty() {
        bump(&mut cmp.hist, "design.ram");
    }
    for (tag, g) in [("roundtrip", &g0), ("rewritten", &g1)] {
        cmp.dangling(tag, g);
    }
    // The passes after the AIG block may delete hold-forever flip-flops (`eliminate_dq_ffs`) in one run
    // and not in the other; the functions "of the inputs and FF outputs" are comparable only when both
    // runs kept the same flip-flops (by origin).
    let keys = |g: &GateModule| -> Vec<String> { (0..g.ffs.len()).map(|i| ff_key(g, i)).collect() };
    let (k0, k1) = (keys(&g0), keys(&g1));
    let mut s0 = k0.clone();
    let mut s1 = k1.clone();
    s0.sort();
    s1.sort();
    let dup = s0.windows(2).any(|w| w[0] == w[1]);
    if s0 != s1 || dup {
        bump(&mut cmp.hist, "whole.skipped-different-ff-sets");
    } else {
        let order = |g: &GateModule, k: &Vec<String>, aux: bool| -> Vec<u32> {
            let mut v = vec![];
            if !aux {
                for p in &g.ports {
                    if matches!(p.dir, PortDir::Output | PortDir::Inout) {
                        v.extend(p.nets.iter().copied());
                    }
                }
            }
            for key in &s0 {
                let ff = &g.ffs[k.iter().position(|x| x == key).unwrap()];
                if aux {
                    v.push(ff.clock);
                    if let Some(r) = &ff.reset {
                        v.push(r.net);
                    }
                } else {
                    v.push(ff.d);
                }
            }
            if aux {
                g.for_each_ram_input_net(|n| v.push(n));
            }
            v
        };
        cmp.eqv("whole", &Circ::Gate(&g0, order(&g0, &k0, false)), &Circ::Gate(&g1, order(&g1, &k1, false)));
        let aux0 = order(&g0, &k0, true);
        if !aux0.is_empty() {
            cmp.eqv("whole-aux", &Circ::Gate(&g0, aux0), &Circ::Gate(&g1, order(&g1, &k1, true)));
        }
    }
    // stage by stage on g0
    let staged = panic::catch_unwind(panic::AssertUnwindSafe(|| {
        let a = convert::aigify(&g0);
        let r = rewrite::rewrite(&a);
        let t = techmap::aig_to_cells_techmap(&r, &g0);
        let c = convert::aig_to_cells(&a, &g0);
        (a, r, t, c)
    }));
    match staged {
        Ok((a, r, t, c)) => {
            cmp.log.add("aig.ands.before", a.and_count() as u64);
            cmp.log.add("aig.ands.after", r.and_count() as u64);
            cell_hist(&mut cmp.hist, "cells.techmap", &t);
            cmp.eqv("aigify", &Circ::Gate(&g0, gate_sinks(&g0)), &Circ::Aig(&a, &g0));
            cmp.eqv("rewrite", &Circ::Aig(&a, &g0), &Circ::Aig(&r, &g0));
            cmp.eqv("techmap", &Circ::Aig(&r, &g0), &Circ::Gate(&t, gate_sinks(&t)));
            cmp.eqv("tocells", &Circ::Aig(&a, &g0), &Circ::Gate(&c, gate_sinks(&c)));
            cmp.mutant(&r, &g0, &t);
        }
        Err(_) => {
            cmp.log.push3("bad stages panic".into(), "eq".into(), "ne-structure panic".into());
        }
    }
    Ok(())
}

pub fn check_rand_aig(cmp: &mut Cmp, ra: &RandAig) {
    let staged = panic::catch_unwind(panic::AssertUnwindSafe(|| {
        let r = rewrite::rewrite(&ra.aig);
        let t = techmap::aig_to_cells_techmap(&r, &ra.original);
        let t0 = techmap::aig_to_cells_techmap(&ra.aig, &ra.original);
        (r, t, t0)
    }));
    match staged {
        Ok((r, t, t0)) => {
            cmp.log.add("aig.ands.before", ra.aig.and_count() as u64);
            cmp.log.add("aig.ands.after", r.and_count() as u64);
            cell_hist(&mut cmp.hist, "cells.techmap", &t);
            cell_hist(&mut cmp.hist, "cells.techmap", &t0);
            cmp.eqv("rewrite", &Circ::Aig(&ra.aig, &ra.original), &Circ::Aig(&r, &ra.original));
            cmp.eqv("techmap", &Circ::Aig(&r, &ra.original), &Circ::Gate(&t, gate_sinks(&t)));
            cmp.eqv("techmap", &Circ::Aig(&ra.aig, &ra.original), &Circ::Gate(&t0, gate_sinks(&t0)));
            cmp.mutant(&r, &ra.original, &t);
        }
        Err(_) => {
            cmp.log.push3("bad stages panic".into(), "eq".into(), "ne-structure panic".into());
        }
    }
}

pub fn main(opts: &Opts) -> i32 {
    let mut log = Log::new();
    let mut rng = Rng::new(opts.seed());
    let n = opts.num("n", 100);
    let n_aig = opts.num("naig", n);
    panic::set_hook(Box::new(|_| {}));
    let mut cmp = Cmp { log: &mut log, rng: rng.fork(), hist: BTreeMap::new(), nrand: opts.num("nrand", 512) as usize };
    if let Some(f) = opts.get("replay") {
        // re-judge serialised requests (second evaluator, on the text form)
        for l in std::fs::read_to_string(f).unwrap().lines() {
            let tok: Vec<&str> = l.split_whitespace().collect();
            let v = match tok.first().copied() {
                Some("eqv") => replay_eqv(&tok),
                Some("design") | Some("randaig") => "ok".to_string(),
                _ => "?".to_string(),
            };
            let imp = if tok.get(1).copied() == Some("mutant") { v.clone() } else if tok.first().copied() == Some("eqv") { "eq".into() } else { v.clone() };
            cmp.log.push3(l.to_string(), imp, v);
        }
    } else if let Some(f) = opts.get("design") {
        // replay one design file
        let code = std::fs::read_to_string(f).unwrap();
        if let Err(e) = check_design(&mut cmp, &code) {
            eprintln!("design rejected: {e}");
        }
    } else {
        let mut rejected = 0u64;
        let mut first_rejects: Vec<String> = vec![];
        let mut accepted = 0u64;
        let mut tries = 0u64;
        while accepted < n && tries < n * 4 {
            tries += 1;
            let budget = if rng.below(10) < 7 { rng.range(2, 16) as usize } else { rng.range(17, 40) as usize };
            let code = gen_design(&mut rng, budget);
            let mark = cmp.log.ops.len();
            cmp.log.push3(format!("design {:x}", accepted + 1), "ok".into(), "ok".into());
            match check_design(&mut cmp, &code) {
                Ok(()) => {
                    accepted += 1;
                    let dir = opts.out().join("designs");
                    let _ = std::fs::create_dir_all(&dir);
                    let _ = std::fs::write(dir.join(format!("d{accepted:x}.veryl")), &code);
                    if accepted <= 3 {
                        cmp.log.sample(code.replace('\n', " "));
                    }
                    if let Some(dir) = opts.get("keep") {
                        let _ = std::fs::create_dir_all(dir);
                        let _ = std::fs::write(format!("{dir}/d{accepted}.veryl"), &code);
                    }
                }
                Err(e) => {
                    // rejected before synthesis: forget the marker
                    cmp.log.ops.truncate(mark);
                    cmp.log.imp.truncate(mark);
                    cmp.log.oracle.truncate(mark);
                    rejected += 1;
                    if first_rejects.len() < 5 {
                        first_rejects.push(e);
                    }
                }
            }
        }
        cmp.log.add("designs.accepted", accepted);
        cmp.log.add("designs.rejected", rejected);
        for e in first_rejects {
            cmp.log.sample(format!("rejected: {e}"));
        }
        for i in 0..n_aig {
            cmp.log.push3(format!("randaig {:x}", i + 1), "ok".into(), "ok".into());
            let n_in = rng.range(2, 12) as usize;
            let n_ops = rng.range(1, 40) as usize;
            let n_out = rng.range(1, 4) as usize;
            let ra = gen_aig(&mut rng, n_in, n_ops, n_out);
            check_rand_aig(&mut cmp, &ra);
        }
        cmp.log.add("randaigs", n_aig);
    }
    let hist = std::mem::take(&mut cmp.hist);
    drop(cmp);
    for (k, v) in hist {
        log.add(&k, v);
    }
    log.write(&opts.out());
    0
}
