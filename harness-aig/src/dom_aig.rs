//! `hxaig aig` — structural correspondence of the hash-consed AIG constructors and of `aigify`'s
//! cell lowering with the Lean model (`Core/Aig.lean`: `addInput`, `mkAnd`, `mkOr`, `mkXor`, `mkMux`,
//! `lowerCell`). Sequences of operations on a real `AigModule`, delimited by `reset`:
//!   `in <origin>`            → edge
//!   `and|or|xor a b`, `mux s d0 d1` → `<edge> <node count>`
//!   `libentry <key> <pat>`   → `ok` (the run-time library, for the model)
//!   `sink <edge>`            → number of sinks
//!   `rewrite`                → the real `rewrite::rewrite` of the current graph: `A<nodes>;<sink edges>`
//!   `dump`                   → `A<nodes>;` (nodes: `c`, `i<origin>`, `a<f0>.<f1>`; raw edges in hex)
//!   `cell <kind> <net>…`     → fresh `GateModule` with one cell of that kind whose inputs are the given
//!                              nets (0/1 = constants, ≥ 2 = input port bits), real `aigify`, dump + sink edge
//! The oracle column checks the function: each returned edge, evaluated on all valuations of the
//! (≤ 6) inputs, equals the operator applied to the operand edges (`?` for dump).
use crate::rng::Rng;
use crate::util::{Log, Opts};
use std::panic;
use veryl_parser::resource_table;
use veryl_synthesizer::aig::convert;
use veryl_synthesizer::aig::graph::{AigEdge, AigModule, AigNode};
use veryl_synthesizer::ir::{NetDriver, NetInfo};
use veryl_synthesizer::{Cell, CellKind, GateModule, GatePort, PortDir};

pub const KINDS: [CellKind; 22] = [
    CellKind::Buf, CellKind::Not, CellKind::And2, CellKind::Or2, CellKind::Nand2, CellKind::Nor2, CellKind::Xor2,
    CellKind::Xnor2, CellKind::And3, CellKind::Or3, CellKind::Nand3, CellKind::Nor3, CellKind::Ao21, CellKind::Aoi21,
    CellKind::Oa21, CellKind::Oai21, CellKind::Ao31, CellKind::Aoi31, CellKind::Ao22, CellKind::Aoi22, CellKind::Oai22,
    CellKind::Mux2,
];

thread_local! {
    /// (rewrite runs, runs that reduced the live AND count, runs that increased it)
    pub static REDUCED: std::cell::Cell<(u64, u64, u64)> = const { std::cell::Cell::new((0, 0, 0)) };
}

pub fn dump(a: &AigModule) -> String {
    let mut s = String::from("A");
    for (i, n) in a.nodes.iter().enumerate() {
        if i > 0 {
            s.push(',');
        }
        match n {
            AigNode::Const => s.push('c'),
            AigNode::Input { origin } => s.push_str(&format!("i{origin:x}")),
            AigNode::And { fanin0, fanin1 } => s.push_str(&format!("a{:x}.{:x}", fanin0.raw(), fanin1.raw())),
        }
    }
    s.push(';');
    s
}

/// Truth table of an edge over the input nodes (in node order), up to 6 inputs.
fn edge_tt(a: &AigModule, e: AigEdge) -> u64 {
    let ins: Vec<usize> = a.nodes.iter().enumerate().filter(|(_, n)| matches!(n, AigNode::Input { .. })).map(|(i, _)| i).collect();
    let k = ins.len().min(6);
    let mut vals = vec![0u64; a.nodes.len()];
    for (i, n) in a.nodes.iter().enumerate() {
        vals[i] = match n {
            AigNode::Const => 0,
            AigNode::Input { .. } => {
                let j = ins.iter().position(|&x| x == i).unwrap();
                if j >= 6 {
                    0
                } else {
                    let mut w = 0u64;
                    for v in 0..64u64 {
                        if (v >> j) & 1 == 1 {
                            w |= 1 << v;
                        }
                    }
                    w
                }
            }
            AigNode::And { fanin0, fanin1 } => {
                let x = vals[fanin0.node() as usize] ^ if fanin0.is_negated() { !0 } else { 0 };
                let y = vals[fanin1.node() as usize] ^ if fanin1.is_negated() { !0 } else { 0 };
                x & y
            }
        };
    }
    let m = if k == 6 { !0u64 } else { (1u64 << (1 << k)) - 1 };
    (vals[e.node() as usize] ^ if e.is_negated() { !0 } else { 0 }) & m
}

/// Truth table of an edge over the inputs identified by ORIGIN (so that two graphs with a different
/// input-node order / set are comparable); `origins` = the inputs of the original graph, at most 6 used.
fn sink_tt(a: &AigModule, e: AigEdge, origins: &[u32]) -> u64 {
    let mut vals = vec![0u64; a.nodes.len()];
    for (i, n) in a.nodes.iter().enumerate() {
        vals[i] = match n {
            AigNode::Const => 0,
            AigNode::Input { origin } => {
                let j = origins.iter().position(|o| o == origin).unwrap();
                let mut w = 0u64;
                if j < 6 {
                    for v in 0..64u64 {
                        if (v >> j) & 1 == 1 {
                            w |= 1 << v;
                        }
                    }
                }
                w
            }
            AigNode::And { fanin0, fanin1 } => {
                let x = vals[fanin0.node() as usize] ^ if fanin0.is_negated() { !0 } else { 0 };
                let y = vals[fanin1.node() as usize] ^ if fanin1.is_negated() { !0 } else { 0 };
                x & y
            }
        };
    }
    vals[e.node() as usize] ^ if e.is_negated() { !0 } else { 0 }
}

fn mask(a: &AigModule) -> u64 {
    let k = a.nodes.iter().filter(|n| matches!(n, AigNode::Input { .. })).count().min(6);
    if k == 6 { !0u64 } else { (1u64 << (1 << k)) - 1 }
}

fn edge(s: &str) -> Option<AigEdge> {
    let raw = u32::from_str_radix(s, 16).ok()?;
    Some(AigEdge::new(raw >> 1, raw & 1 == 1))
}

fn in_range(a: &AigModule, e: AigEdge) -> bool {
    (e.node() as usize) < a.nodes.len()
}

pub fn step(a: &mut AigModule, tok: &[&str]) -> (String, String) {
    let r = panic::catch_unwind(panic::AssertUnwindSafe(|| -> Option<(String, String)> {
        match tok {
            ["reset"] => {
                *a = AigModule::new();
                Some(("ok".into(), "ok".into()))
            }
            ["in", o] => {
                let e = a.add_input(u32::from_str_radix(o, 16).ok()?);
                let line = format!("{:x}", e.raw());
                Some((line.clone(), line))
            }
            [op @ ("and" | "or" | "xor"), x, y] => {
                let (x, y) = (edge(x)?, edge(y)?);
                if !in_range(a, x) || !in_range(a, y) {
                    return None;
                }
                let e = match *op {
                    "and" => a.mk_and(x, y),
                    "or" => a.mk_or(x, y),
                    _ => a.mk_xor(x, y),
                };
                let line = format!("{:x} {:x}", e.raw(), a.nodes.len());
                let (tx, ty, te) = (edge_tt(a, x), edge_tt(a, y), edge_tt(a, e));
                let want = match *op {
                    "and" => tx & ty,
                    "or" => tx | ty,
                    _ => tx ^ ty,
                } & mask(a);
                Some((line.clone(), if te == want { line } else { format!("wrong-function {te:x} want {want:x}") }))
            }
            ["mux", s, d0, d1] => {
                let (s, d0, d1) = (edge(s)?, edge(d0)?, edge(d1)?);
                if !in_range(a, s) || !in_range(a, d0) || !in_range(a, d1) {
                    return None;
                }
                let e = a.mk_mux(s, d0, d1);
                let line = format!("{:x} {:x}", e.raw(), a.nodes.len());
                let (ts, t0, t1, te) = (edge_tt(a, s), edge_tt(a, d0), edge_tt(a, d1), edge_tt(a, e));
                let want = ((ts & t1) | (!ts & t0)) & mask(a);
                Some((line.clone(), if te == want { line } else { format!("wrong-function {te:x} want {want:x}") }))
            }
            ["dump"] => Some((dump(a), "?".into())),
            ["libentry", key, pat] => {
                // the model needs the run-time library: one line per entry, checked against the real table
                let k = u16::from_str_radix(key, 16).ok()?;
                let p = crate::dom_npn::parse_pat(pat)?;
                let same = veryl_synthesizer::aig::npn4::lookup_canonical(k).map(crate::dom_npn::fmt_pat) == Some(crate::dom_npn::fmt_pat(&p));
                Some((if same { "ok".into() } else { "not-in-library".into() }, "ok".into()))
            }
            ["sink", e] => {
                let e = edge(e)?;
                if !in_range(a, e) {
                    return None;
                }
                let t = a.sinks.len() as u32;
                a.add_sink(t, e);
                let line = format!("{:x}", a.sinks.len());
                Some((line.clone(), line))
            }
            ["rewrite"] => {
                // the real pass on the graph built so far; exact node list and sink edges
                let r = veryl_synthesizer::aig::rewrite::rewrite(a);
                REDUCED.with(|c| {
                    let live = crate::circ::aig_live(a);
                    let before = a.nodes.iter().enumerate().filter(|(i, n)| live[*i] && matches!(n, AigNode::And { .. })).count();
                    c.set((c.get().0 + 1, c.get().1 + (r.and_count() < before) as u64, c.get().2 + (r.and_count() > before) as u64));
                });
                let sk: Vec<String> = r.sinks.iter().map(|s| format!("{:x}", s.edge.raw())).collect();
                let line = format!("{}{}", dump(&r), sk.join(","));
                // oracle: every sink keeps its function (≤ 6 inputs: all rows)
                let mut origins: Vec<u32> =
                    a.nodes.iter().filter_map(|n| if let AigNode::Input { origin } = n { Some(*origin) } else { None }).collect();
                origins.sort();
                let same = a.sinks.len() == r.sinks.len()
                    && a.sinks.iter().zip(r.sinks.iter()).all(|(x, y)| {
                        x.target == y.target && sink_tt(a, x.edge, &origins) == sink_tt(&r, y.edge, &origins)
                    });
                Some((line.clone(), if same { line } else { "wrong-function".into() }))
            }
            ["cell", kind, nets @ ..] => {
                let k = usize::from_str_radix(kind, 16).ok()?;
                let kind = *KINDS.get(k)?;
                if nets.len() != kind.arity() {
                    return None;
                }
                let nets: Vec<u32> = nets.iter().map(|x| u32::from_str_radix(x, 16).ok()).collect::<Option<Vec<u32>>>()?;
                if nets.iter().any(|&n| n > 9) {
                    return None;
                }
                let mut g = GateModule::default();
                g.name = Some(resource_table::insert_str("One"));
                g.nets.push(NetInfo { driver: NetDriver::Const(false), origin: None });
                g.nets.push(NetInfo { driver: NetDriver::Const(true), origin: None });
                for i in 2..10u32 {
                    g.nets.push(NetInfo { driver: NetDriver::PortInput, origin: None });
                    let name = resource_table::insert_str(&format!("x{i}"));
                    g.ports.push(GatePort { name, path: vec![name], dir: PortDir::Input, nets: vec![i] });
                }
                let out = g.nets.len() as u32;
                g.nets.push(NetInfo { driver: NetDriver::Cell(0), origin: None });
                let name = resource_table::insert_str("y");
                g.ports.push(GatePort { name, path: vec![name], dir: PortDir::Output, nets: vec![out] });
                g.cells.push(Cell { kind, inputs: nets.clone(), output: out });
                let aig = convert::aigify(&g);
                let line = format!("{}{:x}", dump(&aig), aig.sinks[0].edge.raw());
                // oracle: function of the sink = cell function of the input nets
                let ins: Vec<u32> = aig.nodes.iter().filter_map(|n| if let AigNode::Input { origin } = n { Some(*origin) } else { None }).collect();
                let te = edge_tt(&aig, aig.sinks[0].edge);
                let xs: Vec<u64> = nets
                    .iter()
                    .map(|&n| match n {
                        0 => 0u64,
                        1 => !0u64,
                        _ => {
                            let j = ins.iter().position(|&o| o == n).unwrap();
                            let mut w = 0u64;
                            for v in 0..64u64 {
                                if (v >> j) & 1 == 1 {
                                    w |= 1 << v;
                                }
                            }
                            w
                        }
                    })
                    .collect();
                let want = crate::circ::eval_cell(kind, &xs) & mask(&aig);
                Some((line.clone(), if ins.len() <= 6 && te == want { line } else { format!("wrong-function {te:x} want {want:x}") }))
            }
            _ => None,
        }
    }));
    match r {
        Ok(Some(x)) => x,
        Ok(None) => ("bad-op".into(), "?".into()),
        Err(_) => ("panic".into(), "?".into()),
    }
}

pub fn main(opts: &Opts) -> i32 {
    let mut log = Log::new();
    let mut a = AigModule::new();
    panic::set_hook(Box::new(|_| {}));
    let run = |log: &mut Log, a: &mut AigModule, line: String| {
        let tok: Vec<&str> = line.split_whitespace().collect();
        let (i, o) = step(a, &tok);
        log.count(&format!("op.{}", tok.first().copied().unwrap_or("")));
        if i.starts_with("bad") || i == "panic" {
            log.count("reply.bad-or-panic");
        }
        log.push3(line, i, o);
    };
    if let Some(f) = opts.get("replay") {
        for l in std::fs::read_to_string(f).unwrap().lines() {
            run(&mut log, &mut a, l.to_string());
        }
        log.write(&opts.out());
        return 0;
    }
    let mut r = Rng::new(opts.seed());
    let n = opts.num("n", 200);
    let len = opts.num("len", 30);
    for k in 0..=0xffffu32 {
        if let Some(p) = veryl_synthesizer::aig::npn4::lookup_canonical(k as u16) {
            run(&mut log, &mut a, format!("libentry {k:x} {}", crate::dom_npn::fmt_pat(p)));
        }
    }
    // every kind, distinct inputs, then with shared / constant inputs
    for (k, kind) in KINDS.iter().enumerate() {
        run(&mut log, &mut a, "reset".into());
        let nets: Vec<String> = (0..kind.arity()).map(|i| format!("{:x}", 2 + i)).collect();
        run(&mut log, &mut a, format!("cell {k:x} {}", nets.join(" ")));
    }
    for _ in 0..n {
        run(&mut log, &mut a, "reset".into());
        log.count("sequences");
        if r.below(4) == 0 {
            let k = r.below(22) as usize;
            let nets: Vec<String> =
                (0..KINDS[k].arity()).map(|_| format!("{:x}", if r.below(5) == 0 { r.below(2) } else { 2 + r.below(4) })).collect();
            run(&mut log, &mut a, format!("cell {k:x} {}", nets.join(" ")));
            continue;
        }
        let mut edges: Vec<u32> = vec![0, 1];
        let nin = r.range(1, 5);
        for i in 0..nin {
            run(&mut log, &mut a, format!("in {:x}", 0x10 + i * 3));
            edges.push(u32::from_str_radix(log.imp.last().unwrap(), 16).unwrap());
        }
        if r.below(4) == 0 {
            run(&mut log, &mut a, format!("in {:x}", 0x10)); // duplicate origin → same edge
        }
        for _ in 0..r.range(1, len) {
            let pick = |r: &mut Rng, edges: &Vec<u32>| -> u32 {
                let e = if r.below(3) == 0 { edges[edges.len() - 1 - r.below(edges.len().min(3) as u64) as usize] } else { *r.pick(edges) };
                e ^ (r.below(2) as u32)
            };
            let (x, y, z) = (pick(&mut r, &edges), pick(&mut r, &edges), pick(&mut r, &edges));
            let line = match r.below(8) {
                0..=3 => format!("and {x:x} {y:x}"),
                4 => format!("or {x:x} {y:x}"),
                5 => format!("xor {x:x} {y:x}"),
                _ => format!("mux {x:x} {y:x} {z:x}"),
            };
            run(&mut log, &mut a, line);
            if let Some(e) = log.imp.last().unwrap().split(' ').next().and_then(|s| u32::from_str_radix(s, 16).ok()) {
                edges.push(e);
            }
        }
        run(&mut log, &mut a, "dump".into());
        // sinks on recent and random edges, then the real rewrite pass
        let ns = r.range(1, 3);
        for k in 0..ns {
            let e = if k == 0 { *edges.last().unwrap() } else { *r.pick(&edges) } ^ (r.below(2) as u32);
            run(&mut log, &mut a, format!("sink {e:x}"));
        }
        run(&mut log, &mut a, "rewrite".into());
    }
    for l in ["reset", "and 2 77", "cell 16 2 3", "cell 3 2", "mux 0 1", "frob"] {
        run(&mut log, &mut a, l.to_string());
    }
    let (runs, red, inc) = REDUCED.with(|c| c.get());
    log.add("rewrite.runs", runs);
    log.add("rewrite.reduced-and-count", red);
    log.add("rewrite.increased-and-count", inc);
    log.sample(format!("{} -> {}", log.ops[log.ops.len() / 2], log.imp[log.imp.len() / 2]));
    log.write(&opts.out());
    0
}
