//! `hxaig <domain> [args…]` — second differential harness of /verif: veryl-synthesizer built with the
//! experimental cargo feature `aig` (property C21). Same conventions as `hx`.
mod circ;
mod dom_aig;
mod dom_npn;
mod dom_rewrite;
mod rng;
mod util;

fn main() {
    let args: Vec<String> = std::env::args().skip(1).collect();
    if args.is_empty() {
        eprintln!("usage: hxaig <npn|lib|aig|rewrite> [--seed N] [--n N] [--out DIR] …");
        std::process::exit(2);
    }
    let opts = util::Opts::parse(&args[1..]);
    let rc = match args[0].as_str() {
        "npn" => dom_npn::main_npn(&opts),
        "lib" => dom_npn::main_lib(&opts),
        "aig" => dom_aig::main(&opts),
        "rewrite" => dom_rewrite::main(&opts),
        d => {
            eprintln!("hxaig: unknown domain {d}");
            2
        }
    };
    std::process::exit(rc);
}
