//! Serialisation of AIGs / gate netlists for `vmodel rewrite`, and the independent Rust oracle
//! that evaluates them (bit-parallel, 64 test vectors per word) directly on the real data
//! structures — it does not go through the serialisation.
//!
//! Leaves (primary inputs of the combinational logic) are identified by a *key*:
//! `p:<port>:<bit>` (input port bit), `f:<variable>:<bit>` (flip-flop Q), `n:<net id>` (anything else
//! that has no combinational driver: undriven nets, RAM read data).
use std::collections::{BTreeMap, HashMap};
use veryl_synthesizer::aig::graph::{AigEdge, AigModule, AigNode};
use veryl_synthesizer::ir::NetDriver;
use veryl_synthesizer::{CellKind, GateModule, NetId, PortDir};

pub fn eval_cell(kind: CellKind, x: &[u64]) -> u64 {
    use CellKind::*;
    match kind {
        Buf => x[0],
        Not => !x[0],
        And2 => x[0] & x[1],
        Or2 => x[0] | x[1],
        Nand2 => !(x[0] & x[1]),
        Nor2 => !(x[0] | x[1]),
        Xor2 => x[0] ^ x[1],
        Xnor2 => !(x[0] ^ x[1]),
        And3 => x[0] & x[1] & x[2],
        Or3 => x[0] | x[1] | x[2],
        Nand3 => !(x[0] & x[1] & x[2]),
        Nor3 => !(x[0] | x[1] | x[2]),
        Ao21 => (x[0] & x[1]) | x[2],
        Aoi21 => !((x[0] & x[1]) | x[2]),
        Oa21 => (x[0] | x[1]) & x[2],
        Oai21 => !((x[0] | x[1]) & x[2]),
        Ao31 => (x[0] & x[1] & x[2]) | x[3],
        Aoi31 => !((x[0] & x[1] & x[2]) | x[3]),
        Ao22 => (x[0] & x[1]) | (x[2] & x[3]),
        Aoi22 => !((x[0] & x[1]) | (x[2] & x[3])),
        Oai22 => !((x[0] | x[1]) & (x[2] | x[3])),
        Mux2 => (x[0] & x[2]) | (!x[0] & x[1]),
    }
}

/// Key of a leaf net of `m`.
pub fn leaf_key(m: &GateModule, net: NetId) -> String {
    for p in &m.ports {
        if matches!(p.dir, PortDir::Input) {
            if let Some(b) = p.nets.iter().position(|&n| n == net) {
                let path: Vec<String> = p.path.iter().map(|s| s.to_string()).collect();
                return format!("p:{}:{}", path.join("."), b);
            }
        }
    }
    for (i, ff) in m.ffs.iter().enumerate() {
        if ff.q == net {
            return ff_key(m, i);
        }
    }
    format!("n:{net}")
}

/// Flip-flops are named by their origin (variable, bit) — later passes may delete some of them, so
/// the index is not stable between two runs of the pipeline.
pub fn ff_key(m: &GateModule, i: usize) -> String {
    match m.ffs[i].origin {
        Some((name, bit)) => format!("f:{name}:{bit}"),
        None => format!("f:#{i}"),
    }
}

/// Sinks of a gate module in the order `aigify` uses: output/inout port bits, then FF D pins.
pub fn gate_sinks(m: &GateModule) -> Vec<NetId> {
    let mut v = vec![];
    for p in &m.ports {
        if matches!(p.dir, PortDir::Output | PortDir::Inout) {
            v.extend(p.nets.iter().copied());
        }
    }
    for ff in &m.ffs {
        v.push(ff.d);
    }
    v
}

/// Nets an FF / RAM consumes besides D: clock, reset, RAM ports (C21 does not name them; reported separately).
pub fn gate_aux_sinks(m: &GateModule) -> Vec<NetId> {
    let mut v = vec![];
    for ff in &m.ffs {
        v.push(ff.clock);
        if let Some(r) = &ff.reset {
            v.push(r.net);
        }
    }
    m.for_each_ram_input_net(|n| v.push(n));
    v
}

pub enum Circ<'a> {
    Gate(&'a GateModule, Vec<NetId>),
    /// AIG + the gate module its `origin` net ids refer to
    Aig(&'a AigModule, &'a GateModule),
}

fn is_leaf(m: &GateModule, net: NetId) -> bool {
    !matches!(m.nets[net as usize].driver, NetDriver::Cell(_) | NetDriver::Const(_))
}

impl<'a> Circ<'a> {
    /// Leaf keys in the transitive fan-in of the sinks (sorted, unique).
    pub fn leaves(&self) -> Result<Vec<String>, String> {
        let mut keys = vec![];
        match self {
            Circ::Gate(m, sinks) => {
                let mut seen = vec![0u8; m.nets.len()];
                for &s in sinks {
                    gate_dfs(m, s, &mut seen, &mut |n| {
                        if is_leaf(m, n) {
                            keys.push(leaf_key(m, n));
                        }
                    })?;
                }
            }
            Circ::Aig(a, m) => {
                let live = aig_live(a);
                for (i, n) in a.nodes.iter().enumerate() {
                    if let AigNode::Input { origin } = n {
                        if live[i] {
                            keys.push(leaf_key(m, *origin));
                        }
                    }
                }
            }
        }
        keys.sort();
        keys.dedup();
        Ok(keys)
    }

    pub fn n_sinks(&self) -> usize {
        match self {
            Circ::Gate(_, s) => s.len(),
            Circ::Aig(a, _) => a.sinks.len(),
        }
    }

    /// Serialise for the Lean model. `support[j]` is input number `j`.
    pub fn ser(&self, support: &[String]) -> Result<String, String> {
        let idx: HashMap<&str, usize> = support.iter().enumerate().map(|(i, k)| (k.as_str(), i)).collect();
        match self {
            Circ::Aig(a, m) => {
                // nodes in order; inputs renamed to their support index (dead inputs that are not in the
                // support keep a fresh number above it: they cannot influence a sink)
                let mut extra = support.len();
                let mut s = String::from("A");
                for (i, n) in a.nodes.iter().enumerate() {
                    if i > 0 {
                        s.push(',');
                    }
                    match n {
                        AigNode::Const => s.push('c'),
                        AigNode::Input { origin } => {
                            let k = leaf_key(m, *origin);
                            let j = match idx.get(k.as_str()) {
                                Some(&j) => j,
                                None => {
                                    extra += 1;
                                    extra - 1
                                }
                            };
                            s.push_str(&format!("i{j:x}"));
                        }
                        AigNode::And { fanin0, fanin1 } => s.push_str(&format!("a{:x}.{:x}", fanin0.raw(), fanin1.raw())),
                    }
                }
                s.push(';');
                let sk: Vec<String> = a.sinks.iter().map(|k| format!("{:x}", k.edge.raw())).collect();
                s.push_str(&sk.join(","));
                Ok(s)
            }
            Circ::Gate(m, sinks) => {
                // single-assignment order: 0 = const0, 1 = const1, 2+j = support[j], then one net per cell
                let k = support.len();
                let mut id: Vec<Option<u32>> = vec![None; m.nets.len()];
                let mut cells: Vec<String> = vec![];
                let mut state = vec![0u8; m.nets.len()];
                let mut next = 2 + k as u32;
                // iterative post-order
                for &s in sinks {
                    let mut stack: Vec<(NetId, usize)> = vec![(s, 0)];
                    while let Some(&(n, child)) = stack.last() {
                        if id[n as usize].is_some() {
                            stack.pop();
                            continue;
                        }
                        match &m.nets[n as usize].driver {
                            NetDriver::Const(b) => {
                                id[n as usize] = Some(*b as u32);
                                stack.pop();
                            }
                            NetDriver::Cell(ci) => {
                                let c = &m.cells[*ci];
                                state[n as usize] = 1;
                                if child < c.inputs.len() {
                                    let nx = c.inputs[child];
                                    stack.last_mut().unwrap().1 += 1;
                                    if id[nx as usize].is_none() {
                                        if state[nx as usize] == 1 {
                                            return Err(format!("combinational cycle through net {nx}"));
                                        }
                                        stack.push((nx, 0));
                                    }
                                } else {
                                    let ins: Vec<String> =
                                        c.inputs.iter().map(|&x| format!("{:x}", id[x as usize].unwrap())).collect();
                                    cells.push(format!("{:x}:{}", c.kind as usize, ins.join(".")));
                                    id[n as usize] = Some(next);
                                    next += 1;
                                    state[n as usize] = 2;
                                    stack.pop();
                                }
                            }
                            _ => {
                                let key = leaf_key(m, n);
                                let j = *idx.get(key.as_str()).ok_or_else(|| format!("leaf {key} not in support"))?;
                                id[n as usize] = Some(2 + j as u32);
                                stack.pop();
                            }
                        }
                    }
                }
                let sk: Vec<String> = sinks.iter().map(|&s| format!("{:x}", id[s as usize].unwrap())).collect();
                Ok(format!("N{};{};{}", k, cells.join(","), sk.join(",")))
            }
        }
    }

    /// Oracle: value of every sink as `nw` words, input `support[j]` = `inputs[j]`.
    pub fn eval(&self, support: &[String], inputs: &[Vec<u64>], nw: usize) -> Result<Vec<Vec<u64>>, String> {
        let idx: HashMap<&str, usize> = support.iter().enumerate().map(|(i, k)| (k.as_str(), i)).collect();
        match self {
            Circ::Aig(a, m) => {
                let mut vals: Vec<Vec<u64>> = Vec::with_capacity(a.nodes.len());
                let get = |vals: &Vec<Vec<u64>>, e: AigEdge| -> Vec<u64> {
                    let v = &vals[e.node() as usize];
                    if e.is_negated() { v.iter().map(|w| !w).collect() } else { v.clone() }
                };
                for n in &a.nodes {
                    let v = match n {
                        AigNode::Const => vec![0u64; nw],
                        AigNode::Input { origin } => match idx.get(leaf_key(m, *origin).as_str()) {
                            Some(&j) => inputs[j].clone(),
                            None => vec![0u64; nw], // dead input
                        },
                        AigNode::And { fanin0, fanin1 } => {
                            let x = get(&vals, *fanin0);
                            let y = get(&vals, *fanin1);
                            x.iter().zip(y.iter()).map(|(p, q)| p & q).collect()
                        }
                    };
                    vals.push(v);
                }
                Ok(a.sinks.iter().map(|s| get(&vals, s.edge)).collect())
            }
            Circ::Gate(m, sinks) => {
                let mut memo: Vec<Option<Vec<u64>>> = vec![None; m.nets.len()];
                let mut on = vec![false; m.nets.len()];
                let mut out = vec![];
                for &s in sinks {
                    out.push(gate_eval(m, s, &mut memo, &mut on, &idx, inputs, nw, 0)?);
                }
                Ok(out)
            }
        }
    }
}

#[allow(clippy::too_many_arguments)]
fn gate_eval(
    m: &GateModule,
    n: NetId,
    memo: &mut Vec<Option<Vec<u64>>>,
    on: &mut Vec<bool>,
    idx: &HashMap<&str, usize>,
    inputs: &[Vec<u64>],
    nw: usize,
    depth: usize,
) -> Result<Vec<u64>, String> {
    if let Some(v) = &memo[n as usize] {
        return Ok(v.clone());
    }
    if on[n as usize] || depth > 20000 {
        return Err(format!("combinational cycle through net {n}"));
    }
    on[n as usize] = true;
    let v = match &m.nets[n as usize].driver {
        NetDriver::Const(b) => vec![if *b { !0u64 } else { 0 }; nw],
        NetDriver::Cell(ci) => {
            let c = &m.cells[*ci];
            let mut xs: Vec<Vec<u64>> = vec![];
            for &i in &c.inputs {
                xs.push(gate_eval(m, i, memo, on, idx, inputs, nw, depth + 1)?);
            }
            (0..nw).map(|w| eval_cell(c.kind, &xs.iter().map(|x| x[w]).collect::<Vec<u64>>())).collect()
        }
        _ => {
            let key = leaf_key(m, n);
            let j = *idx.get(key.as_str()).ok_or_else(|| format!("leaf {key} not in support"))?;
            inputs[j].clone()
        }
    };
    on[n as usize] = false;
    memo[n as usize] = Some(v.clone());
    Ok(v)
}

fn gate_dfs(m: &GateModule, s: NetId, seen: &mut Vec<u8>, f: &mut dyn FnMut(NetId)) -> Result<(), String> {
    let mut stack = vec![s];
    while let Some(n) = stack.pop() {
        if seen[n as usize] != 0 {
            continue;
        }
        seen[n as usize] = 1;
        f(n);
        if let NetDriver::Cell(ci) = &m.nets[n as usize].driver {
            for &i in &m.cells[*ci].inputs {
                stack.push(i);
            }
        }
    }
    Ok(())
}

pub fn aig_live(a: &AigModule) -> Vec<bool> {
    let mut live = vec![false; a.nodes.len()];
    let mut stack: Vec<u32> = a.sinks.iter().map(|s| s.edge.node()).collect();
    while let Some(i) = stack.pop() {
        if live[i as usize] {
            continue;
        }
        live[i as usize] = true;
        if let AigNode::And { fanin0, fanin1 } = &a.nodes[i as usize] {
            stack.push(fanin0.node());
            stack.push(fanin1.node());
        }
    }
    live
}

/// Input words: exhaustive (`2^k` vectors, input `j` = bit `j` of the vector number) or given random words.
pub fn exhaustive_inputs(k: usize) -> (Vec<Vec<u64>>, usize, u64) {
    let nbits: u64 = 1u64 << k;
    let nw = (nbits as usize).div_ceil(64);
    let mut v = vec![vec![0u64; nw]; k];
    for (j, vj) in v.iter_mut().enumerate() {
        for (w, word) in vj.iter_mut().enumerate() {
            let mut x = 0u64;
            for b in 0..64u64 {
                let vec_no = (w as u64) * 64 + b;
                if vec_no < nbits && (vec_no >> j) & 1 == 1 {
                    x |= 1 << b;
                }
            }
            *word = x;
        }
    }
    (v, nw, nbits)
}

/// First difference between two sink-value lists restricted to `nbits` vectors: `(sink, vector)`.
pub fn first_diff(x: &[Vec<u64>], y: &[Vec<u64>], nbits: u64) -> Option<(usize, u64)> {
    for (i, (a, b)) in x.iter().zip(y.iter()).enumerate() {
        for (w, (p, q)) in a.iter().zip(b.iter()).enumerate() {
            let mut d = p ^ q;
            let base = (w as u64) * 64;
            if base + 64 > nbits {
                let keep = nbits - base;
                if keep < 64 {
                    d &= (1u64 << keep) - 1;
                }
            }
            if d != 0 {
                return Some((i, base + d.trailing_zeros() as u64));
            }
        }
    }
    None
}

pub fn words_hex(w: &[u64]) -> String {
    // little-endian words -> one big-endian hex number without leading zeros
    let mut s = String::new();
    for x in w.iter().rev() {
        if s.is_empty() {
            if *x != 0 {
                s = format!("{x:x}");
            }
        } else {
            s.push_str(&format!("{x:016x}"));
        }
    }
    if s.is_empty() { "0".into() } else { s }
}

/// Histogram helper.
pub fn bump(h: &mut BTreeMap<String, u64>, k: &str) {
    *h.entry(k.to_string()).or_insert(0) += 1;
}

// ------------------------------------------------------------------------------------------------
// replay of a serialised `eqv` request (`hxaig rewrite --replay FILE`): a second, tiny evaluator on the
// text form, so a reported line can be re-judged without regenerating the design.
// ------------------------------------------------------------------------------------------------

fn big_from_hex(s: &str, nw: usize) -> Option<Vec<u64>> {
    let mut v = vec![0u64; nw];
    let digits: Vec<u32> = s.chars().map(|c| c.to_digit(16)).collect::<Option<Vec<u32>>>()?;
    for (i, d) in digits.iter().rev().enumerate() {
        let w = i / 16;
        if w < nw {
            v[w] |= (*d as u64) << ((i % 16) * 4);
        }
    }
    Some(v)
}

fn eval_text(c: &str, inputs: &[Vec<u64>], nw: usize) -> Option<Vec<Vec<u64>>> {
    let zero = vec![0u64; nw];
    let ones = vec![!0u64; nw];
    let list = |s: &str, sep: char| -> Vec<String> { if s.is_empty() { vec![] } else { s.split(sep).map(|x| x.to_string()).collect() } };
    if let Some(rest) = c.strip_prefix('A') {
        let (nodes, sinks) = rest.split_once(';')?;
        let mut vals: Vec<Vec<u64>> = vec![];
        let get = |vals: &Vec<Vec<u64>>, e: usize| -> Option<Vec<u64>> {
            let v = vals.get(e >> 1)?;
            Some(if e & 1 == 1 { v.iter().map(|w| !w).collect() } else { v.clone() })
        };
        for n in list(nodes, ',') {
            let v = if n == "c" {
                zero.clone()
            } else if let Some(o) = n.strip_prefix('i') {
                inputs.get(usize::from_str_radix(o, 16).ok()?).cloned().unwrap_or(zero.clone())
            } else {
                let (a, b) = n.strip_prefix('a')?.split_once('.')?;
                let x = get(&vals, usize::from_str_radix(a, 16).ok()?)?;
                let y = get(&vals, usize::from_str_radix(b, 16).ok()?)?;
                x.iter().zip(y.iter()).map(|(p, q)| p & q).collect()
            };
            vals.push(v);
        }
        list(sinks, ',').iter().map(|s| get(&vals, usize::from_str_radix(s, 16).ok()?)).collect()
    } else if let Some(rest) = c.strip_prefix('N') {
        let parts: Vec<&str> = rest.split(';').collect();
        if parts.len() != 3 {
            return None;
        }
        let k: usize = parts[0].parse().ok()?;
        if k != inputs.len() {
            return None;
        }
        let mut vals: Vec<Vec<u64>> = vec![zero.clone(), ones.clone()];
        vals.extend(inputs.iter().cloned());
        for cell in list(parts[1], ',') {
            let (kind, ins) = cell.split_once(':')?;
            let kind = *crate::dom_aig::KINDS.get(usize::from_str_radix(kind, 16).ok()?)?;
            let xs: Vec<&Vec<u64>> =
                list(ins, '.').iter().map(|i| vals.get(usize::from_str_radix(i, 16).ok()?)).collect::<Option<Vec<_>>>()?;
            if xs.len() != kind.arity() {
                return None;
            }
            let v: Vec<u64> = (0..nw).map(|w| eval_cell(kind, &xs.iter().map(|x| x[w]).collect::<Vec<u64>>())).collect();
            vals.push(v);
        }
        list(parts[2], ',').iter().map(|s| vals.get(usize::from_str_radix(s, 16).ok()?).cloned()).collect()
    } else {
        None
    }
}

/// Verdict for `eqv <tag> <mode> <X> <Y>`.
pub fn replay_eqv(tok: &[&str]) -> String {
    let r = (|| -> Option<String> {
        let [_, _, mode, x, y] = tok else { return None };
        let (inputs, nw, nbits) = if let Some(k) = mode.strip_prefix('x') {
            let k: usize = k.parse().ok()?;
            if k > 16 {
                return None;
            }
            exhaustive_inputs(k)
        } else {
            let parts: Vec<&str> = mode.strip_prefix('r')?.split(':').collect();
            if parts.len() != 3 {
                return None;
            }
            let k: usize = parts[0].parse().ok()?;
            let nbits: u64 = parts[1].parse().ok()?;
            let nw = (nbits as usize).div_ceil(64);
            let ws: Vec<Vec<u64>> = if parts[2].is_empty() {
                vec![]
            } else {
                parts[2].split(',').map(|w| big_from_hex(w, nw)).collect::<Option<Vec<_>>>()?
            };
            if ws.len() != k {
                return None;
            }
            (ws, nw, nbits)
        };
        let vx = eval_text(x, &inputs, nw)?;
        let vy = eval_text(y, &inputs, nw)?;
        if vx.len() != vy.len() {
            return Some("bad-circuit".into());
        }
        Some(match first_diff(&vx, &vy, nbits) {
            None => "eq".into(),
            Some((s, v)) => format!("ne {s:x} {v:x}"),
        })
    })();
    r.unwrap_or_else(|| "bad-op".into())
}
