use std::collections::BTreeMap;
use std::fs;
use std::io::Write;
use std::path::PathBuf;

/// `--key value` options shared by all domains.
#[allow(dead_code)]
pub struct Opts {
    pub map: BTreeMap<String, String>,
    pub rest: Vec<String>,
}

#[allow(dead_code)]
impl Opts {
    pub fn parse(args: &[String]) -> Opts {
        let mut map = BTreeMap::new();
        let mut rest = vec![];
        let mut i = 0;
        while i < args.len() {
            if let Some(k) = args[i].strip_prefix("--") {
                if i + 1 < args.len() {
                    map.insert(k.to_string(), args[i + 1].clone());
                    i += 2;
                    continue;
                }
            }
            rest.push(args[i].clone());
            i += 1;
        }
        Opts { map, rest }
    }
    pub fn get(&self, k: &str) -> Option<&str> {
        self.map.get(k).map(|x| x.as_str())
    }
    pub fn num(&self, k: &str, default: u64) -> u64 {
        self.get(k).and_then(|x| x.parse().ok()).unwrap_or(default)
    }
    pub fn seed(&self) -> u64 {
        self.num("seed", 1)
    }
    pub fn out(&self) -> PathBuf {
        let p = PathBuf::from(self.get("out").unwrap_or("/verif/.cache/run/tmp"));
        let _ = fs::create_dir_all(&p);
        p
    }
}

/// Collects request lines, implementation replies and (optionally) oracle replies; written as
/// `ops.txt`, `impl.txt`, `oracle.txt` (one line each per request), plus `stats.json`.
#[allow(dead_code)]
pub struct Log {
    pub ops: Vec<String>,
    pub imp: Vec<String>,
    pub oracle: Vec<String>,
    pub stats: BTreeMap<String, u64>,
    pub samples: Vec<String>,
}

#[allow(dead_code)]
impl Log {
    pub fn new() -> Log {
        Log { ops: vec![], imp: vec![], oracle: vec![], stats: BTreeMap::new(), samples: vec![] }
    }
    pub fn push(&mut self, op: String, imp: String) {
        debug_assert!(!op.contains('\n') && !imp.contains('\n'));
        self.ops.push(op);
        self.imp.push(imp);
    }
    pub fn push3(&mut self, op: String, imp: String, oracle: String) {
        self.ops.push(op);
        self.imp.push(imp);
        self.oracle.push(oracle);
    }
    pub fn count(&mut self, k: &str) {
        *self.stats.entry(k.to_string()).or_insert(0) += 1;
    }
    pub fn add(&mut self, k: &str, n: u64) {
        *self.stats.entry(k.to_string()).or_insert(0) += n;
    }
    pub fn sample(&mut self, s: String) {
        if self.samples.len() < 5 {
            self.samples.push(s);
        }
    }
    pub fn write(&self, out: &std::path::Path) {
        let w = |name: &str, v: &Vec<String>| {
            let mut f = std::io::BufWriter::new(fs::File::create(out.join(name)).unwrap());
            for l in v {
                writeln!(f, "{l}").unwrap();
            }
        };
        w("ops.txt", &self.ops);
        w("impl.txt", &self.imp);
        if !self.oracle.is_empty() {
            w("oracle.txt", &self.oracle);
        }
        let mut s = String::from("{\n");
        for (k, v) in &self.stats {
            s.push_str(&format!("  \"{k}\": {v},\n"));
        }
        s.push_str("  \"samples\": [");
        for (i, x) in self.samples.iter().enumerate() {
            if i > 0 {
                s.push_str(", ");
            }
            s.push_str(&format!("{:?}", x));
        }
        s.push_str("]\n}\n");
        fs::write(out.join("stats.json"), s).unwrap();
    }
}

pub fn hex(bytes: &[u8]) -> String {
    bytes.iter().map(|b| format!("{b:02x}")).collect()
}
