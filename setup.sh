#!/bin/bash
# One-time cold builds after a fresh restore (offline): Lean project, harness, veryl CLI.
set -u
cd /verif
export CARGO_NET_OFFLINE=true
mkdir -p .cache/run .cache/replay .cache/audit evidence
python3 tools/gen.py >/dev/null || exit 1
( cd lean && lake build ) || exit 1
cp -n /repo/Cargo.lock harness/Cargo.lock 2>/dev/null
cp -n /repo/Cargo.lock harness-aig/Cargo.lock 2>/dev/null
# hxaig (C21, veryl-synthesizer with feature `aig`) shares the target dir, so it is built after hx; its failure is not
# fatal here: `./check C21` reports it (the feature may not compile on a given /repo tree)
( cd harness && cargo build --offline || exit 1; cd ../harness-aig && cargo build --offline || echo "setup: harness-aig did not build (see ./check C21)" ) &
P1=$!
( RUSTFLAGS="--cfg veryl_verif" cargo build --offline --config profile.dev.package.blake3.opt-level=3 --manifest-path /repo/Cargo.toml --target-dir /verif/.cache/target-cli -p veryl -p veryl-ls ) &
P2=$!
wait $P1 || exit 1
wait $P2 || exit 1
echo setup done
