"""C32, CLI level: for a fixed seed every native test's verdict and captured output are the same
whatever the number of CPUs (worker threads) and the dispatch order (driven by the recorded
.build/test_timings).  Oracle only (the scheduling theorem lives in Props/C32.lean)."""
import json
import os
import random
import shutil

import proj
from vlib import *


def suite(rng, n):
    """n native tests: random handles of several element types, different lengths, some failing."""
    tys = [("u32", 0, 1000), ("u8", 3, 200), ("i8", -100, 100), ("i16", -3, 3), ("u64", 0, 2 ** 40), ("bbool", 0, 1)]
    s = ""
    for i in range(n):
        ty, lo, hi = rng.choice(tys)
        cycles = rng.choice([1, 3, 10, 40, 150, 600])
        draws = rng.randrange(1, 6)
        fail = rng.random() < 0.2
        s += f"#[test(t{i})]\nmodule t{i} {{\n    inst clk: $tb::clock_gen;\n    var r: $tb::random::<{ty}>;\n    var q: $tb::random::<u16>;\n"
        s += f"    var x: {ty};\n    var y: u16;\n    initial {{\n"
        for d in range(draws):
            if ty == "bbool":
                s += "        x = r.get();\n"
            else:
                s += f"        x = r.get_range({lo}, {hi});\n        $assert(x >= {lo} && x <= {hi});\n"
            s += f"        $display(\"t{i} d{d} %d\", x);\n        y = q.get();\n        $display(\"t{i} q{d} %d\", y);\n"
            s += f"        clk.next({cycles});\n"
        if fail:
            s += "        $assert(0);\n"
        s += "        $finish();\n    }\n}\n"
    return s


def canon(out):
    i = out.find("{\n")
    try:
        j = json.loads(out[i:])
    except Exception:
        return None
    tests = sorted(({"name": t["name"], "status": t["status"], "message": t.get("message"), "output": t.get("output")}
                    for t in j.get("tests", [])), key=lambda t: t["name"])
    return {"passed": j.get("passed"), "failed": j.get("failed"), "ignored": j.get("ignored"), "tests": tests}


def run_cli(ctx):
    if not cli_build(ctx):
        return
    base = proj.scratch_dir("c32")
    rng = random.Random(ctx.seed)
    nsuites = tier_n(ctx, 2, 12)
    ncpu = os.cpu_count() or 1
    cpusets = ["0", "0-1", f"0-{min(3, ncpu - 1)}", f"0-{ncpu - 1}"]
    runs = 0
    for si in range(nsuites):
        root = f"{base}/s{si}"
        os.makedirs(f"{root}/src", exist_ok=True)
        with open(f"{root}/Veryl.toml", "w") as fh:
            fh.write('[project]\nname = "prj"\nversion = "0.1.0"\n[build]\nexclude_std = true\nsources = ["src"]\n')
        ntests = rng.randrange(6, 14)
        with open(f"{root}/src/t.veryl", "w") as fh:
            fh.write(suite(rng, ntests))
        seed = rng.randrange(1, 10 ** 6)
        ref = None
        variants = []
        for cs in cpusets:
            variants.append((cs, "keep"))
        variants += [(cpusets[-1], "reverse"), (cpusets[1], "shuffle"), (cpusets[-1], "delete")]
        for cs, timing in variants:
            tpath = f"{root}/.build/test_timings"
            if os.path.exists(tpath):
                lines = open(tpath).read().splitlines()
                if timing == "reverse":
                    # invert the recorded durations: the dispatch order (longest first) reverses
                    recs = [l.rsplit(" ", 1) for l in lines if " " in l]
                    secs = sorted(float(b) for _, b in recs)
                    recs.sort(key=lambda r: float(r[1]), reverse=True)
                    lines = [f"{a} {s:.6f}" for (a, _), s in zip(recs, secs)]
                elif timing == "shuffle":
                    recs = [l.rsplit(" ", 1) for l in lines if " " in l]
                    vals = [b for _, b in recs]
                    rng.shuffle(vals)
                    lines = [f"{a} {b}" for (a, _), b in zip(recs, vals)]
                if timing == "delete":
                    os.remove(tpath)
                else:
                    with open(tpath, "w") as fh:
                        fh.write("\n".join(lines) + "\n")
            rc, out = proj.run_veryl(root, ["test", "--seed", str(seed), "--format", "json"], f"{base}/xdg",
                                     prefix=["taskset", "-c", cs])
            runs += 1
            c = canon(out)
            ctx.cov["evaluations"] += 1
            if c is None:
                ctx.violation(f"`veryl test --format json` produced no report (rc={rc}) under taskset {cs}",
                              {"kind": "impl!=oracle", "suite": open(f"{root}/src/t.veryl").read(), "seed": seed,
                               "cpus": cs, "timings": timing, "out": out[-3000:]})
                break
            ctx.distinct(("cli", si, json.dumps(c, sort_keys=True)))
            if ref is None:
                ref = (cs, timing, c)
                ctx.sample({"cli_suite": si, "tests": len(c["tests"]), "passed": c["passed"], "failed": c["failed"],
                            "first_output": c["tests"][0]["output"] if c["tests"] else None})
            elif c != ref[2]:
                diff = [(a, b) for a, b in zip(ref[2]["tests"], c["tests"]) if a != b][:3]
                ctx.violation(f"test reports differ between taskset {ref[0]}/{ref[1]} and {cs}/{timing} for seed {seed}",
                              {"kind": "impl!=oracle", "suite": open(f"{root}/src/t.veryl").read(), "seed": seed,
                               "reference": {"cpus": ref[0], "timings": ref[1]}, "other": {"cpus": cs, "timings": timing},
                               "differences": diff,
                               "replay": f"taskset -c <cpus> veryl test --seed {seed} --format json in a project holding the suite"})
                break
        # reproducibility across seeds: a different seed must change some random value (non-triviality)
        rc, out = proj.run_veryl(root, ["test", "--seed", str(seed + 1), "--format", "json"], f"{base}/xdg")
        c2 = canon(out)
        if ref and c2 and c2 == ref[2]:
            ctx.notes.append(f"suite {si}: reports identical for seeds {seed} and {seed + 1} (random values unused?)")
    ctx.cov["cli_test_runs"] = runs
    shutil.rmtree(base, ignore_errors=True)
