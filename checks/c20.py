"""C20 — netlists are well-formed and the area / timing reports match them."""
import gen
from vlib import *
from checks.net_common import *

LEVEL = "proof"
THEOREMS = [
    # sentence 1: what the decidable `wf` means
    "wf_one_driver_per_used_net", "wf_no_double_driver", "wf_in_range", "wf_arity", "wf_no_cycle",
    # T1: the `while changed` sweep
    "timing_fixpoint", "timing_fuel_irrelevant", "node_weights",
    # T2: area
    "area_sum",
    # T3: the reported depth (full statement false, partial statement)
    "depth_partial", "C20_depth_witness", "reported_depth_is_longest_false", "witness_wf",
]


def kinds_equal(a, b):
    ra, rb = plist(a), plist(b)
    if len(ra) != len(rb):
        return False
    for x, y in zip(ra, rb):
        xs, ys = x.split(":"), y.split(":")
        if xs[:2] != ys[:2] or not close(xs[2], ys[2]):
            return False
    return True


def run(ctx):
    ctx.cov["generated"] = gen.gen(["Cells", "CellLibs"])
    ok = lean_check(ctx, "VerylModel.Props.C20", THEOREMS)
    ctx.cov["trusted_base"] = [
        "Lean 4.33 kernel; axioms ⊆ {propext, Classical.choice, Quot.sound}",
        "tools/gen.py Cells (CellKind list, arity, symbol from ir.rs; Boolean functions from tests/integration.rs eval_cell) "
        "and CellLibs (area/delay per kind, ff_area, sram factors of the 4 libraries as exact naturals in 1e-9 units)",
        "f64 accumulation vs exact naturals: compared with relative tolerance 1e-9; the 1e-12 guard of the update test is "
        "below the delay unit; sram access_delay(depth) (log2) is passed per RAM block by the harness",
        "sort_by+retain+take(1) of compute_timing_top_n modelled as an arg-max fold (ties: equal arrival -> smallest net id); "
        "predecessor/critical_path display not modelled",
        "harness/src/dom_synth.rs (serialisation of GateModule, independent wf/longest-path/area oracles) + checks/net_common.py",
    ]
    ctx.cov["rule"] = ("generated synthesizable designs (combinational expression modules S0..S3, registers with if_reset, "
                       "counters, case decode, arrays -> RAM inference, hierarchy, interface) x 4 cell libraries x RamConfig "
                       "{default, min_bits 0, huge}; every returned GateModule: independent wf verdict must be 1 and equal "
                       "Netlist.wf; compute_area/compute_timing vs Netlist.area/Netlist.report; reports vs independent sums / "
                       "longest path; distinct = distinct netlists")
    if not harness_build(ctx):
        return
    n, cycles = sizes(ctx)
    args = ["--seed", ctx.seed, "--n", n, "--cycles", cycles, "--shrinks", 0]
    if getattr(ctx, "replay", None):
        args = ["--replay", ctx.replay]
    rows, d = run_domain(ctx, args)
    if rows is None:
        return
    rows = corpus_rows(ctx) + rows
    # the recorded witness of the depth finding must still exhibit it, otherwise the key suppresses nothing
    wit = [r for r in rows if r.witness]
    witness_live = any(r.imp.get("depth") != r.ora.get("maxdepth") and r.imp.get("depth") == r.mod.get("depth") for r in wit)
    ctx.cov["depth_witness_live"] = witness_live
    reported = {"wf": 0, "model": 0, "report": 0}
    depth_hits = 0
    for r in rows:
        if r.bad:
            if "PANIC" in r.op_line:       # no netlist was returned: outside C20 (robustness is C11's subject); recorded
                ctx.cov["synth_panics"] = ctx.cov.get("synth_panics", 0) + 1
            continue
        ctx.cov["evaluations"] += 1
        ctx.distinct(r.op_line.split(" drv=", 1)[-1].split(" stim=", 1)[0])
        # (1) the property: every returned netlist is well-formed (independent verdict)
        if r.imp.get("wf") != "1":
            if reported["wf"] < 3:
                reported["wf"] += 1
                ctx.violation(f"netlist of design {r.id} (lib {r.op.get('lib')}, ram {r.op.get('ram')}) is not well-formed: "
                              f"{r.imp.get('why')}", replay_body(r, "impl!=oracle", "independent wf verdict = 0"),
                              kind="impl!=oracle")
            continue
        # (2) Lean's wf on the same netlist
        if r.mod.get("wf") != r.imp.get("wf"):
            if reported["model"] < 3:
                reported["model"] += 1
                ctx.violation(f"Netlist.wf={r.mod.get('wf')} ({r.mod.get('why')}) but the independent verdict is "
                              f"{r.imp.get('wf')} for design {r.id}", replay_body(r, "model!=impl", "wf verdicts differ"),
                              no_input=True, kind="model!=impl")
            continue
        # (3) correspondence: model reports vs real reports
        bad = [k for k in ("area", "comb", "seq", "mem", "delay") if not close(r.mod.get(k), r.imp.get(k))]
        bad += [k for k in ("ff", "bits") if r.mod.get(k) != r.imp.get(k)]
        if not kinds_equal(r.mod.get("kinds", "[]"), r.imp.get("kinds", "[]")):
            bad.append("kinds")
        if r.mod.get("depth") != r.imp.get("depth") or r.mod.get("end") != r.imp.get("end"):
            # a tie in arrival may be broken differently by float rounding: accept if the real endpoint is
            # an arrival maximum of the model and the model's depth there is the reported one
            tie = close(r.mod.get("epa"), r.mod.get("delay")) and r.mod.get("epd") == r.imp.get("depth")
            if not tie:
                bad.append("depth/end")
            else:
                ctx.cov["arrival_ties"] = ctx.cov.get("arrival_ties", 0) + 1
        if bad and reported["model"] < 3:
            reported["model"] += 1
            ctx.violation(f"model/implementation reports differ in {bad} for design {r.id} lib {r.op.get('lib')}: "
                          f"impl `{r.imp_line.split(' out=')[1].split(' ', 1)[1][:200]}` model `{r.mod_line.split(' out=')[1].split(' ', 1)[1][:200]}`",
                          replay_body(r, "model!=impl", f"fields {bad}"), no_input=True, kind="model!=impl")
        if bad:
            continue
        # (4) the property: reports vs independent sums / longest path
        obad = [k for k in ("area", "comb", "seq", "mem") if not close(r.imp.get(k), r.ora.get(k))]
        obad += [k for k in ("ff", "bits") if r.imp.get(k) != r.ora.get(k)]
        if not kinds_equal(r.imp.get("kinds", "[]"), r.ora.get("kinds", "[]")):
            obad.append("kinds")
        if obad and reported["report"] < 3:
            reported["report"] += 1
            ctx.violation(f"area report differs from the sum of library areas in {obad} for design {r.id}",
                          replay_body(r, "impl!=oracle", f"fields {obad}"), kind="impl!=oracle")
        if r.imp.get("depth") != r.ora.get("maxdepth"):
            # signature of the recorded finding: the reported depth is the depth AT the reported (max-arrival)
            # endpoint, as the model predicts (checked in (3)), and a longer path ends elsewhere
            longer = int(r.ora.get("maxdepth", "0"), 16) > int(r.imp.get("depth", "0"), 16)
            key = DEPTH_KEY if (longer and witness_live) else None
            depth_hits += 1
            ctx.violation(f"reported critical_path_depth {r.imp.get('depth')} != longest combinational path "
                          f"{r.ora.get('maxdepth')} (hex) for design {r.id} lib {r.op.get('lib')}",
                          replay_body(r, "impl!=oracle", "depth at max-arrival endpoint vs longest path",
                                      {"theorem": "VerylModel.Props.C20.reported_depth_is_longest_false"}),
                          key=key, kind="impl!=oracle")
    ctx.cov["depth_ne_longest"] = depth_hits
    if not ok:
        if not any(not ni for _, _, ni in ctx.violations):
            proof_broken(ctx, "VerylModel.Props.C20 (or its generated tables) no longer checks")
