"""C33 — switching to the compiled C backend mid-run is invisible."""
import json
import os
import shutil

from vlib import *

LEVEL = "proof"
THEOREMS = [
    # generic hybrid runs: any schedule (swap once, never, back and forth)
    "swap_invisible", "swap_invisible_trace", "swap_invisible_ports", "swap_invisible_bytes",
    # at the granularity of single dispatch attempts (settle_comb / eval_event_stmts / comb_dirty)
    "swap_invisible_dispatch", "first_settle_gap_hook", "swap_invisible_hook",
    # the full-strength dispatch statement is false: first-settle gap (negation witness)
    "first_settle_gap_false",
    # constant cone once == every settle
    "const_cone_once",
    # dispatcher facts
    "dispatch_gate_monotone", "dispatch_never_settle", "dispatch_ready_settle",
]


GAP_KEY = "swap:first-settle-gap:set_ready_at(1)"
WITNESS = f"{ROOT}/corpus/C33/first_settle_gap.design"


def gap_signature(m, cases):
    """Known finding `GAP_KEY`: the FIRST settle of a run refuses the constant cone's attempt (number 0) and serves the
    main function's (number 1), i.e. exactly hook setting k = 1 on a design with a whole-comb handle (Lean:
    first_settle_gap_hook) — and the design must HAVE a constant cone (n_const > 0).  Anything else is not this finding."""
    op = m["op"].split()
    if len(op) < 3 or op[0] not in ("trace", "state") or op[2] != "k=1":
        return False
    info = cases.get(op[1], "")
    toks = dict(t.split("=", 1) for t in info.split() if "=" in t)
    return toks.get("comb") == "1" and int(toks.get("nconst", "0") or 0) > 0


def _replay_file(ctx):
    """A replay file is either request lines (`case <design seed>`) or a violation body (JSON with "ops")."""
    path = ctx.replay
    if path.endswith(".json"):
        with open(path) as fh:
            body = json.load(fh)
        path = f"{ctx.run_dir}/replay-ops.txt"
        with open(path, "w") as fh:
            fh.write("\n".join(body.get("ops", [])) + "\n")
    return path


def run(ctx):
    ok = lean_check(ctx, "VerylModel.Props.C33", THEOREMS)
    ctx.cov["trusted_base"] = [
        "Lean 4.33 kernel; axioms ⊆ {propext, Classical.choice, Quot.sound}",
        "hook H1 (/repo crates/simulator/src/backend/aot_c.rs, cfg veryl_verif): set_ready_at(k) makes exactly the dispatch attempts "
        "k, k+1, … wait for and use the compiled module",
        "hypotheses of swap_invisible_dispatch (structure Hyp) about a design's two engines: the compiled functions and the JIT agree "
        "outside localised bytes, the JIT reads no localised byte before writing it, only the constant cone writes its outputs — "
        "checked per generated design by the k=0 / k=never / interpreter comparison, not proved of the C emitter",
        "cc (gcc) compiles the emitted C faithfully; harness/src/dom_swap.rs + tools/vlib.py (correspondence and oracle comparison)"]
    ctx.cov["rule"] = ("random sequential/combinational 2-state designs (let intermediates = localisable, constant tables = constant cone, "
                       "child instances) × random API-call strings (set/get/step/step_reset); per design one child PROCESS per engine "
                       "history: interpreter (oracle), JIT, synchronous C, asynchronous C with set_ready_at(k) for every k in 0..attempts "
                       "and never (designs on which interpreter, JIT and synchronous C already disagree are counted and skipped). trace lines: port values at every get vs the common reference trace; sched lines: measured dispatch-attempt "
                       "counter after every API call + residency fall-back flags vs the Lean dispatch model; state lines: ff and comb "
                       "bytes vs the never-run outside localized_comb_bytes vs the model's ≈")
    if shutil.which("cc") is None and not os.environ.get("VERYL_AOT_CC"):
        ctx.notes.append("no C compiler on this host: the asynchronous C backend cannot be exercised")
        ctx.violation("no C compiler available (cc): C33 cannot be checked", {"kind": "missing-tool", "tool": "cc"},
                      no_input=True, kind="model!=impl")
        return
    if not harness_build(ctx):
        return
    # 1. the recorded witness of the known finding, replayed first: does it still fail, and only at k = 1?
    wit_reproduces = False
    if os.path.exists(WITNESS):
        wd = f"{ctx.run_dir}/witness"
        os.makedirs(wd, exist_ok=True)
        with open(f"{wd}/replay.txt", "w") as fh:
            fh.write(f"case file:{WITNESS}\n")
        rcw, outw, _ = run_hx(ctx, "swap", ["--replay", f"{wd}/replay.txt", "--par", 4], out_dir=wd, timeout=900)
        run_model("swap", wd)
        nw, mw = diff3(wd)
        bad_k = sorted(set(x["op"].split()[2] for x in mw if x["op"].startswith("trace ")))
        wit_reproduces = bad_k == ["k=1"]
        ctx.cov["known_finding_witness"] = {"file": WITNESS, "deviating_histories": bad_k, "reproduces": wit_reproduces}
        if not wit_reproduces:
            ctx.notes.append(f"witness of {GAP_KEY} no longer fails exactly at k=1 (deviating: {bad_k}): the key suppresses nothing in this run")
        for x in mw:
            if x["kind"] != "impl!=oracle" or not x["op"].split()[2] == "k=1":
                ctx.violation(f"swap witness: unexpected difference at `{x['op'][:120]}`: impl={x['impl'][:80]} model={str(x['model'])[:80]} "
                              f"oracle={str(x['oracle'])[:80]}", {"kind": x["kind"], "first_difference": x, "ops": [f"case file:{WITNESS}"]},
                              no_input=(x["kind"] != "impl!=oracle"), kind=x["kind"])
    # 2. generated designs; no new design is started after the time budget (a loaded machine compiles slowly)
    args = ["--seed", ctx.seed, "--n", tier_n(ctx, 24, 300), "--cycles", tier_n(ctx, 5, 9),
            "--par", 4, "--kcap", tier_n(ctx, 12, 200), "--budget-s", tier_n(ctx, 110, 3000), "--min-n", 3]
    if getattr(ctx, "replay", None):
        args = ["--replay", _replay_file(ctx), "--cycles", tier_n(ctx, 5, 9), "--par", 4, "--kcap", 200]
    rc, out, d = run_hx(ctx, "swap", args, timeout=tier_n(ctx, 1500, 7200))
    if rc != 0:
        ctx.violation(f"harness domain swap crashed (rc={rc})", {"kind": "harness-crash", "log": out[-4000:]},
                      no_input=True, kind="model!=impl")
        return
    mrc, err = run_model("swap", d)
    if mrc != 0:
        ctx.log(f"vmodel swap rc={mrc}: {err[-500:]}")
    n, mism = diff3(d)
    stats = load_stats(d)
    ctx.cov["evaluations"] += n
    ctx.cov["traces_validated_against_impl"] += int(stats.get("runs", 0))
    ctx.cov["distribution"] = {k: v for k, v in stats.items() if k != "samples"}
    for s in stats.get("samples", []):
        ctx.sample(s[:1500])
    ops = read_lines(f"{d}/ops.txt") or []
    imp = read_lines(f"{d}/impl.txt") or []
    for o, r in zip(ops, imp):
        if o.startswith("trace ") or o.startswith("sched "):
            ctx.distinct((o.split()[0], r))
    if int(stats.get("designs", 0)) == 0:
        ctx.violation("swap: no generated design was accepted (generator broken?)", {"kind": "no-coverage", "stats": stats},
                      no_input=True, kind="model!=impl")
    cases = {o.split()[1]: r for o, r in zip(ops, imp) if o.startswith("case ")}
    ctx.cov["distribution"]["engines_already_disagree_rate"] = (
        f"{int(stats.get('designs.engines_already_disagree', 0))}/"
        f"{int(stats.get('designs', 0)) + int(stats.get('designs.engines_already_disagree', 0))}")
    # one report per design and kind
    seen = set()
    gap_hits = 0
    for m in mism:
        op = m["op"].split()
        kind = m["kind"]
        if kind == "impl!=oracle" and wit_reproduces and gap_signature(m, cases):
            # the recorded defect, signature established for THIS case (k = 1, whole-comb handle, constant cone present)
            gap_hits += 1
            ctx.violation(f"swap: design {op[1]} {op[2]}: first-settle gap", {"kind": kind, "first_difference": m, "ops": [f"case {op[1]}"]},
                          key=GAP_KEY, kind=kind)
            continue
        label = op[1] if op and op[0] in ("trace", "state", "case") else "(sched)"
        if (label, kind, op[0]) in seen or len(seen) >= 8:
            continue
        seen.add((label, kind, op[0]))
        body = {"kind": kind, "domain": "swap", "first_difference": m, "seed": ctx.seed,
                "replay": f"{HX} swap --replay <file containing the line `case {label}`> --out DIR ; {VMODEL} swap < DIR/ops.txt"}
        if op[0] == "trace":
            # the design text, for the reader
            rc2, _, d2 = run_hx(ctx, "swap", ["--dump", label, "--cycles", tier_n(ctx, 5, 9)], out_dir=f"{ctx.run_dir}/dump-{label}")
            try:
                with open(f"{d2}/design.txt") as fh:
                    body["design"] = fh.read()
            except OSError:
                pass
            body["ops"] = [f"case {label}"]
            ctx.violation(f"swap: design {label}, engine history {op[2]}: port trace differs from the trace its three reference "
                          f"engines agree on (impl={m['impl'][:120]} oracle={(m['oracle'] or '')[:120]})", body, kind="impl!=oracle")
        elif op[0] == "state" and kind == "impl!=oracle":
            body["ops"] = [f"case {label}"]
            ctx.violation(f"swap: design {label} {op[2]}: state differs from the JIT-only run outside the localised bytes ({m['op'][:200]})",
                          body, kind="impl!=oracle")
        else:
            body["correspondence"] = "vmodel swap vs hx swap"
            ctx.violation(f"swap: model/implementation correspondence broken at `{m['op'][:160]}`: impl={m['impl'][:120]} model={(m['model'] or '')[:120]}",
                          body, no_input=True, kind=kind if kind in ("model!=impl", "model!=oracle") else "model!=impl")
    ctx.cov["distribution"]["first_settle_gap_cases"] = gap_hits
    if not ok:
        if not any(not ni for _, _, ni in ctx.violations):
            proof_broken(ctx, "VerylModel.Props.C33 no longer checks")
