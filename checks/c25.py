"""C25 — filelists are complete, ordered, collision-free."""
import concurrent.futures
import random
import re
import shutil
from vlib import *

LEVEL = "proof"
THEOREMS = ["directory_injective", "deps_injective", "bundle_collision", "multi_source_collision", "paths_injective_false",
            "mem_filelist_iff", "listed_once", "complete_false", "filelist_order_partial", "filelist_order_false"]
KEY_BUNDLE = "paths:bundle-basename-collision"
KEY_MULTI = "paths:multi-source-relative-collision"
KEY_NOSYM = "filelist:file-without-symbols-not-listed"
KEY_STD = "filelist:unused-std-file-not-listed"
KEY_ORDER = "filelist:multi-component-file-order"
KEY_CYCLE = "type_dag:file-cycle-panic"

DIRS = ["", "a", "b", "a/x"]
STEMS = ["foo", "bar", "top", "core"]



_SEEN_KEYS = {}


def keyed(ctx, text, body, key, kind="impl!=oracle"):
    """Report a finding attributed to a call-site key once per run (further occurrences are only
    counted): the key either is a listed known finding or one VIOLATION line names it."""
    n = _SEEN_KEYS.get(key, 0)
    _SEEN_KEYS[key] = n + 1
    ctx.cov.setdefault("keyed_occurrences", {})[key] = n + 1
    if n == 0:
        ctx.violation(text, body, key=key, kind=kind)


def cli_env(scratch):
    e = dict(ENV)
    e["HOME"] = f"{scratch}/home"
    e["XDG_CACHE_HOME"] = f"{scratch}/home/.cache"
    e["XDG_CONFIG_HOME"] = f"{scratch}/home/.config"
    e["NO_COLOR"] = "1"
    os.makedirs(e["XDG_CACHE_HOME"], exist_ok=True)
    return e


def unit_text(units, i):
    u = units[i]
    n = u["name"]
    refs = [units[j] for j in u["refs"]]
    if u["kind"] == "pkg":
        expr = " + ".join([f"{r['name']}::W" for r in refs] + ["1"])
        return f"package {n} {{\n    const W: u32 = {expr};\n}}\n"
    if u["kind"] == "if":
        body = "".join(f"    var x{k}: logic<{r['name']}::W>;\n" for k, r in enumerate(refs))
        return f"interface {n} {{\n    var y: logic;\n{body}}}\n"
    body, wires = "", []
    for k, r in enumerate(refs):
        if r["kind"] == "pkg":
            body += f"    const K{k}: u32 = {r['name']}::W;\n"
        elif r["kind"] == "if":
            body += f"    inst i{k}: {r['name']};\n"
        else:
            body += f"    var w{k}: logic;\n    inst u{k}: {r['name']} (\n        o: w{k},\n    );\n"
            wires.append(f"w{k}")
    return f"module {n} (\n    o: output logic,\n) {{\n{body}    assign o = {' ^ '.join(wires) if wires else '0'};\n}}\n"


def gen_project(rng, idx, root, force=None):
    """A project with a known (acyclic) reference graph between its units."""
    d = f"{root}/p{idx}"
    shutil.rmtree(d, ignore_errors=True)
    cfg = {"target": rng.choice(["source", "directory:target", "directory:target", "directory:out/sv", "bundle:all.sv"]),
           "map": rng.choice(["target", "directory:maps", "none"]),
           "filelist": rng.choice(["absolute", "relative", "flgen"]),
           "std": False}
    if force:
        cfg.update(force)
    nunits = rng.randint(2, 7)
    units = []
    for i in range(nunits):
        kind = rng.choice(["pkg", "pkg", "mod", "mod", "if"])
        cand = [j for j in range(i) if units[j]["kind"] == "pkg" or kind == "mod"]
        refs = sorted(rng.sample(cand, min(len(cand), rng.choice([0, 1, 1, 2])))) if cand else []
        units.append({"name": {"pkg": "P", "mod": "M", "if": "I"}[kind] + str(i), "kind": kind, "refs": refs})
    # files: mostly one unit per file, sometimes two; nested directories with colliding basenames
    # (file-level reference cycles make the CLI panic, see KEY_CYCLE: random projects avoid them)
    for attempt in range(6):
        order = list(range(nunits))
        rng.shuffle(order)
        groups = []
        while order:
            k = 2 if attempt < 5 and len(order) >= 2 and rng.random() < 0.25 else 1
            groups.append(sorted(order[:k]))
            order = order[k:]
        own = {u: gi for gi, g in enumerate(groups) for u in g}
        fe = {(own[i], own[j]) for i in range(nunits) for j in units[i]["refs"] if own[i] != own[j]}
        if acyclic(len(groups), fe):
            break
    names = [(a, b) for a in DIRS for b in STEMS]
    rng.shuffle(names)
    files = []
    for g in groups:
        dr, st = names.pop()
        files.append({"rel": (dr + "/" if dr else "") + st, "units": g, "kind": "units"})
    if rng.random() < 0.35:
        dr, st = names.pop()
        files.append({"rel": (dr + "/" if dr else "") + st, "units": [], "kind": "comment"})
    if rng.random() < 0.2:
        dr, st = names.pop()
        files.append({"rel": (dr + "/" if dr else "") + st, "units": [], "kind": "proto"})
    os.makedirs(f"{d}/src", exist_ok=True)
    for k, f in enumerate(files):
        p = f"{d}/src/{f['rel']}.veryl"
        os.makedirs(os.path.dirname(p), exist_ok=True)
        if f["kind"] == "comment":
            text = "// this file holds nothing but a comment\n"
        elif f["kind"] == "proto":
            text = f"proto package ProtoP{k} {{\n    const C: u32;\n}}\n"
        else:
            text = "".join(unit_text(units, i) for i in f["units"])
        with open(p, "w") as fh:
            fh.write(text)
    tk, _, tp = cfg["target"].partition(":")
    mk, _, mp = cfg["map"].partition(":")
    toml = ("[project]\nname = \"prj\"\nversion = \"0.1.0\"\n[build]\nsources = [\"src\"]\n"
            + (f"target = {{type = \"{tk}\", path = \"{tp}\"}}\n" if tp else f"target = {{type = \"{tk}\"}}\n")
            + (f"sourcemap_target = {{type = \"{mk}\", path = \"{mp}\"}}\n" if mp else f"sourcemap_target = {{type = \"{mk}\"}}\n")
            + f"filelist_type = \"{cfg['filelist']}\"\n" + ("" if cfg["std"] else "exclude_std = true\n"))
    with open(f"{d}/Veryl.toml", "w") as fh:
        fh.write(toml)
    return {"dir": d, "cfg": cfg, "units": units, "files": files, "idx": idx}


DEP_MOD = "pub module {name} (\n    o: output logic,\n) {{\n{body}}}\n"


def write_dep_prj(d, name, files, deps=""):
    os.makedirs(f"{d}/src", exist_ok=True)
    with open(f"{d}/Veryl.toml", "w") as fh:
        fh.write(f"[project]\nname = \"{name}\"\nversion = \"0.1.0\"\n[build]\nsources = [\"src\"]\nexclude_std = true\n"
                 + ("[dependencies]\n" + deps if deps else ""))
    for rel, text in files.items():
        os.makedirs(os.path.dirname(f"{d}/{rel}"), exist_ok=True)
        with open(f"{d}/{rel}", "w") as fh:
            fh.write(text)


def git(d, args, scratch):
    e = cli_env(scratch)
    e.update({"GIT_AUTHOR_NAME": "c25", "GIT_AUTHOR_EMAIL": "c25@localhost", "GIT_COMMITTER_NAME": "c25",
              "GIT_COMMITTER_EMAIL": "c25@localhost", "GIT_CONFIG_NOSYSTEM": "1", "GIT_CONFIG_GLOBAL": "/dev/null"})
    rc, out = sh(["git"] + args, cwd=d, env=e)
    if rc != 0:
        raise RuntimeError(f"git {args}: {out}")
    return out.strip()


def gen_dep_project(idx, root, variant, scratch, filelist="absolute"):
    """Projects WITH dependencies (`Lockfile::paths`: outputs under dependencies/<lock name>/…).
    `same-name`: two path dependencies `x`, `y` whose own `[project] name` is `common` both;
    `diamond`: path dependencies `a`, `b` that both depend on `common` from one local git repository, at
    different exact versions (two checkouts of one project name: locks `common`, `common_0`)."""
    base = f"{root}/p{idx}"
    shutil.rmtree(base, ignore_errors=True)
    main = f"{base}/main"
    top_insts, deps_toml, ndep_files = "", "", 0
    if variant == "same-name":
        for k, (dep, mod) in enumerate((("x", "ModX"), ("y", "ModY"))):
            write_dep_prj(f"{base}/dep{dep}", "common",
                          {"src/m.veryl": DEP_MOD.format(name=mod, body=f"    assign o = {k};\n"),
                           "src/sub/n.veryl": DEP_MOD.format(name=mod + "Sub", body=f"    assign o = {k};\n")})
            deps_toml += f"{dep} = {{path = \"../dep{dep}\"}}\n"
            top_insts += (f"    var w{k}: logic;\n    inst u{k}: {dep}::{mod} (\n        o: w{k},\n    );\n"
                          f"    var v{k}: logic;\n    inst s{k}: {dep}::{mod}Sub (\n        o: v{k},\n    );\n")
            ndep_files += 2
    else:
        repo = f"{base}/repo"
        os.makedirs(repo)
        git(repo, ["init", "-q", "-b", "main"], scratch)
        pub = ""
        for ver, val in (("0.1.0", 0), ("0.2.0", 1)):
            write_dep_prj(repo, "common", {"src/m.veryl": DEP_MOD.format(name="ModC", body=f"    assign o = {val};\n")})
            with open(f"{repo}/Veryl.toml") as fh:
                t = fh.read()
            with open(f"{repo}/Veryl.toml", "w") as fh:
                fh.write(t.replace('version = "0.1.0"', f'version = "{ver}"'))
            git(repo, ["add", "-A"], scratch)
            git(repo, ["commit", "-q", "-m", f"v{ver}"], scratch)
            rev = git(repo, ["rev-parse", "HEAD"], scratch)
            pub += f"[[releases]]\nversion = \"{ver}\"\nrevision = \"{rev}\"\n"
            with open(f"{repo}/Veryl.pub", "w") as fh:
                fh.write(pub)
            git(repo, ["add", "-A"], scratch)
            git(repo, ["commit", "-q", "-m", f"publish {ver}"], scratch)
        for k, (dep, mod, ver) in enumerate((("a", "ModA", "0.1.0"), ("b", "ModB", "0.2.0"))):
            write_dep_prj(f"{base}/dep{dep}", f"p{dep}",
                          {"src/m.veryl": DEP_MOD.format(name=mod, body="    inst u: common::ModC (\n        o,\n    );\n")},
                          deps=f"common = {{git = \"{repo}\", version = \"={ver}\"}}\n")
            deps_toml += f"{dep} = {{path = \"../dep{dep}\"}}\n"
            top_insts += f"    var w{k}: logic;\n    inst u{k}: {dep}::{mod} (\n        o: w{k},\n    );\n"
            ndep_files += 2           # the dependency's file and its own checkout of `common`
    os.makedirs(f"{main}/src")
    with open(f"{main}/src/top.veryl", "w") as fh:
        fh.write(f"module Top (\n    o: output logic,\n) {{\n{top_insts}    assign o = w0 ^ w1;\n}}\n")
    with open(f"{main}/Veryl.toml", "w") as fh:
        fh.write("[project]\nname = \"prj\"\nversion = \"0.1.0\"\n[build]\nsources = [\"src\"]\n"
                 "target = {type = \"directory\", path = \"target\"}\n"
                 f"filelist_type = \"{filelist}\"\nexclude_std = true\n[dependencies]\n{deps_toml}")
    return {"dir": main, "base": base, "idx": idx, "variant": variant, "ndep_files": ndep_files,
            "cfg": {"target": "directory:target", "map": "target", "filelist": filelist, "std": False}}


def describe_dep(prj):
    files = {}
    for dp, dn, fn in os.walk(prj["base"]):
        if any(x in dp for x in ("/.git", "/.build", "/target", "/dependencies")):
            continue
        for x in fn:
            if x.endswith((".veryl", ".toml", ".pub")):
                files[os.path.relpath(os.path.join(dp, x), prj["base"])] = open(os.path.join(dp, x)).read()
    return {"files": files, "replay": "write the files (git repository: one commit per version, Veryl.pub lists them), run "
            "`veryl build` in main/ and look at dependencies/ and prj.f"}


def check_dep_project(ctx, prj, stats):
    """Oracle for dependency outputs: one output per dependency source file (no two sources share a
    path), every one of them listed, no filelist line twice."""
    tag = f"c25: p{prj['idx']} ({prj['variant']} dependencies)"
    if prj["rc"] != 0:
        stats["dep_build_failed"] += 1
        ctx.violation(f"{tag}: does not build: {prj['log'][-300:]}", {"kind": "build-failed", **describe_dep(prj), "log": prj["log"]},
                      no_input=True, kind="model!=impl")
        return
    listed = read_filelist(prj) or []
    ctx.cov["evaluations"] += 1
    stats[f"dep_projects_{prj['variant']}"] += 1
    emitted = []
    for dp, dn, fn in os.walk(f"{prj['dir']}/dependencies"):
        emitted += [os.path.normpath(f"{dp}/{x}") for x in fn if x.endswith(".sv")]
    body = {"kind": "impl!=oracle", **describe_dep(prj), "filelist": listed, "dependency_outputs": sorted(emitted)}
    if len(emitted) != prj["ndep_files"]:
        ctx.violation(f"{tag}: {prj['ndep_files']} dependency source files but {len(emitted)} outputs under dependencies/: "
                      f"{[os.path.relpath(e, prj['dir']) for e in sorted(emitted)]}", body, kind="impl!=oracle")
    if len(set(listed)) != len(listed):
        ctx.violation(f"{tag}: a file is listed twice: {[os.path.relpath(l, prj['dir']) for l in listed]}", body, kind="impl!=oracle")
    for e in sorted(emitted):
        if e not in listed:
            ctx.violation(f"{tag}: emitted dependency file not in the filelist: {os.path.relpath(e, prj['dir'])}", body, kind="impl!=oracle")
    for l in listed:
        if not os.path.exists(l):
            ctx.violation(f"{tag}: listed file does not exist: {l}", body, kind="impl!=oracle")
    # the top module references every dependency: its output comes last
    if listed and os.path.basename(listed[-1]) != "top.sv":
        ctx.violation(f"{tag}: top.sv is not listed after the dependencies it references: "
                      f"{[os.path.relpath(l, prj['dir']) for l in listed]}", body, kind="impl!=oracle")


def dst_of(prj, f):
    tk, _, tp = prj["cfg"]["target"].partition(":")
    if tk == "source":
        return f"{prj['dir']}/src/{f['rel']}.sv"
    if tk == "directory":
        return f"{prj['dir']}/{tp}/{f['rel']}.sv"
    return f"{prj['dir']}/target/{os.path.basename(f['rel'])}.sv"   # staged only, never on disk


def build(prj, scratch):
    rc, out = sh([VERYL, "build"], cwd=prj["dir"], env=cli_env(scratch), timeout=600)
    prj["rc"], prj["log"] = rc, out[-1500:]
    return prj


def read_filelist(prj):
    ext = "list.rb" if prj["cfg"]["filelist"] == "flgen" else "f"
    p = f"{prj['dir']}/prj.{ext}"
    prj["filelist_path"] = p
    try:
        with open(p) as fh:
            lines = [l.strip() for l in fh if l.strip()]
    except FileNotFoundError:
        return None
    out = []
    for l in lines:
        m = re.match(r"source_file '(.*)'$", l)
        l = m.group(1) if m else l
        out.append(os.path.normpath(l if os.path.isabs(l) else f"{prj['dir']}/{l}"))
    return out


def reach(units, i):
    seen, todo = set(), [i]
    while todo:
        x = todo.pop()
        for j in units[x]["refs"]:
            if j not in seen:
                seen.add(j)
                todo.append(j)
    return seen


def file_graph(prj):
    owner = {}
    for k, f in enumerate(prj["files"]):
        for u in f["units"]:
            owner[u] = k
    edges = set()
    for k, f in enumerate(prj["files"]):
        for u in f["units"]:
            for j in prj["units"][u]["refs"]:
                if owner[j] != k:
                    edges.add((k, owner[j]))      # file k references file owner[j]
    return owner, edges


def acyclic(n, edges):
    adj = {i: [b for a, b in edges if a == i] for i in range(n)}
    state = {}
    def dfs(x):
        state[x] = 1
        for y in adj[x]:
            if state.get(y) == 1 or (y not in state and not dfs(y)):
                return False
        state[x] = 2
        return True
    return all(dfs(i) for i in range(n) if i not in state)


def describe(prj):
    return {"Veryl.toml": open(f"{prj['dir']}/Veryl.toml").read(),
            "sources": {f"src/{f['rel']}.veryl": open(f"{prj['dir']}/src/{f['rel']}.veryl").read() for f in prj["files"]},
            "replay": "write the files, run `veryl build` in the directory and read prj.f / prj.list.rb"}


def check_project(ctx, prj, stats):
    cfg = prj["cfg"]
    if prj["rc"] != 0 and "type_dag.rs" in prj["log"] and "WouldCycle" in prj["log"] and not acyclic(len(prj["files"]), file_graph(prj)[1]):
        # no filelist at all: the build panics when two files reference each other through different
        # (acyclically related) symbols.  Signature: panic in type_dag.rs + cyclic file graph + acyclic unit graph.
        stats["file_cycle_panics"] += 1
        ctx.violation("c25: `veryl build` panics (type_dag.rs insert_file_edge: WouldCycle) on a project whose files "
                      "reference each other although its packages do not", {"kind": "impl!=oracle", **describe(prj), "log": prj["log"],
                      "signature_verified": True}, key=KEY_CYCLE, kind="impl!=oracle")
        return
    if prj["rc"] != 0:
        stats["build_failed"] += 1
        ctx.violation(f"c25: generated project p{prj['idx']} does not build (generator or CLI problem): {prj['log'][-300:]}",
                      {"kind": "build-failed", **describe(prj), "log": prj["log"]}, no_input=True, kind="model!=impl")
        return
    listed = read_filelist(prj)
    if listed is None:
        ctx.violation(f"c25: p{prj['idx']}: no filelist written", {"kind": "impl!=oracle", **describe(prj)}, kind="impl!=oracle")
        return
    ctx.cov["evaluations"] += 1
    ctx.distinct((cfg["target"], cfg["map"], cfg["filelist"], tuple((f["kind"], len(f["units"])) for f in prj["files"]),
                  tuple(tuple(u["refs"]) for u in prj["units"])))
    tk = cfg["target"].partition(":")[0]
    stats[f"target_{tk}"] += 1
    stats[f"filelist_{cfg['filelist']}"] += 1
    emitted = []
    for dp, dn, fn in os.walk(prj["dir"]):
        if os.path.relpath(dp, prj["dir"]).split(os.sep)[0] == ".build":
            continue
        emitted += [os.path.normpath(f"{dp}/{x}") for x in fn if x.endswith(".sv")]
    # -- listed exactly once, and only existing files
    if len(set(listed)) != len(listed):
        ctx.violation(f"c25: p{prj['idx']}: a file is listed twice: {listed}", {"kind": "impl!=oracle", **describe(prj), "filelist": listed},
                      kind="impl!=oracle")
    for l in listed:
        if not os.path.exists(l):
            ctx.violation(f"c25: p{prj['idx']}: listed file does not exist: {l}", {"kind": "impl!=oracle", **describe(prj), "filelist": listed},
                          kind="impl!=oracle")
    if tk == "bundle":
        # one bundle, holding every unit exactly once
        text = open(f"{prj['dir']}/all.sv").read() if os.path.exists(f"{prj['dir']}/all.sv") else ""
        found = re.findall(r"^(?:module|package|interface) prj_(\w+)", text, flags=re.M)
        want = sorted(u["name"] for u in prj["units"])
        stems = [os.path.basename(f["rel"]) for f in prj["files"]]
        dup_stems = len(set(stems)) != len(stems)
        stats["bundle_with_same_basename"] += int(dup_stems)
        if sorted(found) != want:
            lost = sorted(set(want) - set(found))
            twice = sorted(x for x in set(found) if found.count(x) > 1)
            # signature: the lost units live in files whose basename also occurs in another directory
            owner = {u: f for f in prj["files"] for u in f["units"]}
            sig = dup_stems and all(stems.count(os.path.basename(owner[int(n[1:])]["rel"])) > 1 for n in lost + twice)
            (keyed if sig else lambda c, t, b, k: c.violation(t, b, kind="impl!=oracle"))(
                ctx, f"c25: p{prj['idx']}: bundle lost {lost}, has {twice} twice (files with one basename share target/<name>.sv)",
                {"kind": "impl!=oracle", **describe(prj), "lost": lost, "twice": twice, "signature_verified": sig}, KEY_BUNDLE)
        if listed != [os.path.normpath(f"{prj['dir']}/all.sv")]:
            ctx.violation(f"c25: p{prj['idx']}: bundle filelist is {listed}", {"kind": "impl!=oracle", **describe(prj)}, kind="impl!=oracle")
        return
    # -- pairwise distinct outputs: one .sv (and one map) per source file
    own = [e for e in emitted if "/dependencies/" not in e]
    if len(own) != len(prj["files"]):
        ctx.violation(f"c25: p{prj['idx']}: {len(prj['files'])} sources but {len(own)} outputs", {"kind": "impl!=oracle", **describe(prj)},
                      kind="impl!=oracle")
    # -- complete
    by_dst = {os.path.normpath(dst_of(prj, f)): f for f in prj["files"]}
    for e in sorted(emitted):
        if e in listed:
            continue
        f = by_dst.get(e)
        if f is not None and f["kind"] in ("comment", "proto"):
            stats["unlisted_symbol_free_files"] += 1
            keyed(ctx, f"c25: emitted but not listed: src/{f['rel']}.veryl ({f['kind']}-only file: no type-dag symbol)",
                  {"kind": "impl!=oracle", **describe(prj), "unlisted": e, "signature_verified": True}, KEY_NOSYM)
        elif f is None and "/dependencies/std/" in e and cfg["std"] and not any("$std" in v for v in describe(prj)["sources"].values()):
            stats["unlisted_std_files"] += 1
            keyed(ctx, "c25: $std outputs are emitted into dependencies/std but, being unused by the project, not listed",
                  {"kind": "impl!=oracle", **describe(prj), "unlisted_example": e, "signature_verified": True}, KEY_STD)
        else:
            ctx.violation(f"c25: p{prj['idx']}: emitted file not in the filelist: {e}", {"kind": "impl!=oracle", **describe(prj), "filelist": listed},
                          kind="impl!=oracle")
    # -- order
    owner, edges = file_graph(prj)
    if acyclic(len(prj["files"]), edges):
        stats["acyclic_projects"] += 1
        pos = {l: i for i, l in enumerate(listed)}
        for a, b in sorted(edges):
            fa, fb = prj["files"][a], prj["files"][b]
            pa, pb = pos.get(os.path.normpath(dst_of(prj, fa))), pos.get(os.path.normpath(dst_of(prj, fb)))
            stats["order_edges_checked"] += 1
            if pa is None or pb is None or pb < pa:
                continue
            # `fa` references `fb` but is listed first.  Signature of the known defect: `fa` holds several
            # components and one of them does not depend on `fb` (the file is placed at its first component).
            indep = [u for u in fa["units"] if not (reach(prj["units"], u) & set(fb["units"]))]
            sig = len(fa["units"]) >= 2 and bool(indep)
            stats["order_violations"] += 1
            (keyed if sig else lambda c, t, b, k: c.violation(t, b, kind="impl!=oracle"))(
                ctx, f"c25: p{prj['idx']}: src/{fa['rel']}.veryl references src/{fb['rel']}.veryl but is listed before it",
                {"kind": "impl!=oracle", **describe(prj), "filelist": listed, "signature_verified": sig}, KEY_ORDER)
    else:
        stats["cyclic_file_graphs"] += 1


def run(ctx):
    ok = lean_check(ctx, "VerylModel.Props.C25", THEOREMS)
    ctx.cov["trusted_base"] = [
        "Lean 4.33 kernel; axioms ⊆ {propext, Classical.choice, Quot.sound}",
        "petgraph::algo::toposort returns a topological order of the type dag; walkdir lists each source once; "
        "Path::with_extension/set_extension replace the last extension",
        "`--out-dir`, explicit file arguments, `examples/` and test filtering are not modelled",
        "the SystemVerilog text of each output (emitter) is not examined, only which files exist and where they are listed",
        "harness/src/dom_paths.rs, checks/c25.py (project generator with a known reference graph)"]
    ctx.cov["rule"] = ("(1) generated layouts × target{source,directory,bundle} × sourcemap_target{target,directory,none} × one or "
                       "several source directories → real Metadata::paths vs M-Paths and vs pairwise distinctness; (2) generated "
                       "projects (2–7 packages/modules/interfaces with an acyclic reference graph, 1–2 units per file, nested "
                       "directories with equal basenames, comment-only / proto-only files, filelist_type × target × sourcemap_target, "
                       "one project with $std) built by the real CLI → filelist vs oracle (every emitted .sv listed once, references "
                       "before referrers, one output per source) and vs M-Paths.sortFilelist fed with the real toposort / "
                       "connected components read in process")
    if not harness_build(ctx):
        return
    # ---- (1) path assignment ---------------------------------------------------------------------
    rc, out, d = run_hx(ctx, "paths", ["--seed", ctx.seed, "--n", tier_n(ctx, 400, 5000)])
    if rc != 0:
        ctx.violation(f"harness domain paths crashed (rc={rc})", {"kind": "harness-crash", "log": out[-4000:]}, no_input=True,
                      kind="model!=impl")
        return
    run_model("paths", d)
    n, mism = diff3(d)
    ctx.cov["evaluations"] += n
    st = load_stats(d)
    ctx.cov.setdefault("distribution", {}).update({f"paths.{k}": v for k, v in st.items() if k != "samples"})
    for s in st.get("samples", []):
        ctx.sample(s)
    for o, r in zip(read_lines(f"{d}/ops.txt") or [], read_lines(f"{d}/impl.txt") or []):
        ctx.distinct((o, r))
    unkeyed = 0
    for m in mism:
        t = m["op"].split(" ")
        key = None
        if m["kind"] == "impl!=oracle" and t[0] == "distinct":
            files = [x.split(":") for x in t[3][1:-1].split(",")]
            stems = [f[1].split("/")[-1] for f in files]
            rels = [f[1] for f in files]
            bases = {f[0] for f in files}
            # the collision is explained by the call site iff the reply is `dup` exactly for the colliding dimension
            if t[1].startswith("b:") and len(set(stems)) < len(stems):
                key = KEY_BUNDLE
            elif t[1].startswith("d:") and len(bases) > 1 and len(set(rels)) < len(rels):
                key = KEY_MULTI
        body = {"kind": m["kind"], "domain": "paths", "ops": [m["op"]], "first_difference": m,
                "replay": f"{HX} paths --replay <file with the op> --out DIR ; {VMODEL} paths < DIR/ops.txt"}
        if key is None:
            unkeyed += 1
            if unkeyed > 3:
                continue
        text = f"paths: {m['kind']} at `{m['op']}`: impl={m['impl']} model={m['model']} oracle={m['oracle']}"
        if key is not None:
            keyed(ctx, text, body, key)
        else:
            ctx.violation(text, body, no_input=m["kind"] != "impl!=oracle", kind=m["kind"])
    # ---- (2) end to end through the CLI ----------------------------------------------------------
    if not cli_build(ctx):
        return
    scratch = f"{CACHE}/scratch/c25-{os.getpid()}"
    shutil.rmtree(scratch, ignore_errors=True)
    os.makedirs(scratch, exist_ok=True)
    try:
        rng = random.Random(ctx.seed)
        nprj = tier_n(ctx, 40, 400)
        prjs = [gen_project(rng, i, scratch) for i in range(nprj)]
        # fixed witnesses: two components in one file (order), same basename under a bundle, $std enabled
        prjs.append(gen_project(random.Random(1), nprj, scratch, force={"std": True, "target": "directory:target"}))
        w = gen_project(random.Random(2), nprj + 1, scratch, force={"target": "directory:target", "map": "none", "filelist": "absolute"})
        shutil.rmtree(f"{w['dir']}/src")
        os.makedirs(f"{w['dir']}/src")
        w["units"] = [{"name": "PB", "kind": "pkg", "refs": []}, {"name": "PA1", "kind": "pkg", "refs": []},
                      {"name": "PA2", "kind": "pkg", "refs": [0]}]
        w["files"] = [{"rel": "b", "units": [0], "kind": "units"}, {"rel": "c", "units": [1, 2], "kind": "units"}]
        for f in w["files"]:
            with open(f"{w['dir']}/src/{f['rel']}.veryl", "w") as fh:
                fh.write("".join(unit_text(w["units"], i) for i in f["units"]))
        prjs.append(w)
        # file-level cycle through acyclic packages: top {P0, P3}, bar {P2}; P2 uses P0, P3 uses P2
        c = gen_project(random.Random(3), nprj + 2, scratch, force={"target": "directory:target", "map": "none", "filelist": "absolute"})
        shutil.rmtree(f"{c['dir']}/src")
        os.makedirs(f"{c['dir']}/src")
        c["units"] = [{"name": "P0", "kind": "pkg", "refs": []}, {"name": "P2", "kind": "pkg", "refs": [0]},
                      {"name": "P3", "kind": "pkg", "refs": [1]}]
        c["files"] = [{"rel": "top", "units": [0, 2], "kind": "units"}, {"rel": "bar", "units": [1], "kind": "units"}]
        for f in c["files"]:
            with open(f"{c['dir']}/src/{f['rel']}.veryl", "w") as fh:
                fh.write("".join(unit_text(c["units"], i) for i in f["units"]))
        prjs.append(c)
        dprjs = [gen_dep_project(nprj + 10, scratch, "same-name", scratch, "absolute"),
                 gen_dep_project(nprj + 11, scratch, "same-name", scratch, "flgen"),
                 gen_dep_project(nprj + 12, scratch, "diamond", scratch, "relative")]
        with concurrent.futures.ThreadPoolExecutor(max_workers=8) as ex:
            prjs = list(ex.map(lambda p: build(p, scratch), prjs))
            dprjs = list(ex.map(lambda p: build(p, scratch), dprjs))
        stats = {}
        class D(dict):
            def __missing__(self, k):
                return 0
        stats = D()
        for p in prjs:
            check_project(ctx, p, stats)
        for p in dprjs:
            check_dep_project(ctx, p, stats)
        # correspondence of the sort: real toposort/components (in process) → model → CLI filelist
        good = [p for p in prjs if p["rc"] == 0 and not p["cfg"]["target"].startswith("bundle") and os.path.exists(p.get("filelist_path", "/x"))]
        with open(f"{ctx.run_dir}/projects.txt", "w") as fh:
            for p in good:
                fh.write(f"{p['dir']}\t{p['filelist_path']}\n")
        d2 = f"{ctx.run_dir}/paths-projects"
        rc, out, d2 = run_hx(ctx, "paths", ["--projects", f"{ctx.run_dir}/projects.txt"], out_dir=d2, env=cli_env(scratch))
        if rc != 0:
            ctx.violation(f"harness domain paths --projects crashed (rc={rc})", {"kind": "harness-crash", "log": out[-4000:]},
                          no_input=True, kind="model!=impl")
        else:
            run_model("paths", d2)
            n2, mism2 = diff3(d2)
            ctx.cov["evaluations"] += n2
            ctx.cov["traces_validated_against_impl"] += n2
            stats["sort_lines"] = n2
            stats["sort_skipped"] = sum(1 for l in (read_lines(f"{d2}/ops.txt") or []) if l.startswith("skip"))
            for m in mism2[:3]:
                ctx.violation(f"paths: sort_filelist correspondence broken: impl(CLI filelist)={m['impl']} model={m['model']}",
                              {"kind": m["kind"], "domain": "paths", "ops": [m["op"]], "first_difference": m}, no_input=True,
                              kind="model!=impl")
        ctx.cov.setdefault("distribution", {}).update({f"cli.{k}": v for k, v in stats.items()})
        ctx.sample({"project": describe(prjs[0])["sources"], "filelist": read_filelist(prjs[0])})
    finally:
        shutil.rmtree(scratch, ignore_errors=True)
    if not ok:
        if not any(not ni for _, _, ni in ctx.violations):
            proof_broken(ctx, "VerylModel.Props.C25 no longer checks")
