"""Structural shrinking of the request lines of the `cdc` (C16) and `assign` (C15) domains.

Both protocols are small bracketed languages (see lean/VerylModel/Driver/{Cdc,Assign}.lean). A line
is parsed into a tree, single-step reductions are enumerated (drop an item/process, drop a
statement, replace a compound statement by one of its blocks, drop else-if arms, replace an
expression by a sub-expression, drop a read) and applied greedily while `fails(line)` holds."""


class P:
    def __init__(self, s):
        self.s, self.i = s, 0

    def peek(self):
        return self.s[self.i] if self.i < len(self.s) else ""

    def eat(self, c):
        if self.peek() != c:
            raise ValueError(f"expected {c!r} at {self.i}")
        self.i += 1

    def hex(self):
        j = self.i
        while self.peek() and self.peek() in "0123456789abcdef":
            self.i += 1
        if j == self.i:
            raise ValueError("hex")
        return self.s[j:self.i]


# ------------------------------------------------------------------------------------------------
# cdc
# ------------------------------------------------------------------------------------------------

def c_leaf(p):
    if p.peek() == "c":
        p.i += 1
        return ("c",)
    p.eat("v")
    return ("v", p.hex())


def c_expr(p):
    c = p.peek()
    if c in "UBT":
        p.i += 1
        p.eat("(")
        xs = [c_expr(p)]
        while p.peek() == ",":
            p.i += 1
            xs.append(c_expr(p))
        p.eat(")")
        return (c, xs)
    if c == "N":
        p.i += 1
        p.eat("(")
        l = c_leaf(p)
        xs = []
        while p.peek() == ",":
            p.i += 1
            xs.append(c_expr(p))
        p.eat(")")
        return ("N", l, xs)
    return c_leaf(p)


def c_block(p):
    p.eat("{")
    b = []
    while p.peek() != "}":
        b.append(c_stmt(p))
    p.i += 1
    return b


def c_arms(p):
    p.eat("<")
    a = []
    while p.peek() != ">":
        p.eat("(")
        c = c_expr(p)
        p.eat(")")
        a.append((c, c_block(p)))
    p.i += 1
    return a


def c_stmt(p):
    c = p.peek()
    p.i += 1
    if c == "A":
        p.eat("(")
        d = p.hex()
        p.eat(",")
        e = c_expr(p)
        p.eat(")")
        return ["A", d, e]
    if c == "I":
        p.eat("(")
        e = c_expr(p)
        p.eat(")")
        return ["I", e, c_block(p), c_arms(p), c_block(p)]
    if c == "C":
        p.eat("(")
        e = c_expr(p)
        p.eat(")")
        p.eat("[")
        bs = []
        while p.peek() == "{":
            bs.append(c_block(p))
        p.eat("]")
        return ["C", e, bs]
    if c == "S":
        return ["S", c_arms(p), c_block(p)]
    raise ValueError("stmt")


def c_item(p):
    k = p.peek()
    p.i += 1
    u = p.peek()
    p.i += 1
    if k == "a":
        p.eat("(")
        d = p.hex()
        p.eat(",")
        e = c_expr(p)
        p.eat(")")
        return ["a", u, d, e]
    if k == "k":
        return ["k", u, c_block(p)]
    if k == "f":
        p.eat("(")
        c = p.hex()
        p.eat(",")
        if p.peek() == "-":
            p.i += 1
            r = "-"
        else:
            r = p.hex()
        p.eat(")")
        return ["f", u, c, r, c_block(p)]
    if k == "i":
        p.eat("(")
        cs = []
        while True:
            key = p.hex()
            p.eat(":")
            cs.append([key, c_expr(p)])
            if p.peek() == ",":
                p.i += 1
            else:
                break
        p.eat(")")
        return ["i", u, cs]
    raise ValueError("item")


def c_parse(items):
    if items == "-":
        return []
    p = P(items)
    out = [c_item(p)]
    while p.peek() == ";":
        p.i += 1
        out.append(c_item(p))
    if p.i != len(items):
        raise ValueError("trailing")
    return out


def c_pe(e):
    if e[0] == "c":
        return "c"
    if e[0] == "v":
        return "v" + e[1]
    if e[0] == "N":
        return "N(" + ",".join([c_pe(e[1])] + [c_pe(x) for x in e[2]]) + ")"
    return e[0] + "(" + ",".join(c_pe(x) for x in e[1]) + ")"


def c_pb(b):
    return "{" + "".join(c_ps(s) for s in b) + "}"


def c_pa(a):
    return "<" + "".join("(" + c_pe(c) + ")" + c_pb(b) for c, b in a) + ">"


def c_ps(s):
    if s[0] == "A":
        return f"A({s[1]},{c_pe(s[2])})"
    if s[0] == "I":
        return f"I({c_pe(s[1])}){c_pb(s[2])}{c_pa(s[3])}{c_pb(s[4])}"
    if s[0] == "C":
        return f"C({c_pe(s[1])})[" + "".join(c_pb(b) for b in s[2]) + "]"
    return "S" + c_pa(s[1]) + c_pb(s[2])


def c_print(items):
    if not items:
        return "-"
    out = []
    for it in items:
        if it[0] == "a":
            out.append(f"a{it[1]}({it[2]},{c_pe(it[3])})")
        elif it[0] == "k":
            out.append(f"k{it[1]}{c_pb(it[2])}")
        elif it[0] == "f":
            out.append(f"f{it[1]}({it[2]},{it[3]}){c_pb(it[4])}")
        else:
            out.append(f"i{it[1]}(" + ",".join(f"{k}:{c_pe(e)}" for k, e in it[2]) + ")")
    return ";".join(out)


def expr_reductions(e):
    """Smaller expressions (direct children first)."""
    if e[0] in "UBT":
        for x in e[1]:
            yield x
        for i, x in enumerate(e[1]):
            for r in expr_reductions(x):
                yield (e[0], e[1][:i] + [r] + e[1][i + 1:])
    elif e[0] == "N":
        yield e[1]
        for x in e[2]:
            yield x
        for i in range(len(e[2])):
            if len(e[2]) > 1:
                yield ("N", e[1], e[2][:i] + e[2][i + 1:])
        for i, x in enumerate(e[2]):
            for r in expr_reductions(x):
                yield ("N", e[1], e[2][:i] + [r] + e[2][i + 1:])


def c_block_reductions(b):
    """Smaller versions of a block (lists of statements)."""
    for i, s in enumerate(b):
        yield b[:i] + b[i + 1:]
    for i, s in enumerate(b):
        pre, post = b[:i], b[i + 1:]
        if s[0] == "A":
            for r in expr_reductions(s[2]):
                yield pre + [["A", s[1], r]] + post
        elif s[0] == "I":
            yield pre + s[2] + post
            yield pre + s[4] + post
            for c, bb in s[3]:
                yield pre + bb + post
            if s[3]:
                yield pre + [["I", s[1], s[2], [], s[4]]] + post
                for j in range(len(s[3])):
                    yield pre + [["I", s[1], s[2], s[3][:j] + s[3][j + 1:], s[4]]] + post
            if s[4]:
                yield pre + [["I", s[1], s[2], s[3], []]] + post
            for r in expr_reductions(s[1]):
                yield pre + [["I", r, s[2], s[3], s[4]]] + post
            for r in c_block_reductions(s[2]):
                yield pre + [["I", s[1], r, s[3], s[4]]] + post
            for j, (c, bb) in enumerate(s[3]):
                for r in expr_reductions(c):
                    yield pre + [["I", s[1], s[2], s[3][:j] + [(r, bb)] + s[3][j + 1:], s[4]]] + post
                for r in c_block_reductions(bb):
                    yield pre + [["I", s[1], s[2], s[3][:j] + [(c, r)] + s[3][j + 1:], s[4]]] + post
            for r in c_block_reductions(s[4]):
                yield pre + [["I", s[1], s[2], s[3], r]] + post
        elif s[0] == "C":
            for bb in s[2]:
                yield pre + bb + post
            for j in range(len(s[2])):
                if len(s[2]) > 2:
                    yield pre + [["C", s[1], s[2][:j] + s[2][j + 1:]]] + post
            for r in expr_reductions(s[1]):
                yield pre + [["C", r, s[2]]] + post
            for j, bb in enumerate(s[2]):
                for r in c_block_reductions(bb):
                    yield pre + [["C", s[1], s[2][:j] + [r] + s[2][j + 1:]]] + post
        else:
            yield pre + s[2] + post
            for c, bb in s[1]:
                yield pre + bb + post
            for j in range(len(s[1])):
                yield pre + [["S", s[1][:j] + s[1][j + 1:], s[2]]] + post
            for j, (c, bb) in enumerate(s[1]):
                for r in expr_reductions(c):
                    yield pre + [["S", s[1][:j] + [(r, bb)] + s[1][j + 1:], s[2]]] + post
                for r in c_block_reductions(bb):
                    yield pre + [["S", s[1][:j] + [(c, r)] + s[1][j + 1:], s[2]]] + post
            for r in c_block_reductions(s[2]):
                yield pre + [["S", s[1], r]] + post


def c_reductions(items):
    for i in range(len(items)):
        if len(items) > 1:
            yield items[:i] + items[i + 1:]
    for i, it in enumerate(items):
        pre, post = items[:i], items[i + 1:]
        if it[0] == "a":
            for r in expr_reductions(it[3]):
                yield pre + [["a", it[1], it[2], r]] + post
        elif it[0] == "k":
            for r in c_block_reductions(it[2]):
                yield pre + [["k", it[1], r]] + post
        elif it[0] == "f":
            if it[3] != "-":
                yield pre + [["f", it[1], it[2], "-", it[4]]] + post
            for r in c_block_reductions(it[4]):
                yield pre + [["f", it[1], it[2], it[3], r]] + post
        else:
            for j in range(len(it[2])):
                if len(it[2]) > 1:
                    yield pre + [["i", it[1], it[2][:j] + it[2][j + 1:]]] + post
            for j, (k, e) in enumerate(it[2]):
                for r in expr_reductions(e):
                    yield pre + [["i", it[1], it[2][:j] + [[k, r]] + it[2][j + 1:]]] + post


# ------------------------------------------------------------------------------------------------
# assign
# ------------------------------------------------------------------------------------------------

def a_reads(p):
    r = []
    while p.peek() and p.peek() in "0123456789abcdef":
        v = p.hex()
        p.eat(":")
        r.append((v, p.hex()))
        if p.peek() == ",":
            p.i += 1
    return r


def a_block(p):
    p.eat("{")
    b = []
    while p.peek() != "}":
        b.append(a_stmt(p))
    p.i += 1
    return b


def a_stmt(p):
    c = p.peek()
    p.i += 1
    p.eat("(")
    if c == "A":
        r = a_reads(p)
        p.eat(";")
        d = p.hex()
        p.eat(",")
        m = p.hex()
        p.eat(",")
        dy = p.peek()
        p.i += 1
        p.eat(")")
        return ["A", r, d, m, dy]
    if c == "I":
        r = a_reads(p)
        p.eat(")")
        return ["I", r, a_block(p), a_block(p)]
    if c == "C":
        r = a_reads(p)
        p.eat(";")
        exh = p.peek()
        p.i += 1
        p.eat(")")
        p.eat("[")
        arms = []
        while p.peek() == "{":
            arms.append(a_block(p))
        p.eat("]")
        return ["C", r, exh, arms, a_block(p)]
    raise ValueError("stmt")


def a_parse(procs):
    if procs == "-":
        return []
    p = P(procs)
    out = []
    while True:
        k = p.peek()
        p.i += 1
        if k in "kf":
            out.append([k, a_block(p)])
        elif k == "i":
            p.eat("(")
            o = a_reads(p)
            p.eat("|")
            r = a_reads(p)
            p.eat(")")
            out.append(["i", o, r])
        else:
            raise ValueError("proc")
        if p.peek() == ";":
            p.i += 1
        else:
            break
    if p.i != len(procs):
        raise ValueError("trailing")
    return out


def a_pr(r):
    return ",".join(f"{v}:{m}" for v, m in r)


def a_pb(b):
    out = "{"
    for s in b:
        if s[0] == "A":
            out += f"A({a_pr(s[1])};{s[2]},{s[3]},{s[4]})"
        elif s[0] == "I":
            out += f"I({a_pr(s[1])}){a_pb(s[2])}{a_pb(s[3])}"
        else:
            out += f"C({a_pr(s[1])};{s[2]})[" + "".join(a_pb(a) for a in s[3]) + "]" + a_pb(s[4])
    return out + "}"


def a_print(procs):
    if not procs:
        return "-"
    out = []
    for p in procs:
        if p[0] in "kf":
            out.append(p[0] + a_pb(p[1]))
        else:
            out.append(f"i({a_pr(p[1])}|{a_pr(p[2])})")
    return ";".join(out)


def drop_one(l):
    for i in range(len(l)):
        yield l[:i] + l[i + 1:]


def a_block_reductions(b):
    for r in drop_one(b):
        yield r
    for i, s in enumerate(b):
        pre, post = b[:i], b[i + 1:]
        if s[0] == "A":
            for r in drop_one(s[1]):
                yield pre + [["A", r, s[2], s[3], s[4]]] + post
        elif s[0] == "I":
            yield pre + s[2] + post
            yield pre + s[3] + post
            if s[3]:
                yield pre + [["I", s[1], s[2], []]] + post
            for r in drop_one(s[1]):
                yield pre + [["I", r, s[2], s[3]]] + post
            for r in a_block_reductions(s[2]):
                yield pre + [["I", s[1], r, s[3]]] + post
            for r in a_block_reductions(s[3]):
                yield pre + [["I", s[1], s[2], r]] + post
        else:
            for a in s[3]:
                yield pre + a + post
            yield pre + s[4] + post
            if s[2] == "0":
                for r in drop_one(s[3]):
                    if r:
                        yield pre + [["C", s[1], s[2], r, s[4]]] + post
                if s[4]:
                    yield pre + [["C", s[1], s[2], s[3], []]] + post
            else:
                yield pre + [["C", s[1], "0", s[3], s[4]]] + post
            for r in drop_one(s[1]):
                yield pre + [["C", r, s[2], s[3], s[4]]] + post
            for j, a in enumerate(s[3]):
                for r in a_block_reductions(a):
                    yield pre + [["C", s[1], s[2], s[3][:j] + [r] + s[3][j + 1:], s[4]]] + post
            for r in a_block_reductions(s[4]):
                yield pre + [["C", s[1], s[2], s[3], r]] + post


def a_reductions(procs):
    for r in drop_one(procs):
        yield r
    for i, p in enumerate(procs):
        pre, post = procs[:i], procs[i + 1:]
        if p[0] in "kf":
            for r in a_block_reductions(p[1]):
                yield pre + [[p[0], r]] + post
        else:
            for r in drop_one(p[1]):
                if r or p[2]:
                    yield pre + [["i", r, p[2]]] + post
            for r in drop_one(p[2]):
                if r or p[1]:
                    yield pre + [["i", p[1], r]] + post


# ------------------------------------------------------------------------------------------------

def shrink(line, fails, domain, budget=250):
    """Greedy structural shrinking of `<op> <decls> <body>`; `fails(line)` must hold for `line`."""
    op, decls, body = line.split(" ")
    parse, show, reds = (c_parse, c_print, c_reductions) if domain == "cdc" else (a_parse, a_print, a_reductions)
    try:
        tree = parse(body)
    except Exception:
        return line
    used = 0
    progress = True
    while progress and used < budget:
        progress = False
        seen = set()
        for cand in reds(tree):
            text = show(cand)
            if text in seen or len(text) >= len(show(tree)):
                continue
            seen.add(text)
            used += 1
            if used > budget:
                break
            if fails(f"{op} {decls} {text}"):
                tree = cand
                progress = True
                break
    return f"{op} {decls} {show(tree)}"
