"""C17 — compile-time evaluation follows IEEE 1800.

Proof part : lean/VerylModel/Props/C17.lean (theorems about the Impl model of value.rs / op.rs
             against the IEEE reference Ref.*, both in lean/VerylModel/Core/Bits.lean).
Tie        : `hx value` evaluates generated requests on the REAL Op::eval_value_unary/binary and
             Value::{expand,trunc,select,concat,assign}; `vmodel value` answers with the Impl model
             (correspondence, kind model!=impl) and `vmodel valueref` with the IEEE reference (the
             property itself, kind impl!=oracle).  `binrep`/`unrep` lines run the BigUint arm on
             values the U64 arm also holds (last sentence of the property).
Known deviations are keyed by a signature that is VERIFIED per failing case (see `classify`).
"""
import os
import re
from vlib import *

LEVEL = "proof"
THEOREMS = ["expand_eq_ext", "u64_eq_big_expand", "big_eq_ref_add", "u64_eq_big_add", "u64_eq_ref_add",
            "C17_add", "big_eq_ref_sub", "u64_eq_big_sub", "u64_eq_ref_sub", "C17_sub", "big_eq_ref_mul",
            "u64_eq_big_mul", "u64_eq_ref_mul", "C17_mul", "add_wraps", "big_eq_ref_band", "u64_eq_big_band",
            "u64_eq_ref_band", "C17_band", "big_eq_ref_bor", "u64_eq_big_bor", "u64_eq_ref_bor", "C17_bor",
            "big_eq_ref_bxor", "u64_eq_big_bxor", "u64_eq_ref_bxor", "C17_bxor", "big_eq_ref_bxnor",
            "u64_eq_big_bxnor", "u64_eq_ref_bxnor", "C17_bxnor", "big_eq_ref_bnot", "u64_eq_big_bnot",
            "u64_eq_ref_bnot", "C17_bnot", "C17_plus", "C17_lor", "C17_land_partial", "C17_land_witness",
            "C17_lnot", "C17_rnor", "C17_ror", "C17_rand", "C17_rnand", "C17_rxor", "C17_rxnor",
            "C17_eq_partial", "C17_ne_partial", "C17_eq_2state", "C17_eq_witness", "C17_ne_witness",
            "big_eq_ref_eqw", "u64_eq_ref_eqw", "u64_eq_big_eqw", "C17_eqw", "C17_new", "big_eq_ref_shl",
            "u64_eq_big_shl", "big_eq_ref_ashl", "u64_eq_big_ashl", "big_eq_ref_lshr", "u64_eq_big_lshr",
            "big_eq_ref_ashr", "u64_eq_big_ashr", "shift_saturation", "C17_shl", "C17_ashl", "C17_lshr",
            "C17_ashr", "big_eq_ref_neg", "u64_eq_big_neg", "u64_eq_ref_neg", "C17_neg",
            "C17_neg_width64_zero", "old_u64_eq_big_neg_partial", "old_C17_neg_witness", "big_eq_ref_rel",
            "u64_eq_ref_rel", "u64_eq_big_rel", "C17_lt", "C17_le", "C17_gt", "C17_ge", "big_eq_ref_div",
            "u64_eq_big_div", "u64_eq_ref_div", "C17_div", "big_eq_ref_rem", "u64_eq_big_rem",
            "u64_eq_ref_rem", "C17_rem", "div0_is_x", "i64_min_div_neg1", "C17_pow_witness_xz_exponent",
            "C17_pow_witness_signed_base", "C17_pow_witness_saturated_exponent", "trunc_eq_ref",
            "select_eq_ref", "C17_select_witness", "concat_eq_ref", "assign_eq_ref", "C17_assign_witness",
            "pow_neg_table", "big_eq_ref_pow", "u64_eq_big_pow", "C17_pow_partial", "ref_powMod_eq",
            "canon_u64_example", "canon_big_example", "canon_fill_example"]

UN_HANDLED = {"Add", "Sub", "BitNot", "BitAnd", "BitNand", "BitOr", "BitNor", "LogicNot", "BitXor", "BitXnor"}
BIN_HANDLED = {"Add", "Sub", "Mul", "Div", "Rem", "BitAnd", "BitOr", "BitXor", "BitXnor", "Eq", "Ne", "EqWildcard",
               "NeWildcard", "Greater", "GreaterEq", "Less", "LessEq", "LogicAnd", "LogicOr", "LogicShiftR",
               "LogicShiftL", "ArithShiftR", "ArithShiftL", "Pow", "As"}
ALL_OPS = ["Pow", "Div", "Rem", "Mul", "Add", "Sub", "ArithShiftL", "ArithShiftR", "LogicShiftL", "LogicShiftR",
           "LessEq", "GreaterEq", "Less", "Greater", "Eq", "EqWildcard", "Ne", "NeWildcard", "LogicAnd", "LogicOr",
           "LogicNot", "BitAnd", "BitOr", "BitXor", "BitXnor", "BitNand", "BitNor", "BitNot", "As", "Ternary",
           "Concatenation", "ArrayLiteral", "Condition", "Repeat"]

KEY_TEXT = {
    "Eq:4state-operand-x": "Op::Eq compares `payload & !mask_xz` of each side: an X/Z bit facing a 1 (or differing "
                           "known-as-0 images) gives 0 where IEEE 1800 §11.4.5 gives x",
    "Ne:4state-operand-x": "Op::Ne, dual of Eq: gives 1 where IEEE gives x",
    "LogicAnd:known-zero-and-x": "Op::LogicAnd returns x whenever any operand has X/Z unless both are non-zero; "
                                 "`0 && x` must be 0 (IEEE §11.4.7)",
    "Pow:xz-exponent-negative-path": "Op::Pow takes the negative-exponent table when the signed exponent's msb payload bit is "
                                     "1 (a Z msb or any X/Z below a 1 msb) and ignores the exponent's X/Z: IEEE gives x",
    "Pow:signed-base-unsigned-ctx": "Op::Pow with base == -1 (all ones, signed flag) whose width equals the context width in an "
                                    "UNSIGNED context and a negative exponent: expand() returns the operand unchanged (flag "
                                    "kept), result ±1; IEEE (unsigned base > 1) gives 0",
    "Pow:exponent>=2^64-saturated": "Op::Pow converts a >64-bit exponent with to_shift_amount(), which saturates at "
                                    "usize::MAX: base ** e is computed as base ** (2^64-1)",
    "select:out-of-range-reads-0": "Value::select with beg ≥ width: bits beyond the vector read 0 (x only when end ≥ 64 in "
                                   "the U64 arm); IEEE §11.5.1 reads x",
    "select:u64-window>64-beyond-bit64": "ValueU64::select with end ≥ 64 and a window wider than 64 bits returns a U64 value of "
                                         "width > 64 whose mask has only 64 X bits (non-canonical representation); IEEE reads "
                                         "x in every bit",
    "assign:wide-rhs-into-u64": "Value::assign of a BigUint value whose payload/mask needs > 64 bits into a U64 destination "
                                "uses `to_u64().unwrap_or(0)`: the whole RHS becomes 0 instead of its low bits",
}


# ---------------------------------------------------------------------------------------------
# request / reply parsing
# ---------------------------------------------------------------------------------------------

def h(x):
    return int(x, 16)


def parse_operand(t):
    return {"w": h(t[0]), "s": t[1] == "1", "p": h(t[2]), "m": h(t[3])}


def parse_req(line):
    t = line.split()
    k = t[0]
    if k in ("bin", "binrep") and len(t) == 12:
        return {"kind": k, "op": t[1], "x": parse_operand(t[2:6]), "y": parse_operand(t[6:10]), "cw": h(t[10]),
                "cs": t[11] == "1"}
    if k in ("un", "unrep") and len(t) == 8:
        return {"kind": k, "op": t[1], "x": parse_operand(t[2:6]), "cw": h(t[6]), "cs": t[7] == "1"}
    if k == "select" and len(t) == 7:
        return {"kind": k, "op": "", "x": parse_operand(t[1:5]), "beg": h(t[5]), "end": h(t[6])}
    if k == "assign" and len(t) == 11:
        return {"kind": k, "op": "", "x": parse_operand(t[1:5]), "y": parse_operand(t[5:9]), "beg": h(t[9]),
                "end": h(t[10])}
    return {"kind": k, "op": t[1] if len(t) > 1 and not t[1][0].isdigit() else ""}


def parse_rep(r):
    """`w=.. [s=..] p=.. m=.. [r=..]` -> (w, p, m); anything else -> the string."""
    if r.startswith("w="):
        kv = dict(x.split("=") for x in r.split())
        return (h(kv["w"]), h(kv["p"]), h(kv["m"]))
    return r


def strip_impl(r):
    if r.startswith("w="):
        t = r.split(" ")
        return f"{t[0]} {t[2]} {t[3]}"
    return r


def ext(o, w, s):
    """IEEE extension of operand o to w bits (payload, mask)."""
    ow, p, m = o["w"], o["p"], o["m"]
    ones = (1 << w) - 1
    if ow == 0:
        return (ones if p & 1 else 0, ones if m & 1 else 0)
    if ow >= w:
        return (p & ones, m & ones)
    hi = ones ^ ((1 << ow) - 1)
    if s and o["s"]:
        if (p >> (ow - 1)) & 1:
            p |= hi
        if (m >> (ow - 1)) & 1:
            m |= hi
    return (p, m)


def msb(o):
    return o["w"] > 0 and (o["p"] >> (o["w"] - 1)) & 1 == 1


# ---------------------------------------------------------------------------------------------
# signatures of the known deviations: every failing case is matched against them
# ---------------------------------------------------------------------------------------------

def classify(req, impl, oracle):
    """Return the key of the known deviation this failing case is an instance of, else None.
    `impl`/`oracle` are parse_rep() values (impl may be the string 'panic')."""
    k, op = req["kind"], req.get("op", "")
    x, y = req.get("x"), req.get("y")
    if k in ("bin", "binrep") and isinstance(oracle, tuple):
        cw = req["cw"]
        xz = x["m"] != 0 or y["m"] != 0
        if op == "Eq" and xz and oracle == (cw, 0, 1) and impl == (cw, 0, 0):
            return "Eq:4state-operand-x"
        if op == "Ne" and xz and oracle == (cw, 0, 1) and impl == (cw, 1, 0):
            return "Ne:4state-operand-x"
        if op == "LogicAnd" and oracle == (cw, 0, 0) and impl == (cw, 0, 1):
            zx = x["m"] == 0 and x["p"] == 0 and y["m"] != 0
            zy = y["m"] == 0 and y["p"] == 0 and x["m"] != 0
            if zx or zy:
                return "LogicAnd:known-zero-and-x"
        if op == "Pow" and isinstance(impl, tuple) and impl[0] == cw:
            allx = (cw, 0, (1 << cw) - 1)
            if y["s"] and y["m"] != 0 and msb(y) and oracle == allx:
                return "Pow:xz-exponent-negative-path"
            yneg = y["s"] and y["m"] == 0 and msb(y)
            if (yneg and not req["cs"] and x["s"] and x["w"] == cw and x["m"] == 0 and x["p"] == (1 << cw) - 1
                    and cw >= 2 and oracle == (cw, 0, 0) and impl[2] == 0 and impl[1] in (1, (1 << cw) - 1)):
                return "Pow:signed-base-unsigned-ctx"
            if y["w"] > 64 and y["m"] == 0 and not yneg and y["p"] >= 1 << 64 and x["m"] == 0:
                base = ext(x, cw, req["cs"])[0]
                if impl == (cw, pow(base, (1 << 64) - 1, 1 << cw), 0) and oracle == (cw, pow(base, y["p"], 1 << cw), 0):
                    return "Pow:exponent>=2^64-saturated"
    if k == "select" and isinstance(impl, tuple) and isinstance(oracle, tuple):
        inrange = max(0, x["w"] - req["end"])
        if (req["beg"] >= x["w"] and req["end"] <= req["beg"] and impl[0] == oracle[0] and impl[1] == oracle[1]
                and impl[2] == oracle[2] & ((1 << inrange) - 1)):
            return "select:out-of-range-reads-0"
        W = req["beg"] - req["end"] + 1
        if (x["w"] <= 64 and req["end"] >= 64 and req["end"] <= req["beg"] and W > 64
                and impl == (W, 0, (1 << 64) - 1) and oracle == (W, 0, (1 << W) - 1)):
            return "select:u64-window>64-beyond-bit64"
    if k == "assign" and isinstance(impl, tuple) and isinstance(oracle, tuple):
        if x["w"] <= 64 and y["w"] > 64 and (y["p"] >= 1 << 64 or y["m"] >= 1 << 64) and req["end"] < 64:
            vp = y["p"] if y["p"] < 1 << 64 else 0
            vm = y["m"] if y["m"] < 1 << 64 else 0
            p, m = x["p"], x["m"]
            for i in range(req["end"], min(req["beg"], x["w"] - 1) + 1):
                b = 1 << i
                p = (p & ~b) | (((vp >> (i - req["end"])) & 1) << i)
                m = (m & ~b) | (((vm >> (i - req["end"])) & 1) << i)
            if impl == (x["w"], p, m):
                return "assign:wide-rhs-into-u64"
    return None


def classify_twin(req, rep_impl, twin_impl):
    """binrep/unrep reply differs from the twin bin/un reply: no known deviation of this kind (the
    unary-minus overflow at width 64 was repaired by /repo commit c18109e; a recurrence is a violation)."""
    return None


def size_of(req):
    n = 0
    for o in ("x", "y"):
        if o in req:
            n += 1000 * req[o]["w"] + bin(req[o]["p"]).count("1") + bin(req[o]["m"]).count("1")
            if req[o]["w"] == 0:
                n += 1500  # prefer sized operands over the unsized fill literals as witnesses
    return n + 1000 * req.get("cw", 0)


# ---------------------------------------------------------------------------------------------
# source-shape guard: the operator set the model and the generator know is the one op.rs has
# ---------------------------------------------------------------------------------------------

def source_guard(ctx):
    with open(f"{REPO}/crates/analyzer/src/ir/op.rs") as fh:
        s = fh.read()
    enum_body = s[s.index("pub enum Op {"):]
    enum_body = enum_body[:enum_body.index("\n}")]
    variants = re.findall(r"^\s{4}(\w+),\s*$", enum_body, flags=re.M)
    un = s[s.index("pub fn eval_value_unary"):s.index("pub fn eval_value_binary")]
    bi = s[s.index("pub fn eval_value_binary"):s.index("pub fn eval_float_binary")]

    def arms(body):
        out = set()
        for line in re.findall(r"^ {12}(Op::[\w:| ]+?) =>", body, flags=re.M):
            out |= set(re.findall(r"Op::(\w+)", line))
        return out
    got = {"variants": variants, "unary_arms": sorted(arms(un)), "binary_arms": sorted(arms(bi))}
    ctx.cov["generated"] = {"op.rs": got}
    problems = []
    if variants != ALL_OPS:
        problems.append(f"enum Op = {variants}")
    if arms(un) != UN_HANDLED:
        problems.append(f"eval_value_unary arms = {sorted(arms(un))}")
    if arms(bi) != BIN_HANDLED:
        problems.append(f"eval_value_binary arms = {sorted(arms(bi))}")
    if problems:
        ctx.violation("op.rs no longer has the operator set the model Core/Bits.lean describes: " + "; ".join(problems),
                      {"kind": "model!=impl", "what": "operator set changed", "found": got}, no_input=True, kind="model!=impl")


# ---------------------------------------------------------------------------------------------
# value.rs unit-test vectors (cross-check of the reference)
# ---------------------------------------------------------------------------------------------

def parse_lit(s):
    if re.match(r"^\d+$", s):                     # base-less literal: 32-bit signed
        return 32, True, int(s) & 0xffffffff, 0
    m = re.match(r"^(\d+)'(s?)([hbo])([0-9a-fA-FxXzZ_]+)$", s)
    if not m:
        return None
    w, sg, base, digits = int(m.group(1)), m.group(2) == "s", m.group(3), m.group(4).replace("_", "")
    k = {"h": 4, "b": 1, "o": 3}[base]
    p = mk = 0
    for ch in digits:
        p <<= k; mk <<= k
        full = (1 << k) - 1
        if ch in "xX":
            mk |= full
        elif ch in "zZ":
            p |= full; mk |= full
        else:
            p |= int(ch, 16)
    n = len(digits) * k
    if n < w and digits[0] in "xXzZ":
        ext = ((1 << w) - 1) ^ ((1 << n) - 1)
        mk |= ext
        if digits[0] in "zZ":
            p |= ext
    ones = (1 << w) - 1
    return w, sg, p & ones, mk & ones

def parse_expected(s):
    """Expected string of a value.rs assertion -> (w, p, m, care, partial): `care` = bits that are
    compared exactly; `partial` = nibbles printed as upper-case X/Z (some, not all, bits x/z: the
    hex formatter of value.rs does not say which), each must contain at least one x/z bit."""
    m = re.match(r"^(\d+)'(s?)([hb])([0-9a-fxXzZ]+)$", s)
    if not m:
        return None
    w, base, digits = int(m.group(1)), m.group(3), m.group(4)
    if base == "b" or not re.search(r"[XZ]", digits):
        lit = parse_lit(s.replace("X", "x").replace("Z", "z")) if base == "b" else parse_lit(s)
        if lit is None:
            return None
        return (lit[0], lit[2], lit[3], (1 << w) - 1, [])
    p = mk = care = 0
    partial = []
    n = len(digits)
    for idx, ch in enumerate(digits):
        lo = 4 * (n - 1 - idx)
        if ch in "XZ":
            partial.append((lo, ch))
            continue
        care |= 0xf << lo
        if ch == "x":
            mk |= 0xf << lo
        elif ch == "z":
            p |= 0xf << lo
            mk |= 0xf << lo
        else:
            p |= int(ch, 16) << lo
    ones = (1 << w) - 1
    return (w, p & ones, mk & ones, care & ones, partial)


def matches_expected(rep, exp):
    if not isinstance(rep, tuple) or exp is None:
        return False
    w, p, mk, care, partial = exp
    if rep[0] != w or (rep[1] & care) != p or (rep[2] & care) != mk:
        return False
    for lo, ch in partial:
        nib_m = (rep[2] >> lo) & 0xf
        nib_p = (rep[1] >> lo) & 0xf
        if nib_m == 0:
            return False
        if ch == "X" and (nib_m & ~nib_p) == 0:
            return False
    return True


def extract_value_rs_tests():
    """(request line, expected (w, p, m), test name) for every assertion of value.rs's unit tests of
    the form `assert_eq!(format!("{:b}", op.eval_value_*(literals…)), "…")` — hand-computed / simulator
    expectations, used to cross-check the IEEE reference Ref.* (validation, not proof)."""
    src = open(f"{REPO}/crates/analyzer/src/value.rs").read()
    tests = src[src.index("#[cfg(test)]"):]
    out = []
    skipped = 0
    for fm in re.finditer(r"fn (unary_\w+|binary_\w+)\(\) \{(.*?)\n    \}\n", tests, flags=re.S):
        name, body = fm.group(1), fm.group(2)
        om = re.search(r"let op = Op::(\w+);", body)
        if not om:
            continue
        op = om.group(1)
        env = {}
        for st in body.split(";"):
            st = st.strip()
            m = re.match(r"(?:(?://[^\n]*\n)\s*)*let (\w+) = Value::from_str\(\"([^\"]+)\"\)\.unwrap\(\)$", st, flags=re.S)
            if m:
                env[m.group(1)] = ("lit", parse_lit(m.group(2)))
                continue
            m = re.match(r"let (\w+) = op\.eval_value_unary\(&(\w+), (\d+), (true|false), &mut cache\)$", st)
            if m and env.get(m.group(2), (None,))[0] == "lit" and env[m.group(2)][1]:
                env[m.group(1)] = ("un", env[m.group(2)][1], int(m.group(3)), m.group(4) == "true")
                continue
            m = re.match(r"let (\w+) = op\.eval_value_binary\(&(\w+), &(\w+), (\d+), (true|false), &mut cache\)$", st)
            if m and env.get(m.group(2), (None,))[0] == "lit" and env.get(m.group(3), (None,))[0] == "lit" \
                    and env[m.group(2)][1] and env[m.group(3)][1]:
                env[m.group(1)] = ("bin", env[m.group(2)][1], env[m.group(3)][1], int(m.group(4)), m.group(5) == "true")
                continue
            m = re.match(r"assert_eq!\(&?format!\(\"\{:[bx]\}\", (\w+)\), \"([^\"]+)\"\)$", st)
            if m and m.group(1) in env and env[m.group(1)][0] in ("un", "bin"):
                exp = parse_expected(m.group(2))
                e = env[m.group(1)]
                if exp is None:
                    skipped += 1
                    continue
                def sh(o):
                    return f"{o[0]:x} {int(o[1])} {o[2]:x} {o[3]:x}"
                if e[0] == "un":
                    line = f"un {op} {sh(e[1])} {e[2]:x} {int(e[3])}"
                else:
                    line = f"bin {op} {sh(e[1])} {sh(e[2])} {e[3]:x} {int(e[4])}"
                out.append((line, exp, name))
            elif st.startswith("assert"):
                skipped += 1
    return out, skipped

# ---------------------------------------------------------------------------------------------
# one differential run
# ---------------------------------------------------------------------------------------------

class Acc:
    def __init__(self):
        self.n = 0
        self.n_oracle = 0
        self.n_pairs = 0
        self.model_bad = []          # (op line, impl, model)
        self.unknown = []            # (op line, impl, oracle/twin, what)
        self.by_key = {}             # key -> [count, (size, line, impl, oracle)]
        self.distinct = set()

    def hit(self, key, req, line, impl, oracle):
        e = self.by_key.setdefault(key, [0, None])
        e[0] += 1
        cand = (size_of(req), len(line), line, impl, oracle)
        if e[1] is None or cand < e[1]:
            e[1] = cand


def differential(ctx, acc, tag, args, replay=None):
    d = f"{ctx.run_dir}/{tag}"
    rc, out, d = run_hx(ctx, "value", args if replay is None else ["--replay", replay], out_dir=d)
    if rc != 0:
        ctx.violation(f"harness domain value crashed (rc={rc})", {"kind": "harness-crash", "log": out[-4000:]},
                      no_input=True, kind="model!=impl")
        return None
    mrc, err = run_model("value", d)
    orc, err2 = run_model("valueref", d, dst="oracle.txt")
    if mrc != 0 or orc != 0:
        ctx.log(f"vmodel rc={mrc}/{orc}: {err[-300:]} {err2[-300:]}")
    stats = load_stats(d)
    for k, v in stats.items():
        if k != "samples":
            ctx.cov.setdefault("distribution", {})[f"{tag}.{k}"] = v
    for s in stats.get("samples", []):
        ctx.sample(s)
    fo, fi, fm, fr = (open(f"{d}/{n}") for n in ("ops.txt", "impl.txt", "model.txt", "oracle.txt"))
    prev = None
    n_lines = 0
    for op, imp, mod, ora in zip(fo, fi, fm, fr):
        op, imp, mod, ora = op[:-1], imp[:-1], mod[:-1], ora[:-1]
        n_lines += 1
        acc.n += 1
        acc.distinct.add(hash(op))
        if imp != mod and len(acc.model_bad) < 50:
            acc.model_bad.append((op, imp, mod))
        if ora != "?" and ora != "bad-op":
            acc.n_oracle += 1
            if strip_impl(imp) != ora:
                req = parse_req(op)
                pi, po = parse_rep(imp), parse_rep(ora)
                key = classify(req, pi, po)
                if key is None:
                    if len(acc.unknown) < 50:
                        acc.unknown.append((op, imp, ora, "impl differs from the IEEE reference"))
                else:
                    acc.hit(key, req, op, imp, ora)
        if prev is not None:
            pop, pimp = prev
            prev = None
            acc.n_pairs += 1
            if op.split(" ")[1:] != pop.split(" ")[1:]:
                acc.unknown.append((pop, pimp, op, "binrep/unrep line without its twin (generator bug)"))
            else:
                a = imp.rsplit(" ", 1)[0] if imp.startswith("w=") else imp      # drop r=
                b = pimp.rsplit(" ", 1)[0] if pimp.startswith("w=") else pimp
                if a != b:
                    req = parse_req(pop)
                    key = classify_twin(req, parse_rep(pimp), parse_rep(imp))
                    if key is None:
                        if len(acc.unknown) < 50:
                            acc.unknown.append((pop, f"BigUint arm: {pimp}", f"U64 arm: {imp}",
                                                "the two representations disagree on a value both can hold"))
                    else:
                        acc.hit(key, req, pop, pimp, imp)
        if op.startswith("binrep ") or op.startswith("unrep "):
            prev = (op, imp)
    for f in (fo, fi, fm, fr):
        f.close()
    lens = [sum(1 for _ in open(f"{d}/{n}")) for n in ("ops.txt", "impl.txt", "model.txt", "oracle.txt")]
    if len(set(lens)) != 1:
        ctx.violation(f"reply streams of run {tag} differ in length {lens}", {"kind": "model!=impl", "lengths": lens},
                      no_input=True, kind="model!=impl")
    return d


def run(ctx):
    source_guard(ctx)
    ok = lean_check(ctx, "VerylModel.Props.C17", THEOREMS)
    ctx.cov["trusted_base"] = [
        "Lean 4.33 kernel; axioms ⊆ {propext, Classical.choice, Quot.sound}",
        "Ref.* in Core/Bits.lean = my transcription of IEEE 1800-2017 §11.4 (per-bit truth tables, Int arithmetic, Table 11-4)",
        "BigUint/BigInt arithmetic of num-bigint (+, *, /, %, shifts, modpow, count_ones) = the Nat/Int operations of the model",
        "usize = 64 bit, widths < 2^32 (`width as u32`)",
        "harness/src/dom_value.rs + checks/c17.py (correspondence, oracle comparison, signature matching)"]
    ctx.cov["rule"] = ("every 4-state value of widths 0..3 (quick) / 0..4 (thorough) for all 34 operators (all signedness/context "
                       "combinations for widths ≤ 2 / ≤ 3, rotated above); deterministic boundary grid (widths 1,2,31,32,33,63,64,65,"
                       "127,128,129,255,256,257,300 × corner payloads × both signedness, 2- and 4-state); boundary-biased random "
                       "cases (X/Z density none/sparse/dense) incl. expand/trunc/select/concat/assign and an off-domain stream; "
                       "BigUint-arm-vs-U64-arm pairs on widths ≤ 64; distinct = distinct request lines")
    if not harness_build(ctx):
        return
    acc = Acc()

    # known findings with a recorded witness: replay them first; an entry whose witness no longer
    # shows its signature suppresses nothing.
    live = []
    wit = [f for f in ctx.findings if f.get("kind") == "known" and f.get("witness")]
    if wit:
        path = f"{ctx.run_dir}/witness.txt"
        with open(path, "w") as fh:
            fh.write("\n".join(f["witness"] for f in wit) + "\n")
        wacc = Acc()
        differential(ctx, wacc, "witness", [], replay=path)
        for f in wit:
            if f["key"] in wacc.by_key:
                live.append(f["key"])
            else:
                ctx.notes.append(f"known finding {f['key']}: witness `{f['witness']}` no longer shows the deviation "
                                 f"(fixed?) — the entry suppresses nothing in this run")
        ctx.findings = [f for f in ctx.findings if not f.get("witness") or f["key"] in live]
        if wacc.unknown or wacc.model_bad:
            acc.unknown += wacc.unknown
            acc.model_bad += wacc.model_bad
    ctx.cov["known_witnesses_reproduced"] = live

    if getattr(ctx, "replay", None):
        differential(ctx, acc, "replay", [], replay=ctx.replay)
    else:
        # hand-computed expectations of value.rs's own unit tests: cross-check of Ref.* and of the harness
        vecs, skipped = extract_value_rs_tests()
        path = f"{ctx.run_dir}/value_rs_tests.txt"
        with open(path, "w") as fh:
            fh.write("".join(v[0] + "\n" for v in vecs))
        d = differential(ctx, acc, "unit_tests", [], replay=path) if vecs else None
        if d:
            imp = read_lines(f"{d}/impl.txt") or []
            ora = read_lines(f"{d}/oracle.txt") or []
            agree, differ, impl_bad = 0, [], []
            for (line, exp, name), i, o in zip(vecs, imp, ora):
                if not matches_expected(parse_rep(i), exp):
                    impl_bad.append(f"{name}: {line} -> {i}")
                if o == "?":
                    continue
                if matches_expected(parse_rep(o), exp):
                    agree += 1
                else:
                    differ.append(f"{name}: {line}: test expects w={exp[0]:x} p={exp[1]:x} m={exp[2]:x}, Ref {o}")
            ctx.cov["ref_vs_value_rs_unit_tests"] = {"vectors": len(vecs), "asserts_not_extracted": skipped,
                                                     "ref_agrees": agree, "ref_differs": differ[:20],
                                                     "extraction_mismatch": impl_bad[:5]}
            if impl_bad:
                ctx.notes.append(f"{len(impl_bad)} value.rs test vectors were not reproduced by the harness (extractor?)")

        if ctx.tier == "thorough":
            differential(ctx, acc, "exh", ["--seed", ctx.seed, "--mode", "exh", "--full", 3, "--vals", 4])
            for i in range(4):
                differential(ctx, acc, f"rand{i}", ["--seed", ctx.seed + 1 + i, "--mode", "rand", "--n", 500000])
        else:
            differential(ctx, acc, "exh", ["--seed", ctx.seed, "--mode", "exh", "--full", 2, "--vals", 3])
            differential(ctx, acc, "rand", ["--seed", ctx.seed + 1, "--mode", "rand", "--n", 150000])

    ctx.cov["evaluations"] = acc.n
    ctx.cov["compared_with_oracle"] = acc.n_oracle
    ctx.cov["representation_pairs"] = acc.n_pairs
    ctx.cov["traces_validated_against_impl"] = acc.n
    ctx.cov["distinct_nontrivial"] = len(acc.distinct)
    ctx.cov["known_deviation_hits"] = {k: {"count": v[0], "minimal_witness": v[1][2], "impl": v[1][3], "oracle": v[1][4]}
                                       for k, v in sorted(acc.by_key.items())}

    seen = set()
    for op, imp, mod in acc.model_bad:
        sig = tuple(op.split(" ")[:2])
        if sig in seen or len(seen) >= 3:
            continue
        seen.add(sig)
        ctx.violation(f"value: model/implementation correspondence broken at `{op}`: impl={imp} model={mod}",
                      {"kind": "model!=impl", "domain": "value", "ops": [op], "impl": imp, "model": mod,
                       "replay": f"{HX} value --replay <file with the line>; {VMODEL} value < file", "seed": ctx.seed},
                      no_input=True, kind="model!=impl")
    if len(acc.model_bad) > len(seen):
        ctx.cov["failures"]["model!=impl"] += len(acc.model_bad) - len(seen)
    seen = set()
    for op, imp, ora, what in acc.unknown:
        sig = tuple(op.split(" ")[:2])
        if sig in seen or len(seen) >= 5:
            continue
        seen.add(sig)
        ctx.violation(f"value: {what} at `{op}`: impl={imp} expected={ora}", op + "\n", kind="impl!=oracle")
    for key, (count, best) in sorted(acc.by_key.items()):
        _, _, line, imp, ora = best
        ctx.violation(f"value: known-deviation signature {key} ({count} cases); minimal witness `{line}`: impl={imp} "
                      f"expected={ora} — {KEY_TEXT.get(key, '')}", line + "\n", key=key, kind="impl!=oracle")
        ctx.cov["failures"]["impl!=oracle"] += count - 1
    if not ok:
        if not any(not ni for _, _, ni in ctx.violations):
            proof_broken(ctx, "VerylModel.Props.C17 no longer checks")
