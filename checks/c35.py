"""C35 — user components: values and timing on every transport."""
import os
from vlib import *
from checks.enc_common import line_differential, replay_lines

LEVEL = "proof"
THEOREMS = ["words_roundtrip", "words_roundtrip_back", "boundary_echo", "write_words_spec", "write_u64_spec",
            "wasm_memory_roundtrip",
            "transport_agree_masked", "transport_null_mask_full_false", "wasm_null_mask_leak",
            "pre_edge_inputs", "outputs_with_ffs_rtl", "outputs_with_ffs", "outputs_untouched"]


def key_of(seq, m):
    return None


def run(ctx):
    ok = lean_check(ctx, "VerylModel.Props.C35", THEOREMS)
    ctx.cov["trusted_base"] = [
        "Lean 4.33 kernel; axioms ⊆ {propext, Classical.choice, Quot.sound}",
        "num-bigint: iter_u64_digits / from_bytes_le are the little-endian base-2^64 / base-256 numerals",
        "M-CompTiming is an abstraction of Simulator::step_legacy / step_with_derived_clocks / fire_components read from the "
        "source (stage -> eval -> commit -> fire+apply); it is tied to the real simulator only by the `comp` domain "
        "(echo + probe components next to RTL flip-flops), not by a line-by-line model of the simulator",
        "a component reaches DUT state only through SimCtx (host staging buffers); raw-pointer misuse inside a native "
        "component is out of scope",
        "wasm transport: modelled (words_to_bytes/bytes_to_words/import handlers) but NOT validated against the implementation — "
        "no wasm32 target and no `wat` in the sandbox, and the functions are private to component/wasm.rs",
        "harness/src/dom_words.rs, dom_comp.rs + tools/vlib.py (correspondence and oracle comparison)"]
    ctx.cov["rule"] = ("words: every width 0..300 with all-ones payload+mask in 2- and 4-state, then boundary-biased random "
                       "payload/mask words (canonical and with garbage above width, short/long slices) through the real "
                       "host_value_from, host_value_to_value, veryl_component::Value::from_bits/unknown_at and a native echo "
                       "component on a real HostContext (set_input[_masked] -> on_clock -> every SimCtx accessor pair: read/write, "
                       "read_u64/write_u64, read_words/write_words -> output_words; every width 0..300 x pair in the sweep, exact "
                       "multiples of 32/64 and their neighbours in the random part), "
                       "vs the Lean model and a per-bit oracle; comp: generated testbenches (forced widths 64/128/192/256/32/96 and "
                       "neighbours x accessor pair first, then random) with an echo component, a probe "
                       "component and RTL flip-flops simulated on every backend configuration; "
                       "distinct = distinct (request, reply) pairs")
    ctx.notes.append("By reading, confirmed in the model (theorems transport_null_mask_full_false, wasm_null_mask_leak), not replayable "
                     "here: the wasm `read_input`/`write_output` import handlers dereference a null mask pointer (guest address 0) that "
                     "the native adapters skip; SimCtx::read_u64/read_words/write_u64/write_words (and read/write in 2-state) pass null. "
                     "Under a 4-state run a wasm component doing read_u64 then write_u64 drives the input's X/Z mask onto its output; "
                     "natively the output has no X/Z.")
    if not harness_build(ctx):
        return
    if ctx.replay:
        for dom in ("words", "comp"):
            f = replay_lines(ctx, dom)
            if f and os.path.exists(f"{HARNESS}/src/dom_{dom}.rs"):
                line_differential(ctx, dom, ["--replay", f])
        return
    line_differential(ctx, "words", ["--seed", ctx.seed, "--n", tier_n(ctx, 5000, 150000)])
    if os.path.exists(f"{HARNESS}/src/dom_comp.rs"):
        run_comp(ctx)
    else:
        ctx.notes.append("comp domain absent: timing theorems are tied to the implementation by reading only")
    if not ok:
        if not any(not ni for _, _, ni in ctx.violations):
            proof_broken(ctx, "VerylModel.Props.C35 no longer checks")


def run_comp(ctx):
    """Simulator-level part: oracle-only (what the echo/probe components saw and what the simulator holds)."""
    rc, out, d = run_hx(ctx, "comp", ["--seed", ctx.seed, "--n", tier_n(ctx, 64, 1200)], timeout=3000)
    if rc != 0:
        ctx.violation(f"harness domain comp crashed (rc={rc})", {"kind": "harness-crash", "log": out[-4000:]},
                      no_input=True, kind="model!=impl")
        return
    n, mism = diff3(d)
    stats = load_stats(d)
    ctx.cov["evaluations"] += n
    for k, v in stats.items():
        if k != "samples":
            ctx.cov.setdefault("distribution", {})[f"comp.{k}"] = v
    for s in stats.get("samples", []):
        ctx.sample(s)
    ops = read_lines(f"{d}/ops.txt") or []
    imp = read_lines(f"{d}/impl.txt") or []
    for o, r in zip(ops, imp):
        ctx.distinct(("comp", o, r))
    for m in mism[:3]:
        body = {"kind": m["kind"], "domain": "comp", "ops": [m["op"]], "first_difference": m,
                "replay": f"{HX} comp --replay <file with the op line>", "seed": ctx.seed}
        ctx.violation(f"comp: component-visible / simulator values differ from the property oracle at `{m['op'][:200]}`: "
                      f"impl={m['impl'][:300]} oracle={m['oracle'][:300]}", body, kind="impl!=oracle")
