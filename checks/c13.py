"""C13 — source maps point at matching text on both sides.

Proof: Props/C13.lean (anchors_sorted, anchor_true_partial for the emitter's options, anchors_one_based,
add_shift, entries_sorted) over M-Pretty and M-SourceMap.
Correspondence: every real emitter Doc (testcases + token-gap mutants, option variants) is rendered by
M-Pretty — text AND anchors compared with the real ones (render lines); `SourceMap::add` vs M-SourceMap
(shift lines, incl. the 0 boundary); side conditions on the real Docs (dflags).
Oracle (`smap` lines): the emitted `.sv.map` is decoded with the `sourcemap` crate; every entry's name starts
at its output position, a token or comment starts at its source position, entries are ordered by output
position, every output line with a source identifier has an entry, and the entries are exactly the
renderer's anchors shifted to 0-based.
Known finding (shared with C28): empty-name anchors past the end of their line.
"""
from checks.fmt_common import *

LEVEL = "proof"
THEOREMS = ["anchors_sorted", "anchor_true_partial", "anchor_true_no_truncation", "anchors_one_based", "add_shift",
            "add_shift_needs_side_condition", "entries_sorted", "entries_complete", "add_injective"]
ALL_OK = "dst=ok src=ok sorted=ok cover=ok anchors=ok"
KEY_BLANK = "render:blank-anchor-past-eol-after-trailing-space-removal"


def classify(v, opt=""):
    """'dst=BAD:blank:1f src=ok …' -> key of the known finding if the ONLY failure is a blank anchor past EOL.
    (The emitter panic under strip_comments=1, vertical_align=0 was repaired in /repo — fix 954ed37 —: it has no
    key any more, a recurrence (`noemit:…`) is a VIOLATION.)"""
    f = v.split(" ")
    if len(f) == 5 and f[0].startswith("dst=BAD:blank:") and f[1:] == ALL_OK.split(" ")[1:]:
        return KEY_BLANK
    return None


def process(ctx, res, label, budget):
    d, ops, imp, mod, ora = res
    for op, i, m, o in zip(ops, imp, mod, ora):
        k = kind_of(op)
        if k in ("render", "dflags", "shift"):
            ctx.cov["traces_validated_against_impl"] += 1
            if i != m:
                model_mismatch(ctx, "smap", label, op, i, m, budget)
            elif o != "?" and i != o and budget[1] > 0:
                budget[1] -= 1
                ctx.violation(f"smap[{label}]: a real emitter Doc violates a side condition of the C13/C26 theorems: {i} (expected {o})",
                              {"kind": "impl!=oracle", "ops": [op[:20000]], "impl": i, "oracle": o}, kind="impl!=oracle")
        elif k == "smap":
            ctx.distinct(op)
            if i != o:
                key = classify(i, op.split(" ")[2])
                if key and listed(ctx, key):
                    ctx.violation("", "", key=key, kind="impl!=oracle")
                    continue
                if budget[1] > 0:
                    budget[1] -= 1
                    parts = op.split(" ")
                    src = unhex(parts[3])
                    ctx.violation(f"smap[{label}]: source map of {parts[1]} under options {parts[2]} is wrong: {i}",
                                  {"kind": "impl!=oracle", "domain": "smap", "ops": [op], "impl": i, "oracle": o,
                                   "source_text": src, "seed": ctx.seed,
                                   "replay": f"{HX} smap --replay <file with the op> --out DIR"}, key=key, kind="impl!=oracle")
                else:
                    ctx.cov["failures"]["impl!=oracle"] += 1


def run(ctx):
    ok = lean_check(ctx, "VerylModel.Props.C13", THEOREMS)
    ctx.cov["trusted_base"] = [
        "Lean 4.33 kernel; axioms ⊆ {propext, Classical.choice, Quot.sound}",
        "Core/Pretty.lean (model of render.rs) and Core/SourceMap.lean (model of SourceMap::add), tied to the code by the "
        "render / shift lines",
        "the emitter's walker is NOT modelled: its Docs are validated one by one; the `sourcemap` crate (builder, VLQ encoder "
        "and decoder) is trusted; token positions of the source side rest on C12",
        "harness/src/dom_smap.rs, emitctx.rs, svlex.rs + checks/c13.py, fmt_common.py + tools/vlib.py; verif_tap hook"]
    ctx.cov["rule"] = ("one evaluation = one request line: smap (decoded .sv.map of one emitted file vs the five oracle conditions), "
                       "render (real emitter Doc: text and anchors vs M-Pretty), shift (SourceMap::add vs M-SourceMap), dflags; "
                       "inputs = the 88 self-contained testcases analysed as one project + rounds in which every file is replaced by "
                       "a token-gap mutant, each file under option variants (vertical_align, max_width 40/80/120, indent 2/4, "
                       "strip_comments, newline unix/windows/auto); distinct = distinct smap requests")
    if not harness_build(ctx):
        return
    budget = [3, 4]
    res = run_lines(ctx, "smap", ["--seed", ctx.seed, "--rounds", tier_n(ctx, 1, 12), "--variants", tier_n(ctx, 3, 8),
                                  "--render-every", tier_n(ctx, 12, 4)], "smap")
    if res:
        process(ctx, res, "smap", budget)
    if not ok:
        if not any(not ni for _, _, ni in ctx.violations):
            proof_broken(ctx, "VerylModel.Props.C13 no longer checks")
