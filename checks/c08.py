"""C08 — formatting is idempotent.

Proof: Props/C08.lean over M-Aligner (Core/Aligner.lean) and M-Pretty: `align_stable` (the aligner's result
depends on token lines only through min(Δline, 2) and on widths), `reduction`,
`C08_second_pass_fixed_partial`, and the proved NEGATION `C08_align_witness` on the call trace of the real
formatter for DESIGN §5 #16's input.
Correspondence: `hx fmt` drives the REAL `veryl_aligner::Aligner` through its public API with (a) random call
sequences and (b) the call traces the real formatter source makes (formatter.rs compiled against a tracing
wrapper that delegates to the real aligner; `tie` lines establish that this build is byte-identical to the
real Formatter and that the real Doc's pads are exactly those additions); `vmodel fmt` runs M-Aligner on the
same traces and M-Pretty on the real Docs.
Oracle: format(format s) == format s with the real Formatter on testcases + token-gap mutants × option sets.
Non-idempotent cases carrying the verified signature of finding #16 are the known finding
`aligner:source-line-gap-grouping`; anything else is a violation.
"""
import glob
import re
import os

import gen
from checks.fmt_common import *

LEVEL = "proof"
THEOREMS = ["merge_comm", "merge_assoc", "addMerge_comm", "no_underflow", "group_paddings", "align_stable",
            "align_stable_lookup", "reduction", "format_eq_of_same_class", "C08_second_pass_fixed_partial",
            "C08_align_witness", "align_position_independent_false"]
# The verified-signature family of finding #16 (one root cause: `Align::finish_item` cuts groups by SOURCE line
# gaps, so the paddings depend on where the tokens stood). Common, verified per case by the harness and the models:
# the Docs of ALL passes of the orbit are equal once pad nodes are removed (docs=1), all aligner call traces are
# equal up to token positions (shape=1), the traced build agrees with the real Formatter and the real Docs' pads are
# the real aligner's additions (tie=1), M-Aligner reproduces the additions of every pass and M-Pretty every output.
# What differs is only how the text evolves under repeated formatting (orbit, up to 10 passes):
KEY = "aligner:source-line-gap-grouping"                                  # fix@2, only space runs differ (sp=1)
KEY2 = "aligner:source-line-gap-grouping:padding-changes-line-breaks"     # fix@2, the paddings also move breaks
KEY3 = "aligner:source-line-gap-grouping:oscillation"                     # cyc@k+p: a cycle of period p >= 2
KEY4 = "aligner:source-line-gap-grouping:late-fixed-point"                # fix@k with k >= 3
# An independent, second cause (found by this check): `Formatter::modport_declaration` writes `newline_push` +
# `newline_pop` around an EMPTY modport body — a blank line — and the next pass sees a source-line gap there and adds
# another one (`interface I {⏎    modport port {}⏎}`: 1 blank line after pass 1, 2 from pass 2 on; the repository's
# testcases/veryl/69_proto.veryl carries the 2-blank-line fixed point). Verified per case: the blank lines of
# consecutive passes differ ONLY between `modport <id> {` and `}` (blank=modport).
KEY_MODPORT = "formatter:modport_declaration:empty-body-blank-line"
SIG_RE = re.compile(r"^nonidem blank=(0|modport) same=([01]) sp=([01]) orbit=(fix@(\d+)|cyc@(\d+)\+(\d+)) docs=1 shape=1 tie=1$")


def keys_of_sig(v):
    """Keys of the known findings that TOGETHER explain a verdict, or None (blank=other, orbit=none/error,
    docs/shape/tie=0: a violation)."""
    m = SIG_RE.match(v)
    if not m:
        return None
    keys = []
    if m.group(1) == "modport":
        keys.append(KEY_MODPORT)
    if m.group(2) == "0":          # the passes differ in more than blank lines: the aligner family
        if m.group(5) is not None:
            k = int(m.group(5))
            if k < 2:
                return None
            keys.append((KEY if m.group(3) == "1" else KEY2) if k == 2 else KEY4)
        else:
            if int(m.group(7)) < 2:
                return None
            keys.append(KEY3)
    elif m.group(1) == "0":
        return None                # nothing differs but the texts are different?
    return keys


def key_of_sig(v):
    """The (last) key of `keys_of_sig`, for messages."""
    k = keys_of_sig(v)
    return k[-1] if k else None


TIE_OK = "shim=ok pads=ok render=ok"
DEFAULT_OPT = "4.78.1.a.0.0"


def process(ctx, res, label, budget):
    d, ops, imp, mod, ora = res
    pending_align_ok = True
    nonidem = {"known": 0, "other": 0}
    for op, i, m, o in zip(ops, imp, mod, ora):
        k = kind_of(op)
        if k in ("align", "render"):
            ctx.cov["traces_validated_against_impl"] += 1
            if m != "?" and i != m:
                pending_align_ok = False
                model_mismatch(ctx, "fmt", label, op, i, m, budget)
        elif k == "tie":
            if i != o:
                pending_align_ok = False
                ctx.violation(f"fmt[{label}]: the traced build of formatter.rs / the Doc pads do not agree with the real Formatter "
                              f"({i}) for case {op}", {"kind": "model!=impl", "op": op, "impl": i, "expected": o,
                                                       "note": "see the idem line of the same case id for the input"},
                              no_input=True, kind="model!=impl")
        elif k == "idem":
            ctx.distinct(op)
            if i != o:
                _, cid, opt, hx = op.split(" ")
                src = unhex(hx)
                ks = keys_of_sig(i)
                if ks and pending_align_ok and all(listed(ctx, k) for k in ks):
                    nonidem["known"] += 1
                    for k in ks:
                        nonidem[k] = nonidem.get(k, 0) + 1
                        ctx.violation("", "", key=k, kind="impl!=oracle")
                else:
                    nonidem["other"] += 1
                    if budget[1] > 0:
                        budget[1] -= 1
                        body = {"kind": "impl!=oracle", "domain": "fmt", "ops": [op], "impl": i, "oracle": o,
                                "format_options": opt, "source_text": src, "seed": ctx.seed,
                                "signature_of_finding_16_verified": bool(key_of_sig(i)) and pending_align_ok,
                                "model_reproduced_both_paddings": pending_align_ok,
                                "replay": f"{HX} fmt --replay <file with the op> --out DIR"}
                        ctx.violation(f"fmt[{label}]: formatting is not idempotent ({i}; models reproduced both passes: "
                                      f"{pending_align_ok}); options {opt}, source {len(src or '')} chars", body,
                                      key=next((k for k in (keys_of_sig(i) or []) if not listed(ctx, k)), None) if pending_align_ok else None,
                                      kind="impl!=oracle")
                    else:
                        ctx.cov["failures"]["impl!=oracle"] += 1
            pending_align_ok = True
    ctx.cov.setdefault("nonidempotent", {})[label] = nonidem


def run(ctx):
    ctx.cov["generated"] = gen.gen(["AlignerConsts"])
    ok = lean_check(ctx, "VerylModel.Props.C08", THEOREMS)
    ctx.cov["trusted_base"] = [
        "Lean 4.33 kernel; axioms ⊆ {propext, Classical.choice, Quot.sound}",
        "Core/Aligner.lean is a hand-written model of crates/aligner/src/lib.rs (tied to the code by the differential on "
        "random and real call traces on every run); u32 overflow of width sums is not modelled; tools/gen.py extracts COUNT",
        "the formatter's walker (formatter.rs, 3 400 lines) is NOT modelled: `Walker` is a parameter of reduction / "
        "C08_second_pass_fixed_partial; its Docs and aligner call traces are validated case by case",
        "harness/align_shim + harness/fmt_traced: /repo's formatter.rs compiled against a wrapper that delegates every aligner "
        "call to the real veryl-aligner and records it (checked per case: byte-identical output, Doc pads = additions)",
        "harness/src/dom_fmt.rs, emitctx.rs (mutant generator, oracles) + checks/c08.py, fmt_common.py + tools/vlib.py",
        "verif_tap hook in crates/pretty/src/render.rs (cfg veryl_verif) records the Docs the Formatter builds"]
    ctx.cov["rule"] = ("one evaluation = one request line: idem (real format∘format vs format, oracle), tie (traced build = real "
                       "Formatter, Doc pads = real aligner additions), align (real Aligner through its public API vs M-Aligner on "
                       "the recorded/random call trace), render (real Doc: real text vs M-Pretty); inputs = 94 testcases + token-gap "
                       "mutants (blank lines, spaces, tabs, joined/split lines, //, /* */ incl. multi-byte/multi-line, CRLF, mixed "
                       "line ends, trailing separators) x option sets (indent 2/4/8, max_width 20/40/80/120, vertical_align, "
                       "newline style); distinct = distinct idem requests")
    if not harness_build(ctx):
        return
    budget = [3, 3]
    # 1. the recorded witness of finding #16 and past failures
    for f in sorted(glob.glob(f"{ROOT}/corpus/C08/*_body.txt")):
        with open(f) as fh:
            src = fh.read()
        name = os.path.basename(f)
        opt = name.split("__")[1][:-len("_body.txt")] if "__" in name else DEFAULT_OPT
        line = f"idem 0 {opt} {hexs(src)}"
        o, i, m, orc = replay_lines(ctx, "fmt", [line], "witness")
        if not i:
            ctx.violation("harness crashed on the recorded witness", {"kind": "harness-crash", "line": line}, no_input=True,
                          kind="model!=impl")
            continue
        rep = dict((kind_of(a) + str(n), (a, b, c)) for n, (a, b, c) in enumerate(zip(o, i, m)))
        idem = [b for a, b in zip(o, i) if kind_of(a) == "idem"]
        aligns_ok = all(b == c for a, b, c in zip(o, i, m) if kind_of(a) in ("align", "render"))
        ctx.cov["evaluations"] += len(o)
        if idem and idem[0] == "ok":
            ctx.notes.append(f"recorded C08 witness {os.path.basename(f)} is idempotent on the current tree "
                             "(the entry suppresses nothing for it now)")
        elif idem and keys_of_sig(idem[0]) and aligns_ok and all(listed(ctx, k) for k in keys_of_sig(idem[0])):
            for k in keys_of_sig(idem[0]):
                ctx.violation("", "", key=k, kind="impl!=oracle")
        elif idem and key_of_sig(idem[0]) and aligns_ok:
            ctx.violation(f"fmt[witness]: recorded finding reproduced on {os.path.basename(f)}: {idem[0]}",
                          {"kind": "impl!=oracle", "ops": [line], "impl": idem[0], "oracle": "ok", "source_text": src},
                          key=next((k for k in keys_of_sig(idem[0]) if not listed(ctx, k)), None), kind="impl!=oracle")
        else:
            ctx.violation(f"fmt[witness]: unexpected verdict {idem} (aligner model agrees: {aligns_ok}) on {os.path.basename(f)}",
                          {"kind": "impl!=oracle", "ops": [line], "impl": idem, "source_text": src}, kind="impl!=oracle")
    # 2. random call sequences on the real Aligner's public API
    res = run_lines(ctx, "fmt", ["--mode", "ops", "--seed", ctx.seed, "--n", tier_n(ctx, 3000, 100000)], "ops")
    if res:
        process(ctx, res, "ops", budget)
    # 3. testcases + mutants x option sets
    res = run_lines(ctx, "fmt", ["--seed", ctx.seed, "--n", tier_n(ctx, 150, 6000), "--optsets", tier_n(ctx, 2, 4),
                                 "--render-every", tier_n(ctx, 25, 10), "--sv", 0], "fmt")
    if res:
        process(ctx, res, "fmt", budget)
    if not ok:
        if not any(not ni for _, _, ni in ctx.violations):
            proof_broken(ctx, "VerylModel.Props.C08 (or Gen/AlignerConsts) no longer checks")
