"""C08 — formatting is idempotent.

Proof: Props/C08.lean over M-Aligner (Core/Aligner.lean) and M-Pretty: `align_stable` (the aligner's result
depends on token lines only through min(Δline, 2) and on widths), `reduction`,
`C08_second_pass_fixed_partial`, and the proved NEGATION `C08_align_witness` on the call trace of the real
formatter for DESIGN §5 #16's input.
Correspondence: `hx fmt` drives the REAL `veryl_aligner::Aligner` through its public API with (a) random call
sequences and (b) the call traces the real formatter source makes (formatter.rs compiled against a tracing
wrapper that delegates to the real aligner; `tie` lines establish that this build is byte-identical to the
real Formatter and that the real Doc's pads are exactly those additions); `vmodel fmt` runs M-Aligner on the
same traces and M-Pretty on the real Docs.
Oracle: format(format s) == format s with the real Formatter on testcases + token-gap mutants × option sets.
Non-idempotent cases carrying the verified signature of finding #16 are the known finding
`aligner:source-line-gap-grouping`; anything else is a violation.
"""
import glob
import os

import gen
from checks.fmt_common import *

LEVEL = "proof"
THEOREMS = ["merge_comm", "merge_assoc", "addMerge_comm", "no_underflow", "group_paddings", "align_stable",
            "align_stable_lookup", "reduction", "format_eq_of_same_class", "C08_second_pass_fixed_partial",
            "C08_align_witness", "align_position_independent_false"]
KEY = "aligner:source-line-gap-grouping"
SIG = "nonidem sp=1 fix=1 cyc=0 docs=1 shape=1 tie=1"
# same cause, visible consequence one step further: the changed paddings make a group fit / not fit, so pass 2
# also moves line breaks (all other signature bits hold, and M-Pretty reproduces both outputs from the two Docs)
KEY2 = "aligner:source-line-gap-grouping:padding-changes-line-breaks"
SIG2 = "nonidem sp=0 fix=1 cyc=0 docs=1 shape=1 tie=1"
# … and, at narrow widths, two layouts that feed each other: pass 3 = pass 1 ≠ pass 2, no fixed point at all
KEY3 = "aligner:source-line-gap-grouping:oscillation"
SIG3 = "nonidem sp=0 fix=0 cyc=1 docs=1 shape=1 tie=1"
KEYS = {SIG: KEY, SIG2: KEY2, SIG3: KEY3}
TIE_OK = "shim=ok pads=ok render=ok"
DEFAULT_OPT = "4.78.1.a.0.0"


def process(ctx, res, label, budget):
    d, ops, imp, mod, ora = res
    pending_align_ok = True
    nonidem = {"known": 0, "other": 0}
    for op, i, m, o in zip(ops, imp, mod, ora):
        k = kind_of(op)
        if k in ("align", "render"):
            ctx.cov["traces_validated_against_impl"] += 1
            if m != "?" and i != m:
                pending_align_ok = False
                model_mismatch(ctx, "fmt", label, op, i, m, budget)
        elif k == "tie":
            if i != o:
                pending_align_ok = False
                ctx.violation(f"fmt[{label}]: the traced build of formatter.rs / the Doc pads do not agree with the real Formatter "
                              f"({i}) for case {op}", {"kind": "model!=impl", "op": op, "impl": i, "expected": o,
                                                       "note": "see the idem line of the same case id for the input"},
                              no_input=True, kind="model!=impl")
        elif k == "idem":
            ctx.distinct(op)
            if i != o:
                _, cid, opt, hx = op.split(" ")
                src = unhex(hx)
                if i in KEYS and pending_align_ok and listed(ctx, KEYS[i]):
                    nonidem["known"] += 1
                    nonidem[KEYS[i]] = nonidem.get(KEYS[i], 0) + 1
                    ctx.violation("", "", key=KEYS[i], kind="impl!=oracle")
                else:
                    nonidem["other"] += 1
                    if budget[1] > 0:
                        budget[1] -= 1
                        body = {"kind": "impl!=oracle", "domain": "fmt", "ops": [op], "impl": i, "oracle": o,
                                "format_options": opt, "source_text": src, "seed": ctx.seed,
                                "signature_of_finding_16_verified": i in KEYS and pending_align_ok,
                                "model_reproduced_both_paddings": pending_align_ok,
                                "replay": f"{HX} fmt --replay <file with the op> --out DIR"}
                        ctx.violation(f"fmt[{label}]: formatting is not idempotent ({i}; models reproduced both passes: "
                                      f"{pending_align_ok}); options {opt}, source {len(src or '')} chars", body,
                                      key=KEYS.get(i) if pending_align_ok else None, kind="impl!=oracle")
                    else:
                        ctx.cov["failures"]["impl!=oracle"] += 1
            pending_align_ok = True
    ctx.cov.setdefault("nonidempotent", {})[label] = nonidem


def run(ctx):
    ctx.cov["generated"] = gen.gen(["AlignerConsts"])
    ok = lean_check(ctx, "VerylModel.Props.C08", THEOREMS)
    ctx.cov["trusted_base"] = [
        "Lean 4.33 kernel; axioms ⊆ {propext, Classical.choice, Quot.sound}",
        "Core/Aligner.lean is a hand-written model of crates/aligner/src/lib.rs (tied to the code by the differential on "
        "random and real call traces on every run); u32 overflow of width sums is not modelled; tools/gen.py extracts COUNT",
        "the formatter's walker (formatter.rs, 3 400 lines) is NOT modelled: `Walker` is a parameter of reduction / "
        "C08_second_pass_fixed_partial; its Docs and aligner call traces are validated case by case",
        "harness/align_shim + harness/fmt_traced: /repo's formatter.rs compiled against a wrapper that delegates every aligner "
        "call to the real veryl-aligner and records it (checked per case: byte-identical output, Doc pads = additions)",
        "harness/src/dom_fmt.rs, emitctx.rs (mutant generator, oracles) + checks/c08.py, fmt_common.py + tools/vlib.py",
        "verif_tap hook in crates/pretty/src/render.rs (cfg veryl_verif) records the Docs the Formatter builds"]
    ctx.cov["rule"] = ("one evaluation = one request line: idem (real format∘format vs format, oracle), tie (traced build = real "
                       "Formatter, Doc pads = real aligner additions), align (real Aligner through its public API vs M-Aligner on "
                       "the recorded/random call trace), render (real Doc: real text vs M-Pretty); inputs = 94 testcases + token-gap "
                       "mutants (blank lines, spaces, tabs, joined/split lines, //, /* */ incl. multi-byte/multi-line, CRLF, mixed "
                       "line ends, trailing separators) x option sets (indent 2/4/8, max_width 20/40/80/120, vertical_align, "
                       "newline style); distinct = distinct idem requests")
    if not harness_build(ctx):
        return
    budget = [3, 3]
    # 1. the recorded witness of finding #16 and past failures
    for f in sorted(glob.glob(f"{ROOT}/corpus/C08/*_body.txt")):
        with open(f) as fh:
            src = fh.read()
        name = os.path.basename(f)
        opt = name.split("__")[1][:-len("_body.txt")] if "__" in name else DEFAULT_OPT
        line = f"idem 0 {opt} {hexs(src)}"
        o, i, m, orc = replay_lines(ctx, "fmt", [line], "witness")
        if not i:
            ctx.violation("harness crashed on the recorded witness", {"kind": "harness-crash", "line": line}, no_input=True,
                          kind="model!=impl")
            continue
        rep = dict((kind_of(a) + str(n), (a, b, c)) for n, (a, b, c) in enumerate(zip(o, i, m)))
        idem = [b for a, b in zip(o, i) if kind_of(a) == "idem"]
        aligns_ok = all(b == c for a, b, c in zip(o, i, m) if kind_of(a) in ("align", "render"))
        ctx.cov["evaluations"] += len(o)
        if idem and idem[0] == "ok":
            ctx.notes.append(f"known finding {KEY}: its witness {os.path.basename(f)} is idempotent on the current tree "
                             "(the entry suppresses nothing for it now)")
        elif idem and idem[0] in KEYS and aligns_ok:
            ctx.violation(f"fmt[witness]: finding #16 reproduced on {os.path.basename(f)}: {idem[0]}",
                          {"kind": "impl!=oracle", "ops": [line], "impl": idem[0], "oracle": "ok", "source_text": src},
                          key=KEYS[idem[0]], kind="impl!=oracle")
        else:
            ctx.violation(f"fmt[witness]: unexpected verdict {idem} (aligner model agrees: {aligns_ok}) on {os.path.basename(f)}",
                          {"kind": "impl!=oracle", "ops": [line], "impl": idem, "source_text": src}, kind="impl!=oracle")
    # 2. random call sequences on the real Aligner's public API
    res = run_lines(ctx, "fmt", ["--mode", "ops", "--seed", ctx.seed, "--n", tier_n(ctx, 3000, 100000)], "ops")
    if res:
        process(ctx, res, "ops", budget)
    # 3. testcases + mutants x option sets
    res = run_lines(ctx, "fmt", ["--seed", ctx.seed, "--n", tier_n(ctx, 150, 6000), "--optsets", tier_n(ctx, 2, 4),
                                 "--render-every", tier_n(ctx, 25, 10), "--sv", 0], "fmt")
    if res:
        process(ctx, res, "fmt", budget)
    if not ok:
        if not any(not ni for _, _, ni in ctx.violations):
            proof_broken(ctx, "VerylModel.Props.C08 (or Gen/AlignerConsts) no longer checks")
