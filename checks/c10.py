"""C10 — the parser terminates without crashing on every input.

Proof part: Props/C10.lean over the production table regenerated from /repo (certificate re-checked).
Tie: `hx parse` dumps the PRODUCTIONS / LOOKAHEAD_AUTOMATA constants of the linked parser (compared with the
generated table by `vmodel ll`), and for each traced input the token-type sequence the real lexer produced
plus (production count, production-sequence hash, max depth, tokens consumed, outcome) reconstructed from
parol's own trace records; `vmodel ll` must reproduce them with the deterministic machine of Core/LL.lean.
Runtime search (what no model exhibits): every input is parsed AND dropped in child processes in threads with
8 MiB and 16 MiB stacks; anything but Ok / an error value (span inside the input) is a violation."""
import collections
import json
import os
import random
import shutil

import gen
from vlib import *

LEVEL = "proof"
THEOREMS = ["cert_ok", "ll_terminates", "veryl_terminates", "stepDet_refines", "det_halts", "depth_cap",
            "veryl_depth_cap", "det_safe"]

CORPUS = f"{REPO}/testcases/veryl"


# ---------------------------------------------------------------------------------------------
# grammar-driven generators (deterministic in ctx.seed)
# ---------------------------------------------------------------------------------------------

class G:
    def __init__(self, g):
        self.g = g
        self.prods = g["prods"]
        self.n = len(g["nonterminals"])
        self.by_lhs = collections.defaultdict(list)
        for i, p in enumerate(self.prods):
            self.by_lhs[p["lhs"]].append(i)
        self.samples = {int(k): v for k, v in g["samples"].items()}
        INF = 10 ** 9
        # minimal number of terminals / minimal derivation height per non-terminal
        self.minlen = [INF] * self.n
        self.minh = [INF] * self.n
        self.best = [None] * self.n
        changed = True
        while changed:
            changed = False
            for i, p in enumerate(self.prods):
                ln = sum(1 if k == "t" else self.minlen[x] for k, x in p["rhs"])
                h = 1 + max([0] + [self.minh[x] for k, x in p["rhs"] if k == "n"])
                a = p["lhs"]
                if ln < self.minlen[a]:
                    self.minlen[a] = ln
                    self.best[a] = i
                    changed = True
                if h < self.minh[a]:
                    self.minh[a] = h
                    changed = True
        self.ph = [1 + max([0] + [self.minh[x] for k, x in p["rhs"] if k == "n"]) for p in self.prods]
        self._min_cache = {}

    def min_tokens(self, sym):
        """Terminal ids of a shortest derivation of a symbol."""
        k, x = sym
        if k == "t":
            return [x]
        if x in self._min_cache:
            return self._min_cache[x]
        out = []
        stack = [("n", x)]
        while stack:
            k2, y = stack.pop()
            if k2 == "t":
                out.append(y)
            else:
                for s in reversed(self.prods[self.best[y]]["rhs"]):
                    stack.append(tuple(s))
        self._min_cache[x] = out
        return out

    def min_seq(self, syms):
        out = []
        for s in syms:
            out += self.min_tokens(tuple(s))
        return out

    def derive(self, rnd, budget, max_tokens):
        """Random leftmost derivation from the start symbol: list of terminal ids."""
        out = []
        stack = [("n", self.g["start"], budget)]
        while stack:
            k, x, b = stack.pop()
            if k == "t":
                out.append(x)
                continue
            if len(out) + len(stack) > max_tokens:
                p = self.best[x]
            else:
                cands = [p for p in self.by_lhs[x] if self.ph[p] <= b]
                p = rnd.choice(cands) if cands else min(self.by_lhs[x], key=lambda q: self.ph[q])
            for s in reversed(self.prods[p]["rhs"]):
                stack.append((s[0], s[1], b - 1))
        return out

    def text(self, toks, rnd=None):
        parts = []
        for i, t in enumerate(toks):
            ss = self.samples.get(t) or ["?"]
            parts.append(rnd.choice(ss) if rnd else ss[0])
            parts.append("\n" if (i % 12 == 11) else " ")
        return "".join(parts) + "\n"

    def cycles(self):
        """One shortest pumping cycle per recursive non-terminal, deduplicated by production set:
        list of (name, context_prefix, context_suffix, cycle_prefix, cycle_suffix, core) as terminal-id lists."""
        edges = collections.defaultdict(list)          # A -> [(B, p, i)]
        for pi, p in enumerate(self.prods):
            for i, (k, x) in enumerate(p["rhs"]):
                if k == "n":
                    edges[p["lhs"]].append((x, pi, i))

        def bfs(src_nodes, target):
            """shortest edge path from any of src_nodes (list of (node, path)) to target."""
            seen = set()
            queue = collections.deque(src_nodes)
            while queue:
                node, path = queue.popleft()
                if node == target and path:
                    return path
                if node in seen:
                    continue
                seen.add(node)
                for (b, pi, i) in edges[node]:
                    queue.append((b, path + [(pi, i)]))
            return None

        # context paths from the start symbol
        ctx_path = {self.g["start"]: []}
        queue = collections.deque([self.g["start"]])
        while queue:
            a = queue.popleft()
            for (b, pi, i) in edges[a]:
                if b not in ctx_path:
                    ctx_path[b] = ctx_path[a] + [(pi, i)]
                    queue.append(b)
        out, seen_sets = [], set()
        for a in range(self.n):
            if a not in ctx_path:
                continue
            cyc = bfs([(b, [(pi, i)]) for (b, pi, i) in edges[a]], a)
            if not cyc:
                continue
            key = frozenset(pi for pi, _ in cyc)
            if key in seen_sets:
                continue
            seen_sets.add(key)

            def split(path):
                pre, suf = [], []
                for pi, i in path:
                    rhs = self.prods[pi]["rhs"]
                    pre += self.min_seq(rhs[:i])
                    suf = self.min_seq(rhs[i + 1:]) + suf
                return pre, suf
            cpre, csuf = split(cyc)
            if not cpre and not csuf:
                continue
            xpre, xsuf = split(ctx_path[a])
            nonpush = sum(1 for pi, _ in cyc if not self.prods[pi]["push"])
            out.append({"name": self.g["nonterminals"][a], "xpre": xpre, "xsuf": xsuf, "cpre": cpre, "csuf": csuf,
                        "core": self.min_tokens(("n", a)), "nonpush": nonpush, "len": len(cyc)})
        return out

    def pump(self, c, d):
        return c["xpre"] + c["cpre"] * d + c["core"] + c["csuf"] * d + c["xsuf"]


def mod(body):
    return "module A {\n" + body + "\n}\n"


def comb(body):
    return mod("always_comb {\n" + body + "\n}")


def expr(e):
    return mod("assign a = " + e + ";")


# hand-written nesting towers (valid Veryl by construction): name -> f(depth)
TOWERS = {
    "paren": lambda d: expr("(" * d + "1" + ")" * d),
    "concat": lambda d: expr("{ " * d + "1" + " }" * d),
    "array-literal": lambda d: expr("'{ " * d + "1" + " }" * d),
    "struct-ctor": lambda d: expr("s'{ x: " * d + "1" + " }" * d),
    "if-expr-cond": lambda d: expr("if " * d + "1" + " ? 1 : 0" * d),
    "if-expr-then": lambda d: expr("if 1 ? " * d + "1" + " : 0" * d),
    "case-expr": lambda d: expr("case 1 { 0: " * d + "1" + ", default: 0 }" * d),
    "switch-expr": lambda d: expr("switch { 1: " * d + "1" + ", default: 0 }" * d),
    "call": lambda d: expr("f(" * d + "1" + ")" * d),
    "select": lambda d: expr("a[" * d + "0" + "]" * d),
    "type-expr": lambda d: expr("type(" * d + "a" + ")" * d),
    "generic": lambda d: mod("inst u: M::<" + "P::<" * d + "1" + "> " * d + ">;"),
    "if-stmt": lambda d: comb("if c { " * d + "a = 1;" + " }" * d),
    "for-stmt": lambda d: comb("for i in 0..1 { " * d + "a = 1;" + " }" * d),
    "case-stmt": lambda d: comb("case a { 0: " * d + "a = 1;" + " }" * d),
    "block-stmt": lambda d: comb("block { " * d + "a = 1;" + " }" * d),
    "module-group": lambda d: mod("{ " * d + "var a: logic;" + " }" * d),
    "attr-group": lambda d: mod("#[ifdef(X)] { " * d + "var a: logic;" + " }" * d),
    "gen-if": lambda d: mod("if 1 :g { " * d + " }" * d),
    "gen-for": lambda d: mod("for i in 0..1 :g { " * d + " }" * d),
    "gen-block": lambda d: mod(":g { " * d + " }" * d),
    "embed": lambda d: "embed (inline) sv{{{ " + "{ " * d + "x" + " }" * d + " }}}\n",
    "desc-group": lambda d: "{ " * d + "module A {}" + " }" * d + "\n",
    "unterminated-paren": lambda d: expr("(" * d + "1"),
    "unterminated-block": lambda d: comb("if c { " * d + "a = 1;"),
}

# flat runs (push productions: not depth-counted): name -> f(n)
RUNS = {
    "statements": lambda n: comb("a = 1;\n" * n),
    "binary-chain": lambda n: expr("1" + " + 1" * n),
    "mixed-chain": lambda n: expr("1" + " + 1 * 1 ** 1 << 1" * (n // 4)),
    "unary-chain": lambda n: expr("~ " * n + "1"),
    "concat-items": lambda n: expr("{" + "1, " * n + "1}"),
    "else-if-chain": lambda n: comb("if c { a = 1; }" + " else if c { a = 1; }" * n),
    "if-expr-chain": lambda n: expr("if 1 ? 1 : " * n + "0"),
    "case-items": lambda n: comb("case a {\n" + "0: a = 1;\n" * n + "}"),
    "module-items": lambda n: mod("var a: logic;\n" * n),
    "modules": lambda n: "module A {}\n" * n,
    "ports": lambda n: "module A (\n" + "a: input logic,\n" * n + ") {}\n",
    "scoped-path": lambda n: expr("a" + "::a" * n),
    "member-path": lambda n: expr("a" + ".a" * n),
    "selects": lambda n: expr("a" + "[0]" * n),
    "attributes": lambda n: mod("#[allow(x)]\n" * n + "var a: logic;"),
    "long-identifier": lambda n: expr("a" * (n * 4)),
    "long-comment": lambda n: mod("/* " + "x " * (n * 2) + "*/"),
    "long-line-comment-no-newline": lambda n: "module A {} // " + "x" * (n * 4),
    "long-string": lambda n: expr('"' + "s" * (n * 4) + '"'),
    "long-number": lambda n: expr("1" + "_0" * (n * 2)),
    "unterminated-comment": lambda n: mod("/* " + "x " * n),
    "unterminated-string": lambda n: expr('"' + "s" * n),
    "newlines": lambda n: "\n" * (n * 4),
    "crlf-whitespace": lambda n: "\r\n \t" * n,
    "stray-bytes": lambda n: "@" * n,
    "stray-multibyte": lambda n: "日本𝄞\u0000" * (n // 4),
    "closing-braces": lambda n: "}" * n,
    "embed-any": lambda n: "embed (inline) sv{{{ " + "x y " * n + " }}}\n",
}


# ---------------------------------------------------------------------------------------------
# running + judging
# ---------------------------------------------------------------------------------------------

def run_model_retry(domain, out_dir):
    """run_model, tolerating a vmodel binary that is being re-linked by a concurrent `lake build`."""
    import time as _t
    for _ in range(30):
        try:
            return run_model(domain, out_dir)
        except (FileNotFoundError, PermissionError, OSError):
            _t.sleep(4)
    return run_model(domain, out_dir)


def write_input(d, name, text):
    p = f"{d}/{name}.veryl"
    with open(p, "w", encoding="utf-8", newline="") as fh:
        fh.write(text)
    return p


def judge(ctx, out_dir, stats_prefix, max_report=5):
    """results.txt: every (input, stack) must be Ok or an error value with an in-range span."""
    rows = read_lines(f"{out_dir}/results.txt") or []
    hist = ctx.cov.setdefault("distribution", {})
    bad_by_path = collections.OrderedDict()     # path -> (label, mib, text) of the most telling bad row
    recycled = False
    for row in rows:
        label, rest = row.split(" ", 1)
        path, mib, res = rest.rsplit(" ", 2)
        if label.startswith("selftest:"):
            # deliberate abort / stack overflow in the child: the isolation must report it as a crash
            if res != "not-run" and f"selftest.{label.split(':')[1]}" not in hist:
                hist[f"selftest.{label.split(':')[1]}"] = res
                if not res.startswith("crash:"):
                    ctx.violation(f"crash detection self-test `{label}` was not reported as a crash (got {res}): "
                                  "a stack overflow of the parser would go unnoticed",
                                  {"kind": "check-machinery", "label": label, "result": res}, no_input=True, kind="model!=impl")
            continue
        ctx.cov["evaluations"] += 1
        cls = res.split(":")[0]
        hist[f"{stats_prefix}.{cls}"] = hist.get(f"{stats_prefix}.{cls}", 0) + 1
        hist[f"{stats_prefix}.stack{mib}MiB.{cls}"] = hist.get(f"{stats_prefix}.stack{mib}MiB.{cls}", 0) + 1
        bad = None
        if cls == "stack-recycled":
            # the thread did not get the stack size it asked for (glibc stack cache): the run proves nothing
            if not recycled:
                recycled = True
                ctx.violation(f"stack-size control failed for `{label}` ({mib} MiB requested, got {res}): thread stacks are being recycled",
                              {"kind": "check-machinery", "label": label, "result": res}, no_input=True, kind="model!=impl")
            continue
        if cls == "ok" or cls in ("parol", "lexer", "user"):
            pass
        elif cls == "syntax":
            span, ln = res[len("syntax:"):].split("/")
            a, b = span.split("..")
            if not (0 <= int(a) <= int(b) <= int(ln)):
                bad = f"syntax diagnostic span {span} lies outside the input (length {ln})"
        else:
            bad = f"parser did not return a value: {res}"
        ctx.distinct((label, res if cls != "syntax" else "syntax", mib))
        if bad:
            # `not-run` = a stage that never started because an earlier stage of the same input killed the child
            if path not in bad_by_path or (bad_by_path[path][3] == "not-run" and res != "not-run"):
                bad_by_path[path] = (label, mib, bad, res)
    hist[f"{stats_prefix}.failing_inputs"] = len(bad_by_path)
    for k, (path, (label, mib, bad, res)) in enumerate(bad_by_path.items()):
        if k >= max_report:
            ctx.notes.append(f"{len(bad_by_path) - max_report} more failing inputs in {stats_prefix} not reported individually "
                             f"(see {out_dir}/results.txt)")
            break
        try:
            with open(path, encoding="utf-8", newline="") as fh:
                body = fh.read()
        except Exception:
            body = f"(input file {path})"
        key = None
        if label.startswith("tower:"):
            _, construct, depth = label.split(":")     # tower:<construct>:<depth>
            key = f"parser:{construct}:depth{depth}"
        what = "Rust's default 2 MiB thread stack" if mib == "2" else f"a {mib} MiB stack"
        ctx.violation(f"C10 violated on input `{label}` with {what}: {bad} "
                      f"(replay: {HX} parse --one <replay file> --stack {mib})", body, key=key, kind="impl!=oracle")
    return rows


def correspondence(ctx, out_dir, list_entries):
    """vmodel ll on the harness's request lines; any difference is a broken tie."""
    mrc, err = run_model_retry("ll", out_dir)
    if mrc != 0:
        ctx.log(f"vmodel ll rc={mrc}: {err[-500:]}")
    n, mism = diff3(out_dir)
    ctx.cov["evaluations"] += n
    ops = read_lines(f"{out_dir}/ops.txt") or []
    imp = read_lines(f"{out_dir}/impl.txt") or []
    nll = 0
    for o, r in zip(ops, imp):
        if o.startswith("ll "):
            nll += 1
            ctx.distinct((o, r))
    ctx.cov["traces_validated_against_impl"] += nll
    for m in mism[:3]:
        op = m["op"]
        short = op if len(op) < 300 else op[:300] + "…"
        if str(m["impl"]).startswith("crash:"):
            continue  # reported by judge() through results.txt? no: the trace pass has its own slot
        ctx.violation(f"parse: model/implementation correspondence broken at `{short}`: impl={m['impl']} model={m['model']}",
                      {"kind": "model!=impl", "domain": "parse", "op": op, "impl": m["impl"], "model": m["model"],
                       "replay": f"{HX} parse --one <input> --trace 1 ; echo '<op>' | {VMODEL} ll (after the dfa lines of ops.txt)"},
                      no_input=True, kind="model!=impl")
    for m in mism:
        if str(m["impl"]).startswith("crash:"):
            ctx.violation(f"parser crashed in the trace pass (64 MiB stack): {m['impl']}", {"op": m["op"], "impl": m["impl"]},
                          kind="impl!=oracle")
            break
    return len(mism)


def run_phase(ctx, name, entries, n_malformed, timeout, extra=()):
    d = f"{ctx.run_dir}/{name}"
    os.makedirs(d, exist_ok=True)
    lst = f"{d}/input-list.txt"
    with open(lst, "w") as fh:
        for flags, label, path in entries:
            fh.write(f"{flags} {label} {path}\n")
    rc, out, _ = run_hx(ctx, "parse", ["--seed", ctx.seed, "--n", n_malformed, "--list", lst, "--timeout", timeout] + list(extra),
                        out_dir=d)
    if rc != 0:
        ctx.violation(f"harness domain parse crashed (rc={rc})", {"kind": "harness-crash", "log": out[-4000:]},
                      no_input=True, kind="model!=impl")
        return None
    stats = load_stats(d)
    for k, v in stats.items():
        if k != "samples":
            ctx.cov.setdefault("distribution", {})[f"{name}.{k}"] = v
    for s in stats.get("samples", []):
        ctx.sample(s)
    judge(ctx, d, name)
    correspondence(ctx, d, entries)
    return d


def ll_replies(d):
    """label/path -> reply of the trace pass, in list order."""
    lst = read_lines(f"{d}/list.txt") or []
    ops = read_lines(f"{d}/ops.txt") or []
    imp = read_lines(f"{d}/impl.txt") or []
    replies = [r for o, r in zip(ops, imp) if o.startswith("ll ")]
    out, k = {}, 0
    for line in lst:
        flags, label, path = line.split(" ", 2)
        if "T" in flags:
            if k < len(replies):
                out[label] = replies[k]
            k += 1
    return out


def ll_ops(d):
    """label -> request line of the trace pass, in list order."""
    lst = read_lines(f"{d}/list.txt") or []
    ops = [o for o in (read_lines(f"{d}/ops.txt") or []) if o.startswith("ll ")]
    out, k = {}, 0
    for line in lst:
        flags, label, path = line.split(" ", 2)
        if "T" in flags:
            if k < len(ops):
                out[label] = ops[k]
            k += 1
    return out


def toks_of(op):
    inner = op[len("ll ["):-1]
    return inner.split(",") if inner else []


def extrapolate(t1, t2, p1, p2):
    """Token sequences of a tower at nestings p1 < p2  ->  (A, O, C, Z, S) with tower(d) = A + O*d + C + Z*d + S."""
    n = len(t2) - len(t1)
    if n <= 0 or n % (p2 - p1):
        return None
    n //= (p2 - p1)
    for a in range(0, len(t1) + 1):
        for o in range(0, n + 1):
            z = n - o
            O = t1[a:a + o]
            if t1[a:a + p1 * o] != O * p1:
                continue
            rest = t1[a + p1 * o:]
            for c in range(0, len(rest) - p1 * z + 1):
                Z = rest[c:c + z]
                if rest[c:c + p1 * z] != Z * p1:
                    continue
                A, C, S = t1[:a], rest[:c], rest[c + p1 * z:]
                if A + O * p2 + C + Z * p2 + S == t2:
                    return A, O, C, Z, S
    return None


def field(reply, name):
    for tok in reply.split():
        if tok.startswith(name + "="):
            return int(tok[len(name) + 1:], 16)
    return None


STACK_BUDGET = 2 * 1024 * 1024     # Rust's default stack of a spawned thread
SAFETY = 1.5                       # required head-room factor (debug build frames; measured, see evidence)


def stack_budget(ctx, d2, boundary, cap):
    """Obligation tying the depth cap to a stack budget: for every recursive construct the stack needed by
    parse + clone + drop at the deepest nesting the cap admits (measured high-water mark), and cap x (worst
    per-depth-unit cost), must fit the 2 MiB default thread stack with the safety factor."""
    meas = {}
    for row in read_lines(f"{d2}/measure.txt") or []:
        label, rest = row.split(" ", 1)
        path, cls, a, b, c = rest.rsplit(" ", 4)
        meas[label] = (cls, int(a), int(b), int(c))
    table, worst_need, worst_unit = {}, (0, None), (0.0, None)
    broken = []
    for name, (q, c0, dstar) in sorted(boundary.items()):
        hi, lo = meas.get(f"tower:{name}:{dstar}"), meas.get(f"tower:{name}:{dstar // 2}")
        if not hi or not lo:
            continue
        if hi[0] != "ok" or lo[0] != "ok":
            # the measuring thread (96 MiB) died or the tower was refused: cannot bound the need
            if hi[0].startswith("crash") or hi[0] in ("timeout", "panic"):
                broken.append(f"{name}: measurement at nesting {dstar} ended with `{hi[0]}` (needs more than 96 MiB?)")
            continue
        need = max(hi[1:])
        per_level = (max(hi[1:]) - max(lo[1:])) / max(1, dstar - dstar // 2)
        per_unit = per_level / q
        table[name] = {"nesting_at_cap": dstar, "depth_units_per_level": q, "stack_bytes(parse,clone,drop)": list(hi[1:]),
                       "bytes_per_level": round(per_level, 1), "bytes_per_depth_unit": round(per_unit, 1)}
        if need > worst_need[0]:
            worst_need = (need, name)
        if per_unit > worst_unit[0]:
            worst_unit = (per_unit, name)
    ctx.cov["obligations"] += 1
    proj = cap * worst_unit[0]
    info = {"cap(regenerated Gen.maxParsingDepth)": cap, "stack_budget_bytes": STACK_BUDGET, "safety_factor": SAFETY,
            "constructs_measured": len(table),
            "worst_need_at_cap_bytes": worst_need[0], "worst_need_construct": worst_need[1],
            "c_max_bytes_per_depth_unit": round(worst_unit[0], 1), "c_max_construct": worst_unit[1],
            "cap_x_c_max_bytes": round(proj), "required": "max(worst_need, cap*c_max) * safety <= stack_budget",
            "margin(stack_budget / max(worst_need, cap*c_max))": round(STACK_BUDGET / max(1, worst_need[0], proj), 2),
            "per_construct": table}
    ctx.cov["stack_budget"] = info
    if not table:
        broken.append("no construct could be measured")
    if max(worst_need[0], proj) * SAFETY > STACK_BUDGET:
        broken.append(f"cap {cap}: worst construct `{worst_need[1]}` needs {worst_need[0]} bytes of stack at the deepest admitted nesting, "
                      f"cap x c_max = {cap} x {worst_unit[0]:.0f} (`{worst_unit[1]}`) = {proj:.0f} bytes; with safety factor {SAFETY} this "
                      f"exceeds the {STACK_BUDGET}-byte default thread stack")
    if not broken:
        ctx.cov["discharged"] += 1
        return
    # an actual overflow under 2 MiB is reported by judge() with the tower as replay; otherwise: broken obligation
    reproduced = any(not ni for _, _, ni in ctx.violations)
    if not reproduced:
        ctx.violation("stack-budget obligation broken (depth cap vs 2 MiB default thread stack): " + "; ".join(broken),
                      {"kind": "proof-broken", "what": "cap * per-level stack cost * safety <= 2 MiB", "detail": broken, "numbers":
                       {k: v for k, v in info.items() if k != "per_construct"}},
                      no_input=True, kind="proof-broken")
    else:
        ctx.notes.append("stack-budget obligation broken as well: " + "; ".join(broken))


def run(ctx):
    ctx.cov["generated"] = gen.gen(["Grammar"])
    ok = lean_check(ctx, "VerylModel.Props.C10", THEOREMS)
    ctx.cov["trusted_base"] = [
        "Lean 4.33 kernel; axioms ⊆ {propext, Classical.choice, Quot.sound}",
        "tools/gen_grammar.py (text → table translator; its output is compared entry by entry with the PRODUCTIONS / "
        "LOOKAHEAD_AUTOMATA constants of the linked parser on every run)",
        "Core/LL.lean is a faithful image of parol_runtime 5.0 LLKParser::parse_into / push_production / LookaheadDFA::eval "
        "(read from the registry source; recovery over-approximated by arbitrary buffer edits, ≤ 100 errors)",
        "NOT modelled, covered by the runs only: scnr2 lexer, semantic actions building the AST, parse_tree_stack.split_off, "
        "the AST's Drop, real stack consumption per frame, miette span conversion",
        "harness/src/dom_parse.rs + this script (child-process isolation, classification of results)"]
    ctx.cov["rule"] = ("corpus files; seeded mutants of them (truncation, stray/multi-byte bytes, unterminated comment/string/embed, "
                       "deletion, duplication, bracket swap, random bytes, token soup, CRLF/CR); random derivations of the generated "
                       "grammar; nesting towers for every hand-listed construct and every recursive non-terminal of the grammar "
                       "(pumped shortest cycle) at the exact depth-cap boundary and at 1000…1300, 5000, 20000; flat runs of 1e5–1e6 "
                       "tokens. Each parsed and dropped with 8 MiB and 16 MiB stacks in child processes; every tower also with the 2 MiB default "
                       "thread stack, and the stack high-water mark of parse+clone+drop at the cap boundary is measured (obligation "
                       "cap*c_max*safety <= 2 MiB). "
                       "distinct = distinct (request, reply) pairs of the correspondence + distinct (label, outcome, stack)")
    if not harness_build(ctx):
        return
    with open(f"{CACHE}/grammar.json") as fh:
        g = G(json.load(fh))
    cap = g.g["cap"]
    rnd = random.Random(ctx.seed)
    thorough = ctx.tier == "thorough"
    inp = f"{ctx.run_dir}/inputs"
    shutil.rmtree(inp, ignore_errors=True)
    os.makedirs(inp)

    # ---- phase 1: corpus, derivations, probes of the towers -------------------------------------
    entries = []
    trace_max = 100000 if thorough else 2000
    for f in sorted(os.listdir(CORPUS)):
        if f.endswith(".veryl"):
            p = f"{CORPUS}/{f}"
            entries.append(("T" if os.path.getsize(p) <= trace_max else "-", "corpus", p))
    n_der = tier_n(ctx, 60, 2500)
    for i in range(n_der):
        budget = rnd.choice([6, 8, 10, 12, 16, 24])
        toks = g.derive(rnd, budget, rnd.choice([30, 80, 200]))
        text = g.text(toks, rnd)
        entries.append(("T" if len(text) <= 1500 else "-", "derivation", write_input(inp, f"d{i:05}", text)))
    cycles = g.cycles()
    ctx.cov.setdefault("distribution", {})["grammar.recursive_cycles"] = len(cycles)
    if not thorough:
        # all hand-written towers + a seeded sample of the automatic ones
        cyc_sel = rnd.sample(cycles, min(8, len(cycles)))
    else:
        cyc_sel = cycles
    P1, P2 = 6, 12
    for name, f in TOWERS.items():
        for d in (P1, P2):
            entries.append(("T", f"probe:{name}:{d}", write_input(inp, f"probe-{name}-{d}", f(d))))
    for ci, c in enumerate(cyc_sel):
        for d in (P1, P2):
            entries.append(("T", f"probe:pump-{c['name']}:{d}", write_input(inp, f"probe-pump-{c['name']}-{d}", g.text(g.pump(c, d)))))
    d1 = run_phase(ctx, "parse1", entries, tier_n(ctx, 80, 4000), tier_n(ctx, 120, 600),
                   extra=["--trace-max", 1500 if not thorough else 4000])
    if d1 is None:
        return

    # ---- phase 2: towers at the cap boundary (from the probes' measured depth), big towers, flat runs ----
    rep = ll_replies(d1)
    entries = []
    boundary = {}

    def slope(name):
        a, b = rep.get(f"probe:{name}:{P1}"), rep.get(f"probe:{name}:{P2}")
        if not a or not b or not a.startswith("accepted") or not b.startswith("accepted"):
            return None
        ma, mb = field(a, "maxdepth"), field(b, "maxdepth")
        if ma is None or mb is None or mb <= ma or (mb - ma) % (P2 - P1):
            return None
        q = (mb - ma) // (P2 - P1)
        return q, ma - q * P1

    def add_towers(name, make):
        sl = slope(name)
        ctx.cov["distribution"][f"towers.{'measured' if sl else 'flat-or-rejected'}"] = \
            ctx.cov["distribution"].get(f"towers.{'measured' if sl else 'flat-or-rejected'}", 0) + 1
        depths = [1000, 1100, 1200, 1300, 5000, 20000] if thorough else [1000, 1300, 5000, 20000]
        if sl:
            q, c0 = sl
            dstar = (cap - c0) // q            # deepest nesting the cap admits
            boundary[name] = (q, c0, dstar)
            # no trace pass here: at `Trace` level the generated semantic actions Debug-format the whole
            # item stack per action, which takes minutes on a 1152-deep stack
            # `2`: also with Rust's default 2 MiB thread stack; `M`: stack high-water mark (budget obligation)
            for d in (dstar - 1, dstar, dstar + 1):
                entries.append(("2M" if d == dstar else "2", f"tower:{name}:{d}", write_input(inp, f"tower-{name}-{d}", make(d))))
            if dstar // 2 > 0:
                entries.append(("2M", f"tower:{name}:{dstar // 2}", write_input(inp, f"tower-{name}-{dstar // 2}", make(dstar // 2))))
            if thorough and dstar - 7 > 0:
                entries.append(("2", f"tower:{name}:{dstar - 7}", write_input(inp, f"tower-{name}-{dstar - 7}", make(dstar - 7))))
        for d in depths:
            entries.append(("2", f"tower:{name}:{d}", write_input(inp, f"tower-{name}-{d}", make(d))))

    for name, f in TOWERS.items():
        add_towers(name, f)
    for c in cyc_sel:
        add_towers(f"pump-{c['name']}", lambda d, c=c: g.text(g.pump(c, d)))
    # flat runs, sized in TOKENS (measured on a small instance through the lexer-independent estimate below)
    names = sorted(RUNS)
    big = set(rnd.sample(names, tier_n(ctx, 2, 6)))
    for name in names:
        f = RUNS[name]
        per_unit = max(1, (len(f(64).split()) - len(f(32).split())) // 32)   # whitespace-separated pieces per unit
        target = tier_n(ctx, 10 ** 4, 10 ** 5) * (10 if name in big else 1)
        n_run = max(1, target // per_unit)
        entries.append(("-", f"run:{name}:{n_run}", write_input(inp, f"run-{name}", f(n_run))))
        small = 40
        entries.append(("T" if not name.startswith("long-") else "-", f"run:{name}:{small}",
                        write_input(inp, f"run-{name}-small", f(small))))
    tiny = write_input(inp, "selftest", mod(""))
    entries.append(("X", "selftest:abort:0", tiny))
    entries.append(("O", "selftest:overflow:0", tiny))
    d2 = run_phase(ctx, "parse2", entries, 0, tier_n(ctx, 150, 900))
    ctx.cov["distribution"]["towers.boundary(q,c0,deepest-accepted)"] = {k: list(v) for k, v in sorted(boundary.items())}
    if d2:
        # T3 on the real code: the model, run on the tower's token stream (extrapolated from the two traced
        # probes), and the real parser must agree on where the cap strikes: D* accepted, D*+1 refused with cap+1.
        res = {}
        for row in read_lines(f"{d2}/results.txt") or []:
            label, rest = row.split(" ", 1)
            res.setdefault(label, []).append(rest.rsplit(" ", 1)[1])
        ops1 = ll_ops(d1)
        table = [o for o in (read_lines(f"{d1}/ops.txt") or []) if not o.startswith("ll ")]
        q_ops, q_exp, q_lab = [], [], []
        for name, (q, c0, dstar) in sorted(boundary.items()):
            o1, o2 = ops1.get(f"probe:{name}:{P1}"), ops1.get(f"probe:{name}:{P2}")
            ex = extrapolate(toks_of(o1), toks_of(o2), P1, P2) if o1 and o2 else None
            if not ex:
                ctx.notes.append(f"tower {name}: token stream not of the form A O^d C Z^d S; boundary not cross-checked")
                continue
            A, O, C, Z, S = ex
            for d in (dstar, dstar + 1):
                real = res.get(f"tower:{name}:{d}", ["?"])
                real = real[0] if len(set(real)) == 1 else "/".join(real)
                exp = {"ok": "accepted"}.get(real, real)
                if real.startswith("parol:MaxParsingDepthExceeded:"):
                    exp = f"depth-exceeded:{int(real.rsplit(':', 1)[1]):x}"
                if "crash" in real or "not-run" in real or "timeout" in real:
                    continue        # already reported by judge() with the tower as replay
                q_ops.append("ll [" + ",".join(A + O * d + C + Z * d + S) + "]")
                q_exp.append(exp)
                q_lab.append(f"tower:{name}:{d}")
        bd = f"{ctx.run_dir}/boundary"
        os.makedirs(bd, exist_ok=True)
        with open(f"{bd}/ops.txt", "w") as fh:
            fh.write("\n".join(table + q_ops) + "\n")
        run_model_retry("ll", bd)
        got = (read_lines(f"{bd}/model.txt") or [])[len(table):]
        ctx.cov["traces_validated_against_impl"] += len(got)
        nb = 0
        for lab, exp, m in zip(q_lab, q_exp, got):
            ctx.cov["evaluations"] += 1
            ctx.distinct((lab, m.split()[0]))
            want_cap = lab.endswith(f":{boundary[lab.split(':')[1]][2] + 1}")
            expected_model = f"depth-exceeded:{cap + 1:x}" if want_cap else "accepted"
            if m.split()[0] != exp or m.split()[0] != expected_model:
                nb += 1
                if nb <= 3:
                    ctx.violation(f"depth cap: model and real parser disagree on `{lab}`: real={exp} model={m.split()[0]} "
                                  f"(expected {expected_model} from the probes' linear depth)",
                                  {"kind": "model!=impl", "label": lab, "real": exp, "model": m},
                                  no_input=True, kind="model!=impl")
        ctx.cov["distribution"]["towers.boundary_cross_checked"] = len(got)
    if d2:
        stack_budget(ctx, d2, boundary, cap)
    if not ok:
        if not any(not ni for _, _, ni in ctx.violations):
            proof_broken(ctx, "VerylModel.Props.C10 (or the regenerated grammar certificate) no longer checks")
