"""C14 — combinational loop detection is exact (partial: port-level feedthrough summaries)."""
import os
import subprocess
from concurrent.futures import ThreadPoolExecutor

from vlib import *

LEVEL = "proof"
THEOREMS = ["ssa_exact", "partition_exact", "partition_exact_any_cuts", "hier_sound",
            "C14_feedthrough_false_positive", "hier_exact_partial"]
FP_KEY = "comb_loop:port-level-feedthrough"
DOMAIN = "combloop"


# ---------------------------------------------------------------------------------------------
# running the model on many lines (several vmodel processes side by side)
# ---------------------------------------------------------------------------------------------

def model_replies(lines, jobs=4):
    if not lines:
        return []
    jobs = max(1, min(jobs, len(lines) // 200 + 1))
    size = (len(lines) + jobs - 1) // jobs
    chunks = [lines[i:i + size] for i in range(0, len(lines), size)]

    def one(chunk):
        p = subprocess.run([VMODEL, DOMAIN], input="\n".join(chunk) + "\n", stdout=subprocess.PIPE,
                           stderr=subprocess.PIPE, text=True)
        out = p.stdout.split("\n")[:-1]
        return out + ["(model stream ended)"] * (len(chunk) - len(out))

    with ThreadPoolExecutor(max_workers=jobs) as ex:
        parts = list(ex.map(one, chunks))
    return [r for part in parts for r in part]


def fields(reply):
    """`a=1 b=0` -> {"a": 1, "b": 0}; anything else -> None."""
    out = {}
    for tok in reply.split():
        k, eq, v = tok.partition("=")
        if not eq or v not in ("0", "1"):
            return None
        out[k] = int(v)
    return out or None


def classify(op, imp, ora, mod):
    """Returns (kind, text, key) or None when the line is fine."""
    if imp in ("bad-op", "accepted") or mod == "bad-op":   # malformed stream: both sides reject
        if imp == "bad-op" and mod == "bad-op":
            return None
        return ("model!=impl", f"request parsing differs: harness={imp} model={mod}", None)
    o, m = fields(ora), fields(mod)
    if m is None or not {"det", "ref", "detd", "fp", "lo"} <= set(m):
        return ("model!=impl", f"the model rejected a generated design: {mod}", None)
    if o is None or not {"ref", "lo"} <= set(o):
        return ("model!=impl", f"no oracle reply: {ora}", None)
    if (o["ref"], o["lo"]) != (m["ref"], m["lo"]):
        return ("model!=oracle", f"Lean bit-level reference {mod} differs from the harness's independent reference {ora}", None)
    if m["det"] != m["detd"]:
        return ("model!=impl", f"SSA detector model and live-in detector model disagree ({mod}) although ssa_exact is proved", None)
    i = fields(imp)
    if i is None or "loop" not in i:
        return ("impl!=oracle", f"the analyzer did not survive a generated design: {imp}", None)
    real = i["loop"]
    # property (oracle): reported <=> bit-level cycle; recursive functions may be opaque (lo) or not (ref)
    if not (o["lo"] <= real <= o["ref"]):
        if real == 1 and o["ref"] == 0 and m["det"] == 1 and m["fp"] == 1:
            return ("impl!=oracle", "spurious loop through a port-level feedthrough summary (child maps disjoint "
                    "input bits to disjoint output bits; no bit-level cycle; detector model agrees)", FP_KEY)
        what = "a loop is reported but no cycle of bit-level dependencies exists" if real else \
            "a cycle of bit-level dependencies exists but no loop is reported"
        return ("impl!=oracle", f"{what}: impl={imp} oracle={ora} model={mod}", None)
    if real != m["det"]:
        return ("model!=impl", f"detector model verdict differs from the analyzer: impl={imp} model={mod}", None)
    return None


# ---------------------------------------------------------------------------------------------
# shrinking one design (S-expression surgery, best effort)
# ---------------------------------------------------------------------------------------------

def sx_parse(s):
    stack, cur = [[]], ""
    for ch in s:
        if ch in "(),":
            if cur:
                stack[-1].append(cur)
                cur = ""
            if ch == "(":
                stack.append([])
            elif ch == ")":
                top = stack.pop()
                stack[-1].append(top)
        else:
            cur += ch
    return stack[0][0]


def sx_print(e):
    return e if isinstance(e, str) else "(" + ",".join(sx_print(x) for x in e) + ")"


def sx_variants(e):
    """Smaller variants of a design expression: drop one element of a statement list / block list /
    instance list / read list, or replace an `if` by one of its branches."""
    if isinstance(e, str):
        return
    tag = e[0] if e and isinstance(e[0], str) else None
    droppable = {"M": 5, ";": 1, "N": 1, "=": 2, "r": 2, "U": 2}.get(tag)
    if droppable is not None:
        for i in range(droppable, len(e)):
            yield e[:i] + e[i + 1:]
    if tag == "?" and len(e) == 4:
        yield e[2]
        yield e[3]
    for i, x in enumerate(e):
        if not isinstance(x, str):
            for v in sx_variants(x):
                yield e[:i] + [v] + e[i + 1:]


def evaluate(ctx, lines, tag):
    d = f"{ctx.run_dir}/{tag}"
    os.makedirs(d, exist_ok=True)
    with open(f"{d}/replay.txt", "w") as fh:
        fh.write("\n".join(lines) + "\n")
    rc, out, _ = run_hx(ctx, DOMAIN, ["--replay", f"{d}/replay.txt"], out_dir=d)
    if rc != 0:
        return [("impl!=oracle", f"harness crashed: {out[-300:]}", None)] * len(lines)
    imp = read_lines(f"{d}/impl.txt") or []
    ora = read_lines(f"{d}/oracle.txt") or []
    mod = model_replies(lines, jobs=1)
    return [classify(*t) for t in zip(lines, imp, ora, mod)]


def shrink(ctx, op, verdict):
    kind, _, key = verdict
    try:
        cur = sx_parse(op.split(" ", 1)[1])
        budget = 300
        progress = True
        while progress and budget > 0:
            progress = False
            for cand in sx_variants(cur):
                budget -= 1
                if budget <= 0:
                    break
                r = evaluate(ctx, ["design " + sx_print(cand)], "shrink")[0]
                if r is not None and r[0] == kind and r[2] == key:
                    cur, progress = cand, True
                    break
        return "design " + sx_print(cur)
    except Exception as e:  # best effort
        ctx.log(f"shrink failed: {e}")
        return op


# ---------------------------------------------------------------------------------------------

def run(ctx):
    ok = lean_check(ctx, "VerylModel.Props.C14", THEOREMS)
    ctx.cov["trusted_base"] = [
        "Lean 4.33 kernel; axioms ⊆ {propext, Classical.choice, Quot.sound}",
        "model language: mixing assignments over constant part selects, always_comb with if/else and reassignment, "
        "one level of instances; functions, arrays, struct members, bit-aligned copies are not modelled",
        "Core/CombLoop.lean mirrors comb_loop_detect (atomic ranges, SSA/phi, port-level summaries); tied to the "
        "analyzer only by the differential below",
        "harness/src/dom_combloop.rs (Veryl rendering `{(^{reads}) repeat W}`, independent bit-level reference) + checks/c14.py"]
    ctx.cov["rule"] = ("random designs of the model language (part selects biased to boundaries, feed-forward and feedback "
                       "reads, if/else nesting ≤ 2, 0–2 children incl. port-slicing children, 1–2 instances), 1/3 with a retained-state always_comb (variable assigned on some paths only, nested ifs with/without else in either branch, self-reads y=f(y,…), read-after-write inside branches, conditions reading y, cycle closed through an assign), plus 1/8 opaque "
                       "stream ($sv black boxes, inout ports, recursive functions); real analyzer through post_pass2 vs "
                       "detector model (correspondence) and vs bit-level reference (oracle, computed twice: Rust and Lean); "
                       "distinct = distinct designs")
    if not harness_build(ctx):
        return
    n = tier_n(ctx, 800, 30000)
    if getattr(ctx, "replay", None):
        ops = [l for l in (read_lines(ctx.replay) or []) if l.startswith("design ")]
        for op, v in zip(ops, evaluate(ctx, ops, "replay")):
            ctx.cov["evaluations"] += 1
            if v is not None:
                ctx.violation(f"combloop (replay): {v[1]}", op + "\n", key=v[2], kind=v[0], no_input=(v[0] != "impl!=oracle"))
        return
    rc, out, d = run_hx(ctx, DOMAIN, ["--seed", ctx.seed, "--n", n])
    if rc != 0:
        ctx.violation(f"harness domain {DOMAIN} crashed (rc={rc})", {"kind": "harness-crash", "log": out[-4000:]},
                      no_input=True, kind="model!=impl")
        return
    ops = read_lines(f"{d}/ops.txt") or []
    imp = read_lines(f"{d}/impl.txt") or []
    ora = read_lines(f"{d}/oracle.txt") or []
    if not (len(ops) == len(imp) == len(ora) == n):
        ctx.violation(f"harness streams have lengths {len(ops)}/{len(imp)}/{len(ora)}, expected {n}",
                      {"kind": "harness-crash"}, no_input=True, kind="model!=impl")
        return
    mod = model_replies(ops, jobs=4)
    with open(f"{d}/model.txt", "w") as fh:
        fh.write("\n".join(mod) + "\n")
    stats = load_stats(d)
    for k, v in stats.items():
        if k != "samples":
            ctx.cov.setdefault("distribution", {})[f"{DOMAIN}.{k}"] = v
    for s in stats.get("samples", []):
        ctx.sample(s[:400])
    ctx.cov["evaluations"] += len(ops)
    ctx.cov["traces_validated_against_impl"] += len(ops)
    tally = {}
    reported = {}
    for t in zip(ops, imp, ora, mod):
        ctx.distinct(t[0])
        tally[(t[1], t[2])] = tally.get((t[1], t[2]), 0) + 1
        v = classify(*t)
        if v is None:
            continue
        kind, text, key = v
        if key is not None and any(f.get("kind") == "known" and f.get("key") == key for f in ctx.findings):
            # known class: every case is verified by its signature (classify), recorded once
            ctx.violation(f"{DOMAIN}: {text}", t[0] + "\n", key=key, kind=kind)
            ctx.cov["known_class_cases"] = ctx.cov.get("known_class_cases", 0) + 1
            continue
        sig = (kind, key or text.split(":")[0])
        reported[sig] = reported.get(sig, 0) + 1
        if reported[sig] > 3:
            continue
        small = shrink(ctx, t[0], v)
        body = {"kind": kind, "domain": DOMAIN, "ops": [small], "original": t[0], "impl": t[1], "oracle": t[2],
                "model": t[3], "seed": ctx.seed, "key": key,
                "replay": f"{HX} {DOMAIN} --replay <file with the op line> [--dump PREFIX writes the Veryl source]; "
                          f"{VMODEL} {DOMAIN} < <file>"}
        ctx.violation(f"{DOMAIN}: {text}", body, key=key, kind=kind, no_input=(kind != "impl!=oracle"))
    ctx.cov["verdicts"] = {f"{a} | {b}": c for (a, b), c in sorted(tally.items())}
    if not ok and not any(not ni for _, _, ni in ctx.violations):
        proof_broken(ctx, "VerylModel.Props.C14 no longer checks")
