"""C07 — language-server diagnostics depend only on the current buffers.

Proof side: VerylModel.Props.C07 over Core/LsState.lean, tied to the source by the regenerated
Gen/DropTables.lean (every thread_local! table of crates/analyzer + crates/parser, and the tables
on the call graph of Analyzer::drop_file).

Real-server side: generated notification histories (open / change / save / close / create / delete /
rename, syntax break+repair, declarations added / removed / renamed under other files' feet) are
played to a long-lived `veryl-ls` (tools/lsp_client.py); ORACLE: a freshly started `veryl-ls` whose
disk holds the final contents of the closed files (and, for open files, the buffer text: their on-disk
text must be irrelevant) and which is sent didOpen for the same open set with the same buffer texts.  Both are quiesced (WorkDoneProgress End of every background scan + a request barrier),
then every open file is re-sent unchanged (didChange, sorted order, two rounds) so that each server
publishes its view of every open buffer; the canonicalised final publishDiagnostics per open file are compared.
"""
import copy
import json
import random
import re
import shutil
import time
from concurrent.futures import ThreadPoolExecutor

import gen
import proj
import lsp_client as L
from vlib import *

LEVEL = "proof"
THEOREMS = ["tables_classified", "real_leaky_tables", "leaky_accounted", "table_function_of_buffers",
            "state_function_of_buffers", "fresh_server_agrees", "state_function_of_buffers_false", "real_partial",
            "real_nonleaky_count", "doc_comment_leak", "wildcard_leak", "generic_index_leak", "pending_queue_leak"]

QUIESCE_S = 90
# development / mutation testing only: run the histories against a given veryl-ls binary
LS_BIN = os.environ.get("VERIF_VERYL_LS") or VERYL_LS

# ---------------------------------------------------------------------------------------------
# extra files / edits specific to the language server (cross-file generics, imports, doc comments,
# syntax break / repair, dependency reversal)
# ---------------------------------------------------------------------------------------------

GEN_FILES = {
    "src/gen.veryl": "module Gen::<W: u32> (\n    i: input  logic<W>,\n    o: output logic<W>,\n) {\n    assign o = i;\n}\n",
    "src/use.veryl": "module Use (\n    i: input  logic<4>,\n    o: output logic<4>,\n) {\n    inst u: Gen::<4> ( i, o );\n}\n",
}
BAD_DOC = "/// ```wavedrom\n/// {signal: [ BAD\n/// ```\n"
PLAIN_DOC = "//\n//\n//\n"
NAMED_IMPORT = proj.base_files()["src/alone.veryl"].replace(") {\n", ") {\n    import PkgA::Z;\n", 1).replace("a + 1;", "a + Z;")


def x_break(files, opts, rng):
    """syntax break: drop the last closing brace / add a stray token"""
    k = rng.choice(sorted(files))
    s = files[k]
    if rng.random() < 0.5 and s.rstrip().endswith("}"):
        files[k] = s.rstrip()[:-1] + "\n"
    else:
        files[k] = s.replace("{\n", "{\n    ) ;\n", 1)


def x_repair(files, opts, rng):
    """repair: every file that no longer matches a known-good shape gets its braces back"""
    for k in sorted(files):
        s = files[k].replace("{\n    ) ;\n", "{\n")
        if s.count("{") > s.count("}"):
            s = s.rstrip() + "\n}\n"
        files[k] = s


def x_import_rm(files, opts, rng):
    if "src/pkg_b.veryl" in files:
        files["src/pkg_b.veryl"] = files["src/pkg_b.veryl"].replace("    import PkgA::*;\n", "")


def x_import_add(files, opts, rng):
    s = files.get("src/pkg_b.veryl")
    if s is not None and "import PkgA::*;" not in s:
        files["src/pkg_b.veryl"] = s.replace("package PkgB {\n", "package PkgB {\n    import PkgA::*;\n", 1)


def x_import_named(files, opts, rng):
    """toggle the line `import PkgA::Z;` in Alone (independently of the use of `Z`)"""
    s = files.get("src/alone.veryl")
    if s is None:
        return
    if "import PkgA::Z;" in s:
        files["src/alone.veryl"] = s.replace("    import PkgA::Z;\n", "")
    else:
        files["src/alone.veryl"] = s.replace(") {\n", ") {\n    import PkgA::Z;\n", 1)


def x_use_named(files, opts, rng):
    """toggle the use of the bare name `Z` in Alone"""
    s = files.get("src/alone.veryl")
    if s is None:
        return
    if "a + Z;" in s:
        files["src/alone.veryl"] = s.replace("a + Z;", "a + 1;")
    else:
        files["src/alone.veryl"] = s.replace("a + 1;", "a + Z;")


def x_doc_bad(files, opts, rng):
    s = files.get("src/alone.veryl")
    if s is not None and not s.startswith(("///", "//\n")):
        files["src/alone.veryl"] = BAD_DOC + s


def x_doc_plain(files, opts, rng):
    s = files.get("src/alone.veryl")
    if s is not None and s.startswith(BAD_DOC):
        files["src/alone.veryl"] = PLAIN_DOC + s[len(BAD_DOC):]


def x_generic(files, opts, rng):
    for k, v in GEN_FILES.items():
        files.setdefault(k, v)


def x_generic_touch(files, opts, rng):
    if "src/use.veryl" in files:
        files["src/use.veryl"] += "// t\n"


def x_dep_reverse(files, opts, rng):
    """PkgB depends on PkgA  <->  PkgA depends on PkgB (never both in the final text of one edit)"""
    a, b = files.get("src/pkg_a.veryl"), files.get("src/pkg_b.veryl")
    if a is None or b is None:
        return
    if "PkgB::" not in a:
        files["src/pkg_b.veryl"] = "package PkgB {\n    const V: u32 = 9;\n}\n"
        files["src/pkg_a.veryl"] = re.sub(r"const W: u32 = [^;]+;", "const W: u32 = PkgB::V - 1;", a)
    else:
        files["src/pkg_a.veryl"] = re.sub(r"const W: u32 = [^;]+;", "const W: u32 = 8;", a)
        files["src/pkg_b.veryl"] = "package PkgB {\n    import PkgA::*;\n    const V: u32 = W + 1;\n}\n"


def x_struct(files, opts, rng):
    """add / change / remove a struct in PkgA that Alone uses as a type"""
    a, al = files.get("src/pkg_a.veryl"), files.get("src/alone.veryl")
    if a is None:
        return
    if "struct S" not in a:
        files["src/pkg_a.veryl"] = a.rstrip()[:-1] + "    struct S {\n        x: logic<2>,\n        y: logic<3>,\n    }\n}\n"
        if al is not None and "var s_v" not in al:
            files["src/alone.veryl"] = re.sub(r"\n\}\s*$", "\n    var s_v: PkgA::S;\n    assign s_v.x = 0;\n    assign s_v.y = 0;\n}\n", al, count=1)
    elif "y: logic<3>" in a and rng.random() < 0.5:
        files["src/pkg_a.veryl"] = a.replace("        y: logic<3>,\n", "        z: logic<3>,\n")
    else:
        files["src/pkg_a.veryl"] = re.sub(r"    struct S \{.*?\n    \}\n", "", a, flags=re.S)


# family A: edits that, as far as the table classification says, must NOT leak
EDITS_A = [e for e in proj.EDITS if e[0] not in ("toml",)] + [
    ("break", x_break), ("repair", x_repair), ("repair", x_repair), ("dep_reverse", x_dep_reverse), ("struct", x_struct)]
# family B: additionally the shapes that exercise the three tables classified `leaky/observable`
EDITS_B = EDITS_A + [("import_rm", x_import_rm), ("import_add", x_import_add), ("import_named", x_import_named), ("use_named", x_use_named),
                     ("doc_bad", x_doc_bad), ("doc_plain", x_doc_plain), ("generic", x_generic),
                     ("generic_touch", x_generic_touch)]


# ---------------------------------------------------------------------------------------------
# histories
# ---------------------------------------------------------------------------------------------

class Editor:
    """The client's truth: files on disk and open buffers."""

    def __init__(self, files):
        self.disk = dict(files)
        self.bufs = {}

    def effective(self):
        e = dict(self.disk)
        e.update(self.bufs)
        return e


def valid(ed, st):
    k = st[0]
    if k == "open":
        return st[1] in ed.disk and st[1] not in ed.bufs
    if k in ("change", "touch", "close", "save"):
        return st[1] in ed.bufs
    if k == "create":
        return st[1] not in ed.disk and st[1] not in ed.bufs
    if k == "delete":
        return st[1] in ed.disk
    if k == "rename":
        return st[1] in ed.disk and st[2] not in ed.disk and st[2] not in ed.bufs
    if k == "race_open":     # open st[1]; open st[2] the moment the scan caused by st[1] has reported st[2]
        return st[1] != st[2] and all(p in ed.disk and p not in ed.bufs for p in st[1:3])
    return False


def apply_model(ed, st):
    """Effect of a (valid) step on the editor's truth."""
    k = st[0]
    if k == "open":
        ed.bufs[st[1]] = ed.disk[st[1]]
    elif k == "change":
        ed.bufs[st[1]] = st[2]
    elif k == "save":
        ed.disk[st[1]] = ed.bufs[st[1]]
    elif k == "close":
        del ed.bufs[st[1]]
    elif k == "create":
        ed.disk[st[1]] = st[2]
        ed.bufs[st[1]] = st[2]
    elif k == "delete":
        del ed.disk[st[1]]
        ed.bufs.pop(st[1], None)
    elif k == "rename":
        ed.disk[st[2]] = ed.disk.pop(st[1])
        if st[1] in ed.bufs:
            ed.bufs[st[2]] = ed.bufs.pop(st[1])
    elif k == "race_open":
        ed.bufs[st[1]] = ed.disk[st[1]]
        ed.bufs[st[2]] = ed.disk[st[2]]


def gen_history(rng, edits, n_steps, extra_files=None):
    files0 = proj.base_files()
    if extra_files:
        files0.update(extra_files)
    ed = Editor(files0)
    steps = []

    def push(st):
        if valid(ed, st):
            apply_model(ed, st)
            steps.append(st)

    for f in rng.sample(sorted(files0), rng.choice([1, 1, 2, 3])):
        push(["open", f])
    guard = 0
    while len(steps) < n_steps and guard < 10 * n_steps:
        guard += 1
        r = rng.random()
        if rng.random() < 0.10:
            # break the syntax of an OPEN file that others depend on (unsaved: the disk keeps the valid text); let a
            # background scan run (didOpen of another file, or a rename); then touch a dependent
            dep = {"src/pkg_a.veryl": ["src/mid.veryl", "src/top.veryl", "src/if_a.veryl", "src/pkg_b.veryl"],
                   "src/pkg_b.veryl": ["src/alone.veryl"], "src/leaf.veryl": ["src/mid.veryl"], "src/mid.veryl": ["src/top.veryl"]}
            cands = [p for p in sorted(dep) if p in ed.disk]
            if cands:
                a = rng.choice(cands)
                users = [u for u in dep[a] if u in ed.disk]
                push(["open", a])
                if users:
                    b = rng.choice(users)
                    push(["open", b])
                    txt = ed.bufs[a]
                    push(["change", a, txt.rstrip()[:-1] + "\n" if rng.random() < 0.5 else txt.replace("{\n", "{\n    ) ;\n", 1), "break"])
                    others = [p for p in sorted(ed.disk) if p not in ed.bufs]
                    if others and rng.random() < 0.7:
                        push(["open", rng.choice(others)])
                    elif others:
                        o = rng.choice(others)
                        push(["rename", o, o[:-8] + ".veryl" if o.endswith("_r.veryl") else o[:-6] + "_r.veryl"])
                    push(["touch", b])
            continue
        if r < 0.62:
            name, fn = rng.choice(edits)
            eff = ed.effective()
            new = copy.deepcopy(eff)
            fn(new, {}, rng)
            for p in sorted(set(eff) | set(new)):
                if p not in new:
                    push(["delete", p, name])
                elif p not in eff:
                    push(["create", p, new[p], name])
                elif new[p] != eff[p]:
                    push(["open", p])
                    push(["change", p, new[p], name])
                    q = rng.random()
                    if q < 0.45:
                        push(["save", p])
                        if rng.random() < 0.3:
                            push(["close", p])
                    elif q < 0.55:
                        push(["close", p])        # discard the unsaved edit
        elif r < 0.70:
            cands = [p for p in sorted(ed.disk) if p not in ed.bufs]
            if cands:
                push(["open", rng.choice(cands)])
        elif r < 0.78:
            if len(ed.bufs) > 1:
                push(["close", rng.choice(sorted(ed.bufs))])
        elif r < 0.84:
            dirty = [p for p in sorted(ed.bufs) if ed.disk.get(p) != ed.bufs[p]]
            if dirty:
                push(["save", rng.choice(dirty)])
        elif r < 0.90:
            if ed.bufs:
                push(["touch", rng.choice(sorted(ed.bufs))])
        elif r < 0.96:
            p = rng.choice(sorted(ed.disk))
            q = p[:-8] + ".veryl" if p.endswith("_r.veryl") else p[:-6] + "_r.veryl"
            push(["rename", p, q])
        else:
            cands = [p for p in sorted(ed.disk) if p.startswith("src/extra") or p.endswith("_r.veryl")]
            if cands:
                push(["delete", rng.choice(cands), "gc"])
    steps = steps[:n_steps]
    return {"files": files0, "steps": steps}


# ---------------------------------------------------------------------------------------------
# running a history on a real server
# ---------------------------------------------------------------------------------------------

def toml_text(incremental, exclude_std=True):
    return proj.toml({"build": {"incremental": "true" if incremental else "false",
                                "exclude_std": "true" if exclude_std else "false"}})


def send_step(srv, root, ed, st):
    """Send the notifications of one valid step and update disk; returns number of messages."""
    k = st[0]
    P = lambda rel: os.path.join(root, rel)
    if k == "open":
        srv.did_open(P(st[1]), ed.disk[st[1]])
        return 1
    if k == "change":
        srv.did_change(P(st[1]), st[2])
        return 1
    if k == "touch":
        srv.did_change(P(st[1]), ed.bufs[st[1]])
        return 1
    if k in ("save", "create", "delete"):
        srv.quiesce(QUIESCE_S)      # a scan re-reads the disk: file-system changes are made between scans only
    if k == "save":
        with open(P(st[1]), "w") as fh:
            fh.write(ed.bufs[st[1]])
        srv.did_save(P(st[1]))
        return 1
    if k == "close":
        srv.did_close(P(st[1]))
        return 1
    if k == "create":
        os.makedirs(os.path.dirname(P(st[1])), exist_ok=True)
        with open(P(st[1]), "w") as fh:
            fh.write(st[2])
        srv.did_open(P(st[1]), st[2])
        return 1
    if k == "delete":
        srv.will_delete(P(st[1]))
        os.remove(P(st[1]))
        n = 1
        if st[1] in ed.bufs:
            srv.did_close(P(st[1]))
            n += 1
        return n
    if k == "rename":
        srv.quiesce(QUIESCE_S)                      # the server drops a didRenameFiles that arrives mid-scan
        srv.will_rename(P(st[1]), P(st[2]))
        os.makedirs(os.path.dirname(P(st[2])), exist_ok=True)
        os.rename(P(st[1]), P(st[2]))
        srv.did_rename(P(st[1]), P(st[2]))
        n = 2
        if st[1] in ed.bufs:                        # what an editor does for an open document
            srv.quiesce(QUIESCE_S)                  # (after the rename's scan: opening mid-scan is `race_open`)
            srv.did_close(P(st[1]))
            srv.did_open(P(st[2]), ed.bufs[st[1]])
            n += 2
        return n
    if k == "race_open":
        srv.quiesce(QUIESCE_S)
        start = len(srv.reports)
        srv.did_open(P(st[1]), ed.disk[st[1]])
        srv.wait_report(os.path.basename(st[2]), start, timeout=20)
        srv.did_open(P(st[2]), ed.disk[st[2]])
        return 2
    raise ValueError(st)


def snapshot(srv, root, opens):
    return {p: L.canon_diags(srv.last_diags(os.path.join(root, p)), root) for p in opens}


def parses(srv, root, p):
    """Does the server's last analysis of open file `p` say the buffer parses?  (on_change publishes exactly one
    `Syntax Error` diagnostic, code ParserError::*, when Parser::parse fails.)"""
    ds = srv.last_diags(os.path.join(root, p)) or []
    return not any(str(d.get("code", "")).startswith("ParserError") or (d.get("message") or "").startswith("Syntax Error")
                   for d in ds)


def refresh(srv, root, ed):
    """Re-send every open buffer THAT PARSES unchanged, twice: the first round re-registers every open file (a file
    whose declarations were rejected as duplicates of a since-removed file only registers now), the second round lets
    every open file be diagnosed against that state.  A buffer that does not parse is not re-sent: it has nothing to
    register, and the `drop_file` its didChange runs would erase exactly the stale state we are looking for (e.g. the
    on-disk declarations of that file resurrected by a background scan)."""
    for _ in range(2):
        for p in sorted(ed.bufs):
            if parses(srv, root, p):
                srv.did_change(os.path.join(root, p), ed.bufs[p])
        q = srv.quiesce(QUIESCE_S)
        if q != "ok":
            return q
    return "ok"


def run_live(base, tag, hist, burst=False, incremental=True, exclude_std=True):
    """Play the history to one long-lived server.  Returns dict(status, strict, final, ed, n_msgs, panic)."""
    root, home = L.scratch_project(base, tag, hist["files"], toml_text(incremental, exclude_std))
    ed = Editor(hist["files"])
    srv = L.LspServer(LS_BIN, root, home)
    res = {"status": "ok", "strict": {}, "final": {}, "n_msgs": 0, "panic": None, "applied": [], "zombie": []}
    gone = {}                                      # removed / renamed-away path -> publishes seen when it went
    try:
        srv.initialize()
        for st in hist["steps"]:
            if not valid(ed, st):
                continue
            if st[0] in ("delete", "rename"):
                srv.quiesce(QUIESCE_S)
                gone[st[1]] = srv.n_publishes(os.path.join(root, st[1]))
            res["n_msgs"] += send_step(srv, root, ed, st)
            apply_model(ed, st)
            res["applied"].append(st[0])
            if st[0] in ("create", "rename"):
                gone.pop(st[2] if st[0] == "rename" else st[1], None)
            if not burst:
                q = srv.quiesce(QUIESCE_S)
                if q != "ok":
                    res["status"] = q
                    break
        if res["status"] == "ok":
            res["status"] = srv.quiesce(QUIESCE_S)
        if res["status"] == "ok":
            res["strict"] = snapshot(srv, root, sorted(ed.bufs))
            res["status"] = refresh(srv, root, ed)
            res["n_msgs"] += 2 * len(ed.bufs)
            res["final"] = snapshot(srv, root, sorted(ed.bufs))
    except L.LspError as ex:
        res["status"] = f"dead({ex})"
    res["panic"] = srv.panicked()
    if res["panic"] and res["status"] == "ok":
        res["status"] = "panic"
    # the server analysed (and published for) a uri after it had been told the file is gone
    res["zombie"] = sorted(p for p, n in gone.items() if srv.n_publishes(os.path.join(root, p)) > n)
    res["zombie_diags"] = {p: L.canon_diags(srv.last_diags(os.path.join(root, p)), root) for p in res["zombie"]}
    srv.close()
    res["ed"] = ed
    return res


def run_fresh(base, tag, ed, incremental=True, exclude_std=True):
    """ORACLE: a fresh server; didOpen of the same open set with the same texts; disk = final disk contents for the
    files that are not open and = the BUFFER for the files that are (the property makes the on-disk text of an open
    document irrelevant, so the oracle never sees it: a server that lets it leak in — e.g. a scan that re-reads an
    open file whose buffer does not parse — differs from this oracle whichever binary plays the oracle)."""
    root, home = L.scratch_project(base, tag, ed.effective(), toml_text(incremental, exclude_std))
    srv = L.LspServer(LS_BIN, root, home)
    res = {"status": "ok", "final": {}, "panic": None}
    try:
        srv.initialize()
        for p in sorted(ed.bufs):                   # one at a time: a didOpen that lands inside a scan is a
            srv.did_open(os.path.join(root, p), ed.bufs[p])     # history of its own (`race_open`), not a fresh server
            res["status"] = srv.quiesce(QUIESCE_S)
            if res["status"] != "ok":
                break
        if res["status"] == "ok":
            res["status"] = refresh(srv, root, ed)
            res["final"] = snapshot(srv, root, sorted(ed.bufs))
    except L.LspError as ex:
        res["status"] = f"dead({ex})"
    res["panic"] = srv.panicked()
    if res["panic"] and res["status"] == "ok":
        res["status"] = "panic"
    srv.close()
    return res


def codes(ds):
    return sorted(set(d[2] for d in ds))


def msdiff(a, b):
    """Multiset difference of two canonical diagnostic lists: (only in a, only in b)."""
    from collections import Counter
    ca, cb = Counter(map(repr, a)), Counter(map(repr, b))
    xa, xb = ca - cb, cb - ca
    oa, ob = [], []
    for d in a:
        if xa[repr(d)] > 0:
            oa.append(d)
            xa[repr(d)] -= 1
    for d in b:
        if xb[repr(d)] > 0:
            ob.append(d)
            xb[repr(d)] -= 1
    return oa, ob


def compare(live, fresh):
    """None if the long-lived server is indistinguishable from the fresh one, else a dict describing the difference."""
    if live["status"] != "ok" or fresh["status"] != "ok":
        return {"what": "status", "live": live["status"], "fresh": fresh["status"],
                "panic": live["panic"] or fresh["panic"]}
    diff = {}
    for p in sorted(live["final"]):
        a, b = live["final"][p], fresh["final"].get(p) or []
        if a != b:
            lo, fo = msdiff(a, b)
            diff[p] = {"live_only": lo, "fresh_only": fo}
    for p, ds in (live.get("zombie_diags") or {}).items():
        if ds and p not in diff:                  # errors published for a uri that no longer exists
            diff[p] = {"live_only": ds, "fresh_only": []}
    if diff:
        return {"what": "diagnostics", "files": diff, "zombie": live.get("zombie", [])}
    stale = {}
    for p in sorted(live["strict"]):
        a, b = live["strict"][p], fresh["final"].get(p) or []
        if a != b:
            lo, fo = msdiff(a, b)
            stale[p] = {"live_only": lo, "fresh_only": fo}
    if stale:
        return {"what": "not-republished", "files": stale}
    return None


def check_history(base, tag, hist, burst=False, incremental=True, exclude_std=True):
    live = run_live(base, tag + "-live", hist, burst, incremental, exclude_std)
    fresh = run_fresh(base, tag + "-fresh", live["ed"], incremental, exclude_std)
    d = compare(live, fresh)
    for t in (tag + "-live", tag + "-fresh"):
        shutil.rmtree(os.path.join(base, t), ignore_errors=True)
    return d, live, fresh


# ---------------------------------------------------------------------------------------------
# classification of a difference (keys of known findings are verified, not guessed)
# ---------------------------------------------------------------------------------------------

def with_reverts(hist):
    """The same history, but every close of a dirty buffer is preceded by reverting the buffer to disk."""
    ed = Editor(hist["files"])
    out = []
    for st in hist["steps"]:
        if not valid(ed, st):
            continue
        if st[0] == "close" and ed.disk.get(st[1]) != ed.bufs[st[1]] and st[1] in ed.disk:
            rv = ["change", st[1], ed.disk[st[1]], "revert"]
            out.append(rv)
            apply_model(ed, rv)
        out.append(st)
        apply_model(ed, st)
    return {"files": hist["files"], "steps": out}


def without_closes(hist):
    """The same history with every didClose left out (the document simply stays open)."""
    return {"files": hist["files"], "steps": [st for st in hist["steps"] if st[0] != "close"]}


def history_facts(hist):
    """What the history did, replayed on the client's truth (no server involved)."""
    ed = Editor(hist["files"])
    f = {"removed_doc": set(), "removed_wild": set(), "removed_named": set(), "closed_dirty": set(), "gone_text": {}}
    for st in hist["steps"]:
        if not valid(ed, st):
            continue
        if st[0] == "change":
            old, new = ed.bufs[st[1]], st[2]
            if len(re.findall(r"^\s*///", new, re.M)) < len(re.findall(r"^\s*///", old, re.M)):
                f["removed_doc"].add(st[1])
            ow, nw = set(re.findall(r"import\s+([\w:]+)::\*\s*;", old)), set(re.findall(r"import\s+([\w:]+)::\*\s*;", new))
            if ow - nw:
                f["removed_wild"].add(st[1])
            on, nn = set(re.findall(r"import\s+([\w:]+::\w+)\s*;", old)), set(re.findall(r"import\s+([\w:]+::\w+)\s*;", new))
            if on - nn:
                f["removed_named"].add(st[1])
        if st[0] == "close" and ed.disk.get(st[1]) != ed.bufs[st[1]]:
            f["closed_dirty"].add(st[1])
        if st[0] in ("delete", "rename"):
            f["gone_text"][st[1]] = ed.bufs.get(st[1], ed.disk.get(st[1], ""))
        apply_model(ed, st)
    decl = {}
    for p, txt in ed.effective().items():
        for nm in re.findall(r"^(?:pub\s+)?(?:module|interface|package)\s+(\w+)", txt, re.M):
            decl.setdefault(nm, set()).add(p)
    f["dup_files"] = set(p for v in decl.values() if len(v) > 1 for p in v)
    return f


def _inter(a, b):
    """Multiset intersection of two diagnostic lists."""
    from collections import Counter
    c = Counter(map(repr, a)) & Counter(map(repr, b))
    out = []
    for x in a:
        if c[repr(x)] > 0:
            out.append(x)
            c[repr(x)] -= 1
    return out


def explain(hist, d, runner=None):
    """Attribute every differing diagnostic to a VERIFIED cause.  Returns (set of cause keys, residual) where
    residual maps file -> {live_only, fresh_only} of the diagnostics no rule accounts for.
    `runner(history) -> difference|None` runs counterfactual histories on real servers."""
    if d["what"] == "status":
        pan = d.get("panic") or ""
        if "structural generic-instance key collides" in pan:
            return {"ls:panic:generic-instance-index-collision"}, {}
        if re.search(r"panicked at [^\n]*reference_table\.rs[^\n]*\n[^\n]*Option::unwrap\(\)", pan) and (
                "check_complex_identifier" in pan or "stack backtrace:\n   0" not in pan):
            return {"ls:panic:open-during-scan:stale-reference-candidate"}, {}
        m = re.search(r"panicked at ([^\s:]+:\d+)", pan)
        return {f"ls:status:{d['live']}/{d['fresh']}:{m.group(1) if m else 'unknown'}"}, {}
    if d["what"] == "not-republished":
        return {"ls:dependents-not-republished"}, {}
    f = history_facts(hist)
    causes = set()
    res = {p: {"live_only": list(v["live_only"]), "fresh_only": list(v["fresh_only"])} for p, v in d["files"].items()}
    sides = ("live_only", "fresh_only")

    def drop(p, side, pred, cause):
        keep = [x for x in res[p][side] if not pred(x)]
        if len(keep) != len(res[p][side]):
            causes.add(cause)
        res[p][side] = keep

    # `latest_change` replayed for a uri that is gone: its text is analysed again under the dead path
    zombie = d.get("zombie") or []
    if zombie:
        words = set(w for z in zombie for w in re.findall(r"\w+", f["gone_text"].get(z, "")))
        for p in res:
            for side in sides:
                drop(p, side, lambda x: p in zombie or x[2] == "duplicated_identifier"
                     or any(q in words for q in re.findall(r'"(\w+)"', x[3])), "ls:removed-file-reanalysed-by-latest-change")
    # two files declare the same top-level name: which one is rejected depends on analysis order
    if f["dup_files"]:
        for p in res:
            for side in sides:
                drop(p, side, lambda x: p in f["dup_files"] or x[2] == "duplicated_identifier", "ls:duplicate-definition-order")
    for p in res:
        # the interned scope of a removed declaration survives: same place and code, another segment is blamed
        lo, fo = res[p]["live_only"], res[p]["fresh_only"]
        for x in list(lo):
            if x[2] != "undefined_identifier":
                continue
            y = next((y for y in fo if y[:3] == x[:3] and y[3] != x[3]), None)
            if y is not None:
                lo.remove(x)
                fo.remove(y)
                causes.add("ls:stale-scope:undefined-identifier-blames-other-segment")
        if p in f["removed_doc"]:
            drop(p, "live_only", lambda x: x[2] == "invalid_wavedrom", "ls:stale-doc-comment:invalid_wavedrom")
        imp = ("undefined_identifier", "unevaluatable_value", "unknown_member")
        if p in f["removed_wild"]:
            drop(p, "fresh_only", lambda x: x[2] in imp, "ls:stale-import:wildcard")
        if p in f["removed_named"]:
            drop(p, "fresh_only", lambda x: x[2] in imp, "ls:stale-import:named")
    res = {p: v for p, v in res.items() if v["live_only"] or v["fresh_only"]}
    # backend.rs has no did_close handler: the closed document stays in document_map with its last buffer and is
    # never read from disk again.  Two counterfactual histories on real servers: (1) the buffer is reverted to the
    # disk text before each close of a dirty buffer, (2) the closes are left out altogether.  What disappears from
    # the difference is attributed to the ignored didClose.
    f["any_close"] = any(st[0] == "close" for st in hist["steps"])
    if res and f["any_close"]:
        if runner is None:
            causes.add("ls:didclose-ignored?")
        else:
            for cf in ([with_reverts] if f["closed_dirty"] else []) + [without_closes]:
                if not res:
                    break
                d2 = runner(cf(hist))
                if d2 is None or d2["what"] == "not-republished":
                    causes.add("ls:didclose-ignored")
                    res = {}
                elif d2["what"] == "diagnostics":
                    new = {}
                    for p, v in res.items():
                        w = d2["files"].get(p, {"live_only": [], "fresh_only": []})
                        k = {side: _inter(v[side], w[side]) for side in sides}
                        if k != v:
                            causes.add("ls:didclose-ignored")
                        if k["live_only"] or k["fresh_only"]:
                            new[p] = k
                    res = new
    return causes, res


def residual_key(res):
    lo = sorted(set(c for v in res.values() for c in codes(v["live_only"])))
    fo = sorted(set(c for v in res.values() for c in codes(v["fresh_only"])))
    return "ls:unclassified:" + ",".join(lo) + "|" + ",".join(fo)


def classify(hist, d, runner=None):
    """One string for a difference: its causes joined by `+` (and the residual, if any)."""
    causes, res = explain(hist, d, runner)
    keys = sorted(causes) + ([residual_key(res)] if res else [])
    return "+".join(keys)


WITNESSES = [
    # (name, expected key, history) — first four: the tables classified leaky/observable in Core/LsState.lean
    ("doc_comment_leak", "ls:stale-doc-comment:invalid_wavedrom",
     lambda: {"files": dict(proj.base_files(), **{"src/alone.veryl": BAD_DOC + proj.base_files()["src/alone.veryl"]}),
              "steps": [["open", "src/alone.veryl"],
                        ["change", "src/alone.veryl", PLAIN_DOC + proj.base_files()["src/alone.veryl"], "doc_plain"]]}),
    ("wildcard_leak", "ls:stale-import:wildcard",
     lambda: {"files": proj.base_files(),
              "steps": [["open", "src/pkg_b.veryl"],
                        ["change", "src/pkg_b.veryl", proj.base_files()["src/pkg_b.veryl"].replace("    import PkgA::*;\n", ""), "import_rm"]]}),
    ("named_import_leak", "ls:stale-import:named",
     lambda: {"files": dict(proj.base_files(), **{"src/alone.veryl": NAMED_IMPORT}),
              "steps": [["open", "src/alone.veryl"],
                        ["change", "src/alone.veryl", NAMED_IMPORT.replace("    import PkgA::Z;\n", ""), "import_named"]]}),
    ("removed_scope_survives", "ls:stale-scope:undefined-identifier-blames-other-segment",
     lambda: {"files": proj.base_files(), "steps": [["open", "src/alone.veryl"], ["delete", "src/pkg_b.veryl", "delete"]]}),
    ("generic_index_leak", "ls:panic:generic-instance-index-collision",
     lambda: {"files": dict(proj.base_files(), **GEN_FILES),
              "steps": [["open", "src/use.veryl"], ["touch", "src/use.veryl"]]}),
    ("pending_queue_leak", "ls:panic:open-during-scan:stale-reference-candidate",
     lambda: {"files": proj.base_files(), "steps": [["race_open", "src/pkg_a.veryl", "src/top.veryl"]]}),
    # server-level state (not an analyzer table): `latest_change` outlives the uri it names
    ("latest_change_zombie", "ls:removed-file-reanalysed-by-latest-change",
     lambda: {"files": proj.base_files(),
              "steps": [["open", "src/leaf.veryl"],
                        ["change", "src/leaf.veryl", proj.base_files()["src/leaf.veryl"].replace("    o: output", "    q: output").replace("assign o =", "assign q ="), "leaf_port_rename"],
                        ["rename", "src/leaf.veryl", "src/leaf_r.veryl"]]}),
    # server-level state: there is no didClose handler, `document_map` keeps the discarded buffer
    ("close_ignored", "ls:didclose-ignored",
     lambda: {"files": proj.base_files(),
              "steps": [["open", "src/mid.veryl"], ["open", "src/leaf.veryl"],
                        ["change", "src/leaf.veryl", proj.base_files()["src/leaf.veryl"].replace("module Leaf", "module Leaf2"), "rename_leaf"],
                        ["close", "src/leaf.veryl"]]}),
]


def scripted():
    """Fixed histories around "an open buffer that does not parse while its on-disk text does": nothing of the
    on-disk text may come back, whatever scans run afterwards."""
    b = proj.base_files()
    br_a = b["src/pkg_a.veryl"].rstrip()[:-1] + "\n"
    br_leaf = b["src/leaf.veryl"].replace("{\n", "{\n    ) ;\n", 1)
    H = lambda steps: {"files": b, "steps": steps}
    return [
        # break a; scan caused by opening c; touch the dependent
        H([["open", "src/pkg_a.veryl"], ["open", "src/mid.veryl"], ["change", "src/pkg_a.veryl", br_a, "break"],
           ["open", "src/if_a.veryl"], ["touch", "src/mid.veryl"]]),
        # break a; scan caused by a rename; touch the dependent
        H([["open", "src/pkg_a.veryl"], ["open", "src/mid.veryl"], ["change", "src/pkg_a.veryl", br_a, "break"],
           ["rename", "src/alone.veryl", "src/alone_r.veryl"], ["touch", "src/mid.veryl"]]),
        # break a; no scan; touch the dependent
        H([["open", "src/pkg_a.veryl"], ["open", "src/mid.veryl"], ["change", "src/pkg_a.veryl", br_a, "break"],
           ["touch", "src/mid.veryl"]]),
        # break, scan, repair, scan: the repaired buffer (not the disk text) must win
        H([["open", "src/leaf.veryl"], ["open", "src/mid.veryl"], ["change", "src/leaf.veryl", br_leaf, "break"],
           ["open", "src/top.veryl"], ["change", "src/leaf.veryl", b["src/leaf.veryl"].replace("module Leaf", "module Leaf2"), "repair"],
           ["open", "src/alone.veryl"], ["touch", "src/mid.veryl"]]),
        # break + save (disk broken too), scan, touch
        H([["open", "src/pkg_a.veryl"], ["open", "src/mid.veryl"], ["change", "src/pkg_a.veryl", br_a, "break"], ["save", "src/pkg_a.veryl"],
           ["open", "src/if_a.veryl"], ["touch", "src/mid.veryl"]]),
    ]


def short(hist):
    return [st[:2] + ([st[3]] if len(st) > 3 and st[0] in ("change", "create") else st[2:3] if st[0] in ("rename", "delete") else [])
            for st in hist["steps"]]


def run(ctx):
    ctx.cov["generated"] = gen.gen(["DropTables"])
    ok = lean_check(ctx, "VerylModel.Props.C07", THEOREMS, build_driver=False)
    ctx.cov["trusted_base"] = [
        "Lean 4.33 kernel; axioms ⊆ {propext, Classical.choice, Quot.sound}",
        "tools/gen.py DropTables (regex extraction of thread_local! statics and of the drop/clear call graph of Analyzer::drop_file)",
        "the per-table class in Core/LsState.lean (`classification`, reason strings in `reasons`) is an ASSUMPTION about each "
        "real table; it is exercised, not proved, by the histories below",
        "tools/lsp_client.py (framing, barrier = workspace/symbol request, scan accounting) and the oracle construction in checks/c07.py",
        "miette/tower-lsp message plumbing; the `veryl-ls` binary is built from the working tree by cli_build(ls=True)"]
    ctx.cov["rule"] = ("notification histories over a 7–9 file project (open/change/save/close/create/delete/rename/touch; edits = "
                       "proj.EDITS + syntax break/repair, dependency reversal, struct add/change/remove; family B adds import / doc-comment / "
                       "cross-file-generic edits; 10% of the generator's moves are `break an open depended-on file, let a scan run, touch a "
                       "dependent`; 5 scripted histories of that shape run on every tier; 20% of the histories are sent without waiting between notifications; one witness opens a "
                       "file the moment the running scan has reported it) played to a long-lived veryl-ls vs a fresh veryl-ls on the final buffers; "
                       "distinct = distinct (step kinds, final diagnostics) pairs")
    ctx.assumptions.append("C07 is partial: the theorem covers the 28 tables classed dropped/recomputed/freshKeyed; 4 tables are leaky "
                           "and observable (negation witnesses in Lean, replayed on the real server), 12 leaky tables are argued "
                           "unobservable; server-level state (latest_change, document_map without didClose) is tested only")
    if os.environ.get("VERIF_VERYL_LS"):
        ctx.notes.append(f"veryl-ls binary overridden by VERIF_VERYL_LS={LS_BIN} (not built from the working tree)")
    elif not cli_build(ctx, ls=True):
        return
    if not os.path.exists(LS_BIN):
        ctx.violation("veryl-ls binary missing after cli_build", {"kind": "build-failed"}, no_input=True, kind="model!=impl")
        return
    base = f"{CACHE}/scratch/c07-{os.getpid()}"
    shutil.rmtree(base, ignore_errors=True)
    os.makedirs(base, exist_ok=True)
    try:
        _run_histories(ctx, base, ok)
    finally:
        shutil.rmtree(base, ignore_errors=True)


def _report(ctx, base, name, hist, d, opts, shrink_budget_s, seen_keys=None):
    """Explain, shrink what is unexplained (bounded), report once per key and run (later hits are only counted)."""
    cf = [0]

    def runner(h2):
        cf[0] += 1
        return check_history(base, f"cf-{name}-{cf[0]}", h2, **opts)[0]
    causes, res = explain(hist, d, runner)
    keys = sorted(causes) + ([residual_key(res)] if res else [])
    for key in keys:
        if seen_keys is not None:
            if key in seen_keys:
                continue
            seen_keys.add(key)
        small = hist
        novel = key.startswith("ls:unclassified") or key.startswith("ls:status")
        if novel and shrink_budget_s > 0 and len(hist["steps"]) > 2:
            t_end = time.time() + shrink_budget_s
            n = [0]

            def fails(steps):
                if time.time() > t_end:
                    return False
                n[0] += 1
                h2 = {"files": hist["files"], "steps": steps}
                d2, _, _ = check_history(base, f"shrink-{name}-{n[0]}", h2, **opts)
                if d2 is None:
                    return False
                c2, r2 = explain(h2, d2, runner)
                return key in c2 or (bool(r2) and residual_key(r2) == key)
            try:
                small = {"files": hist["files"], "steps": ddmin(hist["steps"], fails)}
            except Exception as ex:  # shrinking is best effort
                ctx.log(f"shrink failed: {ex}")
        body = {"kind": "impl!=oracle", "key": key, "all_keys_of_this_history": keys, "history": small, "options": opts,
                "difference": d, "unexplained": res,
                "replay": "/verif/check C07 --replay <this file>   (plays `history` to a long-lived veryl-ls and to a fresh one)",
                "seed": ctx.seed}
        what = res if key.startswith("ls:unclassified") else (d.get("files") or {k: d[k] for k in ("live", "fresh")})
        txt = (f"[{key}] veryl-ls after history {short(small)} differs from a fresh server on the same buffers: "
               f"{d['what']} {json.dumps(what, default=str)[:600]}")
        ctx.violation(txt, body, key=key, kind="impl!=oracle")
    return "+".join(keys)


def _run_histories(ctx, base, lean_ok):
    stats = {"steps": {}, "edits": {}, "histories": 0, "final_nonempty_diag_files": 0, "compared_files": 0,
             "burst": 0, "incremental": 0, "equal_to_fresh": 0, "keys": {}}
    # replay mode -------------------------------------------------------------------------------
    if getattr(ctx, "replay", None):
        with open(ctx.replay) as fh:
            body = json.load(fh)
        hist, opts = body["history"], body.get("options", {})
        d, live, fresh = check_history(base, "replay", hist, **opts)
        ctx.log(f"replay: live={live['status']} fresh={fresh['status']} difference={json.dumps(d, default=str)[:1500]}")
        if d is not None:
            _report(ctx, base, "replay", hist, d, opts, 0)
        return
    # 1. the Lean witnesses (and two server-level ones) on the real server -------------------------------------------------
    wit = {}
    seen_keys = set()
    wopts = {"burst": False, "incremental": False, "exclude_std": True}
    whist = [(name, key, mkh()) for name, key, mkh in WITNESSES]
    with ThreadPoolExecutor(max_workers=tier_n(ctx, 6, 8)) as ex:
        wres = list(ex.map(lambda w: check_history(base, f"w-{w[0]}", w[2], **wopts), whist))
    for (name, key, hist), (d, live, fresh) in zip(whist, wres):
        ctx.cov["evaluations"] += live["n_msgs"]
        ctx.cov["traces_validated_against_impl"] += 1
        if d is None:
            wit[name] = "no longer reproduces (the long-lived server agrees with a fresh one)"
            ctx.notes.append(f"witness {name}: the leak does not reproduce on this tree")
        else:
            k = _report(ctx, base, f"w-{name}", hist, d, wopts, 0, seen_keys)
            wit[name] = k
            stats["keys"][k] = stats["keys"].get(k, 0) + 1
            if k != key:
                ctx.notes.append(f"witness {name}: expected {key}, observed {k}")
    ctx.cov["witnesses"] = wit
    # 2. generated histories ---------------------------------------------------------------------
    n_hist = tier_n(ctx, 20, 300)
    n_steps = tier_n(ctx, 10, 30)
    workers = tier_n(ctx, 6, 8)
    jobs = []
    for i in range(n_hist):
        rng = random.Random(ctx.seed * 1000003 + i)
        fam_b = (i % 4 == 3)                                  # 1 in 4 histories may touch the leaky tables
        hist = gen_history(rng, EDITS_B if fam_b else EDITS_A, rng.randint(max(3, n_steps // 2), n_steps),
                           extra_files=GEN_FILES if (fam_b and rng.random() < 0.3) else None)
        opts = {"burst": rng.random() < 0.2, "incremental": rng.random() < 0.5, "exclude_std": True}
        jobs.append((f"h{i}", hist, opts, "B" if fam_b else "A"))
    for k, h in enumerate(scripted()):                      # run on every tier, every seed
        for inc in (False, True):
            jobs.append((f"s{k}{'i' if inc else ''}", h, {"burst": False, "incremental": inc, "exclude_std": True}, "S"))
    if ctx.tier == "thorough":
        rng = random.Random(ctx.seed + 7)
        jobs.append(("hstd", gen_history(rng, EDITS_A, 12), {"burst": False, "incremental": False, "exclude_std": False}, "A"))

    def work(job):
        name, hist, opts, fam = job
        try:
            return job, check_history(base, name, hist, **opts)
        except Exception as ex:
            return job, ({"what": "status", "live": f"check-error({ex})", "fresh": "?", "panic": None}, None, None)

    t0 = time.time()
    with ThreadPoolExecutor(max_workers=workers) as ex:
        results = list(ex.map(work, jobs))
    ctx.cov["histories_wall_s"] = round(time.time() - t0, 1)
    shrunk = set()
    shrink_budget = tier_n(ctx, 45, 240)
    for (name, hist, opts, fam), (d, live, fresh) in results:
        stats["histories"] += 1
        stats["burst"] += int(opts["burst"])
        stats["incremental"] += int(opts["incremental"])
        for st in hist["steps"]:
            stats["steps"][st[0]] = stats["steps"].get(st[0], 0) + 1
            if st[0] in ("change", "create") and len(st) > 3:
                stats["edits"][st[3]] = stats["edits"].get(st[3], 0) + 1
        if live is not None:
            ctx.cov["evaluations"] += live["n_msgs"]
            ctx.cov["traces_validated_against_impl"] += 1
            stats["compared_files"] += len(live["final"])
            stats["final_nonempty_diag_files"] += sum(1 for v in live["final"].values() if v)
            ctx.distinct((tuple(live["applied"]), json.dumps(live["final"], sort_keys=True, default=str)))
            if len(ctx.cov["samples"]) < 4:
                ctx.sample({"history": short(hist)[:8], "family": fam, "options": opts, "open_files": sorted(live["final"]),
                            "final_codes": {p: codes(v) for p, v in live["final"].items()}, "equal_to_fresh": d is None})
        if d is None:
            stats["equal_to_fresh"] += 1
        if d is not None:
            pre = classify(hist, d)                          # without counterfactual runs (may end in `?`)
            first = pre not in shrunk
            shrunk.add(pre)
            novel = ("unclassified" in pre) or ("ls:status" in pre) or pre.endswith("?")
            budget = shrink_budget if (first and novel and len(shrunk) <= tier_n(ctx, 3, 10)) else 0
            key = _report(ctx, base, name, hist, d, opts, budget, seen_keys)
            for k1 in key.split("+"):
                stats["keys"][k1] = stats["keys"].get(k1, 0) + 1
    ctx.cov.setdefault("distribution", {})["c07"] = stats
    if not lean_ok and not any(not ni for _, _, ni in ctx.violations):
        proof_broken(ctx, "VerylModel.Props.C07 (or the regenerated Gen/DropTables.lean: a new global table, or a table "
                          "no longer cleared by Analyzer::drop_file) no longer checks")
