"""C02 — all simulator engines produce identical traces.

Proof part: Props/C02.lean (settle-order independence, nonblocking commit, 4-state refines
2-state) about the reference semantics `Core/Sim.lean`.
Correspondence/oracle part: generated small designs (combinational + sequential: `assign`,
`always_comb` with if/case and partial assignments, `always_ff` with `if_reset`, several
nonblocking assignments per register, run-time indexed bit/part-select stores whose index comes
from a `let`/wire that may be used nowhere else, `$display`), emitted as Veryl text for every
`Config::all()` engine (interpreter / Cranelift JIT x 2-/4-state x ff-opt, cc backend) and as a
protocol line for `vmodel sim` (= `Sim.run`). Oracle: every 2-state engine equals the reference
wherever the reference is defined (no zero divisor upstream) and the engines agree elsewhere; the
4-state engines agree with each other (X/Z included) and with the 4-state reference on every bit
that both report as known (the 4-state reference is the embedding of the 2-state one whenever no
X/Z comes in and no operator manufactures X: theorem four_state_refines_two_state). Failures are shrunk (`hx engines --shrink`) and
attributed to a defect class whose predicate is verified on the shrunk witness."""
import json
import os
import subprocess

from vlib import *

LEVEL = "proof"
THEOREMS = [
    "settle_order_indep_units", "settle_fixpoint_units", "settle_unique_units", "settle_order_indep", "settle_fixpoint",
    "step_passes_enough", "domains_local",
    "nba_commit", "nba_commit_local", "nba_commit_frame", "nba_simultaneous",
    "four_state_refines_two_state_expr", "four_state_refines_two_state", "relT_of_known",
]

PAR = max(2, min(8, (os.cpu_count() or 4) // 2))


def hx_env(ctx):
    e = dict(ENV, VERYL_AOT_C_NICE="0")
    e["VERYL_AOT_CACHE_DIR"] = f"{ctx.run_dir}/aot-cache"
    return e


def hx_parallel(ctx, jobs, env=None):
    """jobs: list of (out_dir, args, extra_env). At most PAR `hx engines` processes at a time."""
    res = [None] * len(jobs)
    running = []
    todo = list(enumerate(jobs))
    while todo or running:
        while todo and len(running) < PAR:
            i, job = todo.pop(0)
            d, args = job[0], job[1]
            e = dict(env or hx_env(ctx))
            if len(job) > 2 and job[2]:
                e.update(job[2])
            os.makedirs(d, exist_ok=True)
            p = subprocess.Popen([HX, "engines", "--out", d] + [str(a) for a in args], env=e,
                                 stdout=subprocess.PIPE, stderr=subprocess.STDOUT, text=True)
            running.append((i, p))
        i, p = running.pop(0)
        out, _ = p.communicate()
        res[i] = (p.returncode, out)
    return res


def judge_dir(ctx, d):
    """model + verdict for one output directory; returns list of (line, impl, model, verdict)."""
    run_model("sim", d)
    rc, out = sh([HX, "engines", "--judge", d], env=hx_env(ctx))
    ops, imp = read_lines(f"{d}/ops.txt") or [], read_lines(f"{d}/impl.txt") or []
    mod, ver = read_lines(f"{d}/model.txt") or [], read_lines(f"{d}/verdict.txt") or []
    if rc != 0 or not (len(ops) == len(imp) == len(mod) == len(ver)):
        ctx.violation(f"engines: reply streams of {d} differ in length ({len(ops)},{len(imp)},{len(mod)},{len(ver)})",
                      {"kind": "stream-length", "log": out[-2000:]}, no_input=True, kind="model!=impl")
        return []
    return list(zip(ops, imp, mod, ver))


def shrink_lines(ctx, lines, tag, budget=300):
    """`hx engines --shrink`: returns a list of (status, class_key, signature, witness_line, veryl)."""
    if not lines:
        return []
    k = min(PAR, len(lines))
    parts = [lines[i::k] for i in range(k)]
    jobs = []
    for j, part in enumerate(parts):
        d = f"{ctx.run_dir}/{tag}-{j}"
        os.makedirs(d, exist_ok=True)
        with open(f"{d}/fails.txt", "w") as fh:
            fh.write("".join(l + "\n" for l in part))
        jobs.append((d, ["--shrink", f"{d}/fails.txt", "--vmodel", VMODEL, "--budget", budget]))
    outs = hx_parallel(ctx, jobs)
    by_line = {}
    for (d, _), part, (rc, out) in zip(jobs, parts, outs):
        got = read_lines(f"{d}/shrink.txt") or []
        if rc != 0 or len(got) != len(part):
            ctx.violation(f"hx engines --shrink failed (rc={rc})", {"kind": "harness-crash", "log": out[-3000:]}, no_input=True,
                          kind="model!=impl")
            for l in part:
                by_line[l] = ("error", None, None, l, "")
            continue
        for src_line, l in zip(part, got):
            m = re.match(r"key=(\S+) sig=(\S+) witness=(\S+) ;; (.*)$", l)
            if m:
                by_line[src_line] = ("fail", m.group(1), m.group(2), m.group(3).replace("|", " "), m.group(4).strip())
            else:
                by_line[src_line] = (l.split(" ")[0], None, None, src_line, "")
    return [by_line[l] for l in lines]


def verify_witnesses(ctx):
    """DESIGN 2.7 (3): every recorded finding's witness is replayed first; an entry whose witness no longer
    fails with its class suppresses nothing."""
    ents = [f for f in ctx.findings if f.get("kind") == "known" and f.get("witness")]
    if not ents:
        return
    res = shrink_lines(ctx, [f["witness"] for f in ents], "witnesses", budget=0)
    stale = []
    for f, (st, key, _, _, _) in zip(ents, res):
        if st != "fail" or key != f.get("key"):
            stale.append(f)
            ctx.notes.append(f"known finding `{f.get('key')}`: its witness now gives `{key or st}` - the entry no longer "
                             f"suppresses anything")
            ctx.log(f"recorded witness of {f.get('key')} no longer reproduces (now: {key or st})")
    ctx.findings = [f for f in ctx.findings if f not in stale]
    ctx.cov["witnesses_replayed"] = len(ents)
    ctx.cov["witnesses_still_failing"] = len(ents) - len(stale)


ENGINE_NAMES = {"i2": "interpreter 2-state", "i4": "interpreter 4-state", "j2": "Cranelift JIT 2-state",
                "j4": "Cranelift JIT 4-state", "cc": "cc (AOT-C) backend"}


def report_failures(ctx, failing):
    """failing: list of (stratum, line). Shrink, classify, report."""
    shrunk = shrink_lines(ctx, [l for _, l in failing], "shrink")
    seen = set()
    for (stratum, line), (st, key, sig, wit, src) in zip(failing, shrunk):
        if st != "fail":
            ctx.violation(f"engines {stratum}: `{line[:200]}` failed in the batch run but not when replayed alone ({st})",
                          {"kind": "impl!=oracle", "ops": [line]}, key=None, kind="impl!=oracle")
            continue
        if (key, sig) in seen:
            continue
        seen.add((key, sig))
        body = {"kind": "impl!=oracle", "class": key, "signature": sig, "witness": wit, "veryl": src, "original": line,
                "stratum": stratum, "seed": ctx.seed,
                "replay": f"{HX} engines --replay <file with the witness line> --out DIR ; {VMODEL} sim < DIR/ops.txt ; "
                          f"{HX} engines --judge DIR (verdict.txt)"}
        ctx.violation(f"{stratum}: engines deviate [{key}] (signature {sig}) on `{src[:300]}` [{wit[:200]}]", body, key=key,
                      kind="impl!=oracle")


def run_plan(ctx, plan, tag):
    """plan: list of (stratum, chunks, designs per chunk, engines or None, seq mode). Returns failing lines."""
    jobs, meta = [], []
    for level, chunks, n, only, seq in plan:
        for j in range(chunks):
            d = f"{ctx.run_dir}/{tag}-S{level}-{only or 'all'}-{j}"
            args = ["--seed", ctx.seed * 1000 + level * 100 + j + (50 if only else 0), "--n", n, "--stratum", level, "--seq", seq]
            if only:
                args += ["--only", only]
            jobs.append((d, args))
            meta.append((level, n, d, only))
    t0 = time.time()
    outs = hx_parallel(ctx, jobs)
    ctx.cov[f"{tag}_engines_run_s"] = round(time.time() - t0, 1)
    failing = []
    strata = ctx.cov.setdefault("strata", {})
    for (level, n, d, only), (rc, out) in zip(meta, outs):
        st = strata.setdefault(f"S{level}", {"designs": 0, "accepted": 0, "rejected": 0, "failing": 0, "with_cc": 0})
        if rc != 0:
            ctx.violation(f"harness domain engines crashed (rc={rc}, stratum S{level})", {"kind": "harness-crash", "log": out[-4000:]},
                          no_input=True, kind="model!=impl")
            continue
        stats = load_stats(d)
        dist = ctx.cov.setdefault("distribution", {})
        for k, v in stats.items():
            if k != "samples":
                dist[f"S{level}.{k}"] = dist.get(f"S{level}.{k}", 0) + v
        for s in stats.get("samples", [])[:1]:
            ctx.sample(s[:400])
        for op, imp, mod, ver in judge_dir(ctx, d):
            st["designs"] += 1
            if ver == "skip":
                st["rejected"] += 1
                continue
            st["accepted"] += 1
            if " wf=1" in mod:
                # the combinational part passes `checkDesign`: the hypothesis of Props/C02.settle_order_indep holds
                st["acyclicity_check_passed"] = st.get("acyclicity_check_passed", 0) + 1
            if not only or "cc" in only:
                st["with_cc"] += 1
            ctx.cov["evaluations"] += imp.count("=")
            ctx.cov["traces_validated_against_impl"] += imp.count("=")
            ctx.distinct((op, imp))
            if ver != "ok":
                st["failing"] += 1
                failing.append((f"S{level}", op))
    return failing


def corpus(ctx):
    """committed passing regression designs: must stay clean under every engine"""
    d = f"{ROOT}/corpus/C02"
    files = sorted(f for f in os.listdir(d) if f.endswith(".txt")) if os.path.isdir(d) else []
    jobs = [(f"{ctx.run_dir}/corpus-{i}", ["--replay", f"{d}/{f}"] + (["--only", "i2,j2,i4,j4"] if "nocc" in f else []))
            for i, f in enumerate(files)]
    failing = []
    for (dd, _), (rc, out) in zip(jobs, hx_parallel(ctx, jobs)):
        if rc != 0:
            ctx.violation(f"harness domain engines crashed on the corpus (rc={rc})", {"kind": "harness-crash", "log": out[-3000:]},
                          no_input=True, kind="model!=impl")
            continue
        for op, imp, mod, ver in judge_dir(ctx, dd):
            ctx.cov["evaluations"] += imp.count("=")
            if ver not in ("ok", "skip"):
                failing.append(("corpus", op))
    ctx.cov["corpus_files"] = len(files)
    return failing


def run(ctx):
    ok = lean_check(ctx, "VerylModel.Props.C02", THEOREMS)
    ctx.cov["trusted_base"] = [
        "Lean 4.33 kernel; axioms within {propext, Classical.choice, Quot.sound}",
        "Core/Sim.lean: my reference semantics of the generated design language (IEEE 1800 scheduling reduced to "
        "'inputs change between active clock edges'; nonblocking assignment; X-pessimistic don't-care on zero divisors); "
        "expressions by Core/ExprRef.lean (IEEE 1800 11.4/11.6/11.8 transcription, shared with C18)",
        "harness/src/dom_engines.rs (Veryl text generation, engine driving in worker processes, judging, shrinking, defect "
        "classes), tools/vlib.py; the engines' lowering (interpreter, Cranelift, C emitter) is validated by these runs, not modelled",
        "test verdicts (`$assert`/`#[test]`) and native testbenches are not exercised by this check; `$display` only in always_ff",
    ]
    ctx.cov["rule"] = ("random small designs per stratum (S0 unsigned, widths/contexts <= 64, no / %, every register reset, run-time indexed stores `y[idx] = d` / `y[idx*W+:W] = a - b` in half of the designs; S1 +signed; "
                       "S2 +/ %; S3 +widths 65..300; S4 +warnings, unreset registers, constant-only operands), 4-8 clock cycles of "
                       "boundary-biased stimuli incl. mid-run resets, every Config::all() engine in a worker process; reply = "
                       "per-engine trace of all output ports after every step + $display text; compared with Sim.run (Lean) and "
                       "with each other; distinct = distinct (design+stimulus, reply) pairs")
    if not harness_build(ctx):
        return
    t0 = time.time()
    verify_witnesses(ctx)
    ctx.cov["witness_replay_s"] = round(time.time() - t0, 1)
    failing = corpus(ctx)
    # S0 gets (more than) half of the quick budget and must be failure-free; the cc backend compiles
    # every design with `cc -O3` (seconds), so it runs on its own smaller chunks.
    quick = ctx.tier != "thorough"
    nocc = "i2,j2,i4,j4"
    if quick:
        plan = [(0, 8, 16, nocc, "mix"), (0, 4, 5, None, "mix")]
    else:
        plan = [(0, 8, 60, nocc, "mix"), (0, 8, 12, None, "mix"),
                (1, 4, 30, nocc, "mix"), (2, 4, 30, nocc, "mix"), (3, 4, 30, nocc, "mix"), (4, 4, 30, nocc, "mix"),
                (1, 2, 8, None, "mix"), (2, 2, 8, None, "mix"), (3, 2, 8, None, "mix"), (4, 2, 8, None, "mix")]
    failing += run_plan(ctx, plan, "gen")
    t1 = time.time()
    report_failures(ctx, failing)
    ctx.cov["shrink_s"] = round(time.time() - t1, 1)
    if not ok and not any(not ni for _, _, ni in ctx.violations):
        proof_broken(ctx, "VerylModel.Props.C02 no longer checks")
