"""C34 — reusing converted modules across tests is invisible."""
import json
import os
import random
import shutil
import time

from vlib import *
import proj

LEVEL = "proof"
THEOREMS = [
    # the name-keyed ProtoModuleCache
    "cache_hit_eq_miss", "cache_hit_eq_miss_from", "cache_stale_across_irs",
    # relocation by one (ff, comb) delta
    "relocation_commutes_shift", "relocation_commutes", "chunk_frame", "relocation_alias_false",
    # alias decision: precomputed recurring set vs first-seer fallback
    "alias_decision_deterministic", "alias_first_seer_order_dependent",
    # compute_recurring_set_inner = "under two differently named tops", for every order of the tops
    "recurring_set_spec", "recurring_set_order_independent",
]


def _replay_file(ctx):
    path = ctx.replay
    if path.endswith(".json"):
        with open(path) as fh:
            body = json.load(fh)
        path = f"{ctx.run_dir}/replay-ops.txt"
        with open(path, "w") as fh:
            fh.write("\n".join(body.get("ops", [])) + "\n")
    return path


# ---------------------------------------------------------------------------------------------
# CLI part: `veryl test` on generated projects, VERYL_DUT_REUSE=1 vs 0
# ---------------------------------------------------------------------------------------------

TOML = """[project]
name    = "reuse"
version = "0.1.0"

[build]
clock_type = "posedge"
reset_type = "async_low"
sources    = ["src"]

[test]
"""


def core_src(rng):
    upd = rng.choice(["a + K", "a ^ K", "(a << 1) + K", "a - K"])
    accu = rng.choice(["acc ^ mem[p]", "acc + mem[p]", "(acc << 1) ^ mem[p]"])
    outp = rng.choice(["m ^ K", "m + 1", "~m"])
    return f"""module Core #(
    param W: u32 = 8,
    param K: u32 = 3,
    param D: u32 = 16,
) (
    clk: input  clock   ,
    rst: input  reset   ,
    a  : input  logic<W>,
    y  : output logic<W>,
) {{
    var mem: logic<W> [D];
    var p  : logic<8>;
    var acc: logic<W>;
    always_ff {{
        if_reset {{
            p   = 0;
            acc = 0;
        }} else {{
            mem[p] = {upd};
            if p == D - 1 {{
                p = 0;
            }} else {{
                p = p + 1;
            }}
            acc = {accu};
        }}
    }}
    let m: logic<W> = acc + a;
    assign y = {outp};
}}
"""


def gen_native_project(rng):
    """Several native testbenches sharing `Core` (different parameters, different offsets, twice in one
    parent, inside `Mid` under different parents)."""
    pool = [(rng.choice([8, 16, 32]), rng.randint(1, 15), rng.choice([4, 16, 40, 64])) for _ in range(2)]
    pm, pm2 = rng.choice(pool), rng.choice(pool)
    src = core_src(rng)
    src += f"""module Mid (
    clk: input  clock    ,
    rst: input  reset    ,
    a  : input  logic<32>,
    y0 : output logic<32>,
    y1 : output logic<32>,
) {{
    var h: logic<32>;
    always_ff {{
        if_reset {{
            h = 0;
        }} else {{
            h = h + a;
        }}
    }}
    var w0: logic<{pm[0]}>;
    var w1: logic<{pm2[0]}>;
    inst c0: Core #( W: {pm[0]}, K: {pm[1]}, D: {pm[2]} ) (clk, rst, a: a[{pm[0] - 1}:0], y: w0);
    inst c1: Core #( W: {pm2[0]}, K: {pm2[1]}, D: {pm2[2]} ) (clk, rst, a: h[{pm2[0] - 1}:0], y: w1);
    assign y0 = w0 as 32;
    assign y1 = w1 as 32;
}}
"""
    ntests = rng.randint(3, 6)
    names = []
    for i in range(ntests):
        name = f"t{i}"
        names.append(name)
        padw = rng.choice([1, 2, 7, 33, 94])
        shape = [rng.choice([0, 0, 1]) for _ in range(rng.randint(1, 3))]
        decl, insts, shows = "", "", []
        oi = 0
        for j, s in enumerate(shape):
            srcsig = "a" if j % 2 == 0 else "b"
            if s == 0:
                w, k, dd = rng.choice(pool)
                decl += f"    var v{j}: logic<{w}>;\n"
                insts += f"    inst u{j}: Core #( W: {w}, K: {k}, D: {dd} ) (clk: clk, rst: rst, a: {srcsig}[{w - 1}:0], y: v{j});\n"
                shows.append(f"v{j}")
            else:
                decl += f"    var y{oi}: logic<32>;\n    var y{oi + 1}: logic<32>;\n"
                insts += f"    inst u{j}: Mid (clk: clk, rst: rst, a: {srcsig}, y0: y{oi}, y1: y{oi + 1});\n"
                shows += [f"y{oi}", f"y{oi + 1}"]
                oi += 2
        fmt = " ".join(f"{s}=%h" for s in shows)
        body = ""
        for _ in range(rng.randint(2, 4)):
            body += f"        a = 32'h{rng.getrandbits(32):08x};\n        b = 32'h{rng.getrandbits(32):08x};\n"
            body += f"        clk.next({rng.randint(1, 9)});\n"
            body += f"        $display(\"{name} {fmt} pad=%h\", {', '.join(shows)}, padr[0]);\n"
        verdict = rng.choice(["pass", "pass", "fail"])
        check = f"$assert({shows[0]} != {shows[0]});" if verdict == "fail" else f"$assert({shows[0]} == {shows[0]});"
        src += f"""
#[test({name})]
module {name} {{
    inst clk: $tb::clock_gen;
    inst rst: $tb::reset_gen ( clk );
    var a   : logic<32>;
    var b   : logic<32>;
    var padr: logic<32> [{padw}];
{decl}    always_ff (clk, rst) {{
        if_reset {{
            padr[0] = 0;
        }} else {{
            padr[0] = padr[0] + a;
        }}
    }}
{insts}    initial {{
        a = 0;
        b = 0;
        rst.assert();
{body}        {check}
        $finish();
    }}
}}
"""
    return {"Veryl.toml": TOML, "src/suite.veryl": src}, names


def gen_doc_project(rng):
    """Doc tests only (no native test): `compute_recurring_set` is not called, the CLI takes the
    first-seer path."""
    d = rng.choice([64, 128, 300])
    src = f"""pub module Big (
    i_clk  : input  clock,
    i_rst_n: input  reset,
    i_din  : input  logic,
    o_dout : output logic,
) {{
    var mem: logic<8> [{d}];
    var p  : logic<16>;
    var r  : logic;
    always_ff {{
        if_reset {{
            p = 0;
            r = 0;
        }} else {{
            mem[p] = {{7'd0, i_din}};
            if p == {d - 1} {{
                p = 0;
            }} else {{
                p = p + 1;
            }}
            r = i_din;
        }}
    }}
    assign o_dout = r;
}}
"""
    waves = [("DocA", "0...1.0.1", "", "o_dout = w;"), ("DocB", "1...0.1.0", "", "o_dout = ~w;"), ("DocC", "0....1.0.", "2", "o_dout = w;")]
    rng.shuffle(waves)
    for name, wave, chain, outexpr in waves:
        src += f"""
/// {name}
///
/// ```wavedrom,test
/// {{signal: [
///   {{name: 'clk',   wave: 'p........'}},
///   {{name: 'rst_n', wave: '0.1......'}},
///   {{name: 'din',   wave: '0.01.0.1.'}},
///   {{name: 'dout',  wave: '{wave}'}}
/// ]}}
/// ```
pub module {name} (
    i_clk  : input  clock,
    i_rst_n: input  reset,
    i_din  : input  logic,
    o_dout : output logic,
) {{
    var w: logic;
"""
        if chain:
            src += "    var w1: logic;\n    inst b0: Big (i_clk, i_rst_n, i_din, o_dout: w1);\n    inst b1: Big (i_clk, i_rst_n, i_din: w1, o_dout: w);\n"
        else:
            src += "    inst b0: Big (i_clk, i_rst_n, i_din, o_dout: w);\n"
        src += f"    always_comb {{\n        {outexpr}\n    }}\n}}\n"
    return {"Veryl.toml": TOML, "src/doc.veryl": src}, [w[0] for w in waves]


def canonical_report(out):
    """(summary, sorted per-test (name, status, message, output)) of a `--format json` run, or the raw tail."""
    i = out.find("{\n")
    try:
        rep = json.loads(out[i:]) if i >= 0 else None
    except ValueError:
        rep = None
    if rep is None:
        return None
    tests = sorted((t.get("name"), t.get("status"), (t.get("message") or "").strip(), t.get("output") or "") for t in rep.get("tests", []))
    return {"passed": rep.get("passed"), "failed": rep.get("failed"), "tests": tests}


def cli_part(ctx):
    rng = random.Random(ctx.seed ^ 0x3434)
    nproj = tier_n(ctx, 3, 40)
    t_start = time.time()
    root = proj.scratch_dir("c34")
    home = f"{root}/home"
    os.makedirs(home, exist_ok=True)
    compared = 0
    verdicts = {"pass": 0, "fail": 0, "error": 0}
    try:
        projects = []
        for pi in range(nproj):
            doc = (pi % 3 == 1)
            files, names = gen_doc_project(rng) if doc else gen_native_project(rng)
            pdir = f"{root}/p{pi}"
            for rel, text in files.items():
                os.makedirs(os.path.dirname(f"{pdir}/{rel}"), exist_ok=True)
                with open(f"{pdir}/{rel}", "w") as fh:
                    fh.write(text)
            projects.append((pi, doc, files, pdir, rng.choice(["0", "256"])))
        # (project, backend) pairs; quick tier: the default JIT on a native and on a doc-test-only project first
        if ctx.tier == "quick":
            jobs = [(0, "cranelift"), (1, "cranelift"), (0, "cc"), (2, "cranelift"), (2, "interpret")]
        else:
            jobs = [(pi, be) for pi in range(nproj) for be in ("cranelift", "interpret", "cc")]
        for pi, be in jobs:
            if pi >= len(projects):
                continue
            _, doc, files, pdir, minb = projects[pi]
            if True:
                # quick tier: no new pair is started once the CLI part has used its time budget (>= 2 pairs always run)
                if ctx.tier == "quick" and compared >= 2 and time.time() - t_start > 55:
                    ctx.cov.setdefault("distribution", {})["cli.stopped_early_on_time_budget"] = 1
                    break
                reps = {}
                for reuse in ("0", "1"):
                    shutil.rmtree(f"{pdir}/.build", ignore_errors=True)   # no test_timings: deterministic dispatch order
                    rc, out = proj.run_veryl(pdir, ["test", "--format", "json", "--seed", "7", "--backend", be], home,
                                             extra_env={"VERYL_DUT_REUSE": reuse, "VERYL_DUT_REUSE_MIN_BYTES": minb})
                    reps[reuse] = (rc, canonical_report(out), out)
                compared += 1
                (rc0, r0, o0), (rc1, r1, o1) = reps["0"], reps["1"]
                label = f"project {pi} ({'doc tests only' if doc else 'native tests'}) backend={be}"
                if r0 is None:
                    # the from-scratch run itself produced no report: generator problem, not a reuse problem
                    ctx.violation(f"c34 cli: {label}: `veryl test` without reuse produced no JSON report (generator broken?)",
                                  {"kind": "no-report", "files": files, "out": o0[-3000:]}, no_input=True, kind="model!=impl")
                    continue
                for t in r0["tests"]:
                    verdicts[t[1]] = verdicts.get(t[1], 0) + 1
                ctx.distinct(("cli", json.dumps(r0, sort_keys=True)))
                if r1 != r0 or rc0 != rc1:
                    body = {"kind": "impl!=oracle", "what": "veryl test --format json --seed 7 with VERYL_DUT_REUSE=1 vs =0",
                            "backend": be, "VERYL_DUT_REUSE_MIN_BYTES": minb, "files": files, "report_reuse0": r0, "report_reuse1": r1 if r1 is not None else o1[-3000:],
                            "exit_codes": [rc0, rc1],
                            "replay": "write `files` into a directory, run `veryl test --format json --seed 7 --backend <backend>` "
                                      "with VERYL_DUT_REUSE=0 and =1 (and the VERYL_DUT_REUSE_MIN_BYTES given), compare tests[].{name,status,message,output}"}
                    ctx.violation(f"c34 cli: {label}: verdicts/reports differ between VERYL_DUT_REUSE=1 and =0", body, kind="impl!=oracle")
                if len(ctx.cov["samples"]) < 6 and pi < 2 and be == "cranelift":
                    ctx.sample({"cli_project": pi, "tests": [(t[0], t[1]) for t in r0["tests"]]})
    finally:
        shutil.rmtree(root, ignore_errors=True)
    ctx.cov.setdefault("distribution", {})["cli.projects"] = nproj
    ctx.cov["distribution"]["cli.compared_pairs"] = compared
    for k, v in verdicts.items():
        ctx.cov["distribution"][f"cli.verdict.{k}"] = v
    ctx.cov["evaluations"] += compared
    ctx.cov["traces_validated_against_impl"] += compared


# ---------------------------------------------------------------------------------------------

def run(ctx):
    ok = lean_check(ctx, "VerylModel.Props.C34", THEOREMS)
    ctx.cov["trusted_base"] = [
        "Lean 4.33 kernel; axioms ⊆ {propext, Classical.choice, Quot.sound}",
        "hypotheses, checked per run and not proved of the converter: one analyzer IR (and one Config) serves the whole life of a "
        "ProtoModuleCache; a converted child's statements address its state only relative to the instance base once the boundary is "
        "de-aliased (the `reloc`/`twin`/`layout` lines test exactly this on the real IR)",
        "the hierarchy model of recurring_set_spec (one body per Arc<Component>: consKids) is my reading of air::Ir; the Rust walker is "
        "transcribed by hand (walkOne/markOne) and exercised end to end only (`layout … same` across test orders)",
        "harness/src/dom_reuse.rs, checks/c34.py (project generator, report canonicalisation) + tools/vlib.py, tools/proj.py"]
    ctx.cov["rule"] = ("API: generated suites of 3–5 top modules sharing `Core` (two parameter sets; directly, twice in one parent, inside "
                       "`Mid`; behind 4–376 bytes of padding state) — every test alone from scratch with the interpreter (oracle) vs the "
                       "same tests in 5 orders (identity, reverse, 2 shuffles, every test twice) through one ProtoModuleCache, with "
                       "Config::dut_reuse + compute_recurring_set (the CLI path) and with dut_reuse without it (first-seer fallback), "
                       "one process per sequence; engines interpreter/Cranelift/cc. Every third suite (the first included) is of the `reads` family: "
                       "3–4 tops with an IDENTICAL comb part (same lets/assigns, same layout, same comb-pipeline fingerprint) whose two "
                       "always_ff blocks read different comb signals of it (c1 only / c2 only / both / neither), so a cached comb pipeline "
                       "with its dead-variable set must not serve a top that reads what the first one left dead. Compared: port traces per test; variable layout and "
                       "full state per test across orders; DUT-internal bytes of twin tops; second-instance offsets vs the model's "
                       "single-delta prediction. CLI: generated projects with native testbenches (and doc-test-only projects), "
                       "`veryl test --format json --seed 7` with VERYL_DUT_REUSE=1 vs 0, canonical reports equal")
    if not harness_build(ctx):
        return
    args = ["--seed", ctx.seed, "--n", tier_n(ctx, 12, 200), "--cycles", tier_n(ctx, 8, 14), "--par", 4,
            "--budget-s", tier_n(ctx, 50, 3000), "--min-n", 2, "--thorough", tier_n(ctx, 0, 1)]
    if getattr(ctx, "replay", None):
        args = ["--replay", _replay_file(ctx), "--cycles", tier_n(ctx, 8, 14), "--par", 4]
    rc, out, d = run_hx(ctx, "reuse", args, timeout=tier_n(ctx, 1500, 7200))
    if rc != 0:
        ctx.violation(f"harness domain reuse crashed (rc={rc})", {"kind": "harness-crash", "log": out[-4000:]},
                      no_input=True, kind="model!=impl")
        return
    mrc, err = run_model("reuse", d)
    if mrc != 0:
        ctx.log(f"vmodel reuse rc={mrc}: {err[-500:]}")
    n, mism = diff3(d)
    stats = load_stats(d)
    ctx.cov["evaluations"] += n
    ctx.cov["traces_validated_against_impl"] += int(stats.get("tests", 0))
    ctx.cov["distribution"] = {k: v for k, v in stats.items() if k != "samples"}
    for s in stats.get("samples", []):
        ctx.sample(s[:1500])
    ops = read_lines(f"{d}/ops.txt") or []
    imp = read_lines(f"{d}/impl.txt") or []
    for o, r in zip(ops, imp):
        if o.startswith("test ") or o.startswith("reloc "):
            ctx.distinct((o.split()[0], r))
    if int(stats.get("suites", 0)) == 0:
        ctx.violation("reuse: no generated suite was accepted (generator broken?)", {"kind": "no-coverage", "stats": stats},
                      no_input=True, kind="model!=impl")
    seen = set()
    for m in mism:
        op = m["op"].split()
        kind = m["kind"]
        label = op[1] if op[0] in ("test", "layout", "twin", "suite") else "(reloc)"
        mode = next((t[5:] for t in op if t.startswith("mode=")), "")
        k = (label, op[0], mode, kind)
        if k in seen or len(seen) >= 8:
            continue
        seen.add(k)
        body = {"kind": kind, "domain": "reuse", "first_difference": m, "seed": ctx.seed, "ops": [f"suite {label}"],
                "replay": f"{HX} reuse --replay <file containing the line `suite {label}`> --out DIR ; {VMODEL} reuse < DIR/ops.txt ; "
                          f"`{HX} reuse --dump {label} --out DIR` writes the suite's Veryl text"}
        if kind == "impl!=oracle":
            key = None
            if mode == "reusefs":
                # non-CLI callers only (Config::dut_reuse without compute_recurring_set)
                key = f"reuse:first-seer:{op[0]}"
            ctx.violation(f"reuse: suite {label}: `{m['op'][:150]}`: impl={m['impl'][:100]} expected={(m['oracle'] or '')[:100]}",
                          body, key=key, kind=kind)
        else:
            body["correspondence"] = "vmodel reuse vs hx reuse"
            ctx.violation(f"reuse: model/implementation correspondence broken at `{m['op'][:160]}`: impl={m['impl'][:120]} "
                          f"model={(m['model'] or '')[:120]}", body, no_input=True, kind="model!=impl")
    # CLI
    if cli_build(ctx):
        cli_part(ctx)
    if not ok:
        if not any(not ni for _, _, ni in ctx.violations):
            proof_broken(ctx, "VerylModel.Props.C34 no longer checks")
