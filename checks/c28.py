"""C28 — the pretty printer keeps content and records true anchors.

Proof: Props/C28.lean over M-Pretty (Core/Pretty.lean), for all Doc trees × RenderOpts.
Correspondence: `hx pretty` renders random Doc trees and the real Formatter/Emitter Docs of
/repo/testcases/veryl with the real `render_with_anchors`; `vmodel pretty` renders the same requests
with the Lean model; replies are compared byte for byte (`render` lines). Property oracle: `prop`
lines carry verdicts computed by the harness on the REAL output (anchors point at their text, content
in document order, anchors sorted) — model-independent.
"""
import glob
import os

from vlib import *

LEVEL = "proof"
THEOREMS = ["render_terminates", "content_in_order", "strip_removes_only_blanks", "break_only_iff_broken",
            "blank_anchor_witness", "anchor_true_false", "old_multiline_comment_anchor_false",
            "multiline_comment_pos_fixed", "anchor_true_core", "anchor_true_partial", "anchor_true_no_truncation",
            "anchors_sorted", "nonws_opts_invariant", "newline_only", "newline_only_stripped_partial",
            "only_trailing_ws_trimmed", "fits_flat_sound_partial", "fits_flat_sound_false"]

ALL_OK = "anchors=ok content=ok sorted=ok"
# anchor-failure signature (established per failing anchor by the harness, see prop_verdicts in
# harness/src/dom_pretty.rs) -> key of the known finding
# (`mlbc`, the col=0-after-a-multi-line-block-comment defect of render_comments, was repaired in /repo:
#  it has no key any more, a recurrence is a VIOLATION; its old witness is in corpus/C28/seed.txt.)
KEYS = {"blank": "render:blank-anchor-past-eol-after-trailing-space-removal"}
# minimal witness of the known anchor defect; replayed first on every run
WITNESS = {"blank": "prop 50 4 0a 0 (c,(t,78),(p,4),(a,,1,1),(dh,1))"}


# ---- S-expressions of the protocol (for shrinking) ---------------------------------------------

def parse_sexp(s):
    """'(c,(t,61),(h))' -> ['c', ['t','61'], ['h']]; atoms are strings."""
    stack, cur, atom = [], None, None
    for ch in s:
        if ch == "(":
            stack.append(cur)
            cur, atom = [], ""
        elif ch == ")":
            if atom is not None:
                cur.append(atom)
            done, cur, atom = cur, stack.pop(), None
            if cur is None:
                return done
            cur.append(done)
        elif ch == ",":
            if atom is not None:
                cur.append(atom)
            atom = ""
        else:
            atom = (atom or "") + ch
    raise ValueError("unbalanced")


def show_sexp(t):
    return t if isinstance(t, str) else "(" + ",".join(show_sexp(x) for x in t) + ")"


def size(t):
    return 1 if isinstance(t, str) else 1 + sum(size(x) for x in t[1:] if not isinstance(x, str))


def children_idx(t):
    return [i for i in range(1, len(t)) if not isinstance(t[i], str)]


def candidates(t):
    """Smaller documents: a subtree replaced by Nil, a node replaced by one of its children, an
    element of a Concat/Comments list dropped. Yields trees (structure shared, never mutated)."""
    if isinstance(t, str):
        return
    if t[0] != "k":
        if t != ["n"]:
            yield ["n"]
        for i in children_idx(t):
            if t[0] != "cm":
                yield t[i]
    if t[0] in ("c", "cm"):
        for i in children_idx(t):
            if not (t[0] == "cm" and len(t) == 2):
                yield t[:i] + t[i + 1:]
    if t[0] == "cm" and len(t) == 1:
        return
    for i in children_idx(t):
        for c in candidates(t[i]):
            yield t[:i] + [c] + t[i + 1:]


def verdict_class(v):
    """'anchors=BAD:mlbc:3 content=ok sorted=ok' -> ('anchors=BAD:mlbc', 'content=ok', 'sorted=ok')."""
    out = []
    for f in v.split(" "):
        out.append(f.rsplit(":", 1)[0] if f.startswith("anchors=BAD:") else f)
    return tuple(out)


def replay_lines(ctx, lines, tag):
    """Run request lines through the real renderer and the model. Returns (impl, model) lists."""
    d = f"{ctx.run_dir}/{tag}"
    os.makedirs(d, exist_ok=True)
    with open(f"{d}/replay.txt", "w") as fh:
        fh.write("\n".join(lines) + "\n")
    rc, out, _ = run_hx(ctx, "pretty", ["--replay", f"{d}/replay.txt"], out_dir=d)
    if rc != 0:
        return None, None
    run_model("pretty", d)
    return read_lines(f"{d}/impl.txt"), read_lines(f"{d}/model.txt")


def shrink(ctx, args, doc, fails, tag, max_passes=60, max_cands=600):
    """Greedy subtree dropping. `fails(impl_render, model_render, impl_prop)` is the predicate that
    must keep holding; one harness+model run per pass (all candidates of the pass in one batch)."""
    tree = parse_sexp(doc)
    for _ in range(max_passes):
        cands = sorted(candidates(tree), key=size)
        seen, uniq = set(), []
        for c in cands:
            s = show_sexp(c)
            if s not in seen:
                seen.add(s)
                uniq.append(c)
        if len(uniq) > max_cands:
            step = len(uniq) / max_cands
            uniq = [uniq[int(i * step)] for i in range(max_cands)]
        lines = []
        for c in uniq:
            lines.append(f"render {args} {show_sexp(c)}")
            lines.append(f"prop {args} {show_sexp(c)}")
        if not lines:
            break
        imp, mod = replay_lines(ctx, lines, tag)
        if imp is None or mod is None or len(imp) != len(lines) or len(mod) != len(lines):
            break
        for k, c in enumerate(uniq):
            if fails(imp[2 * k], mod[2 * k], imp[2 * k + 1]):
                tree = c
                break
        else:
            break
    return show_sexp(tree)


def decode_reply(rep):
    """Human-readable form of a `render` reply for the replay file."""
    try:
        txt, anch = rep.split("|")
        out = {"text": bytes.fromhex(txt).decode("utf-8", "replace"), "anchors": []}
        for a in [x for x in anch[1:-1].split(",") if x]:
            l, c, sl, sc, h = a.split(":")
            out["anchors"].append({"dst": [int(l, 16), int(c, 16)], "src": [int(sl, 16), int(sc, 16)],
                                   "text": bytes.fromhex(h).decode("utf-8", "replace")})
        return out
    except Exception:
        return {"raw": rep[:400]}


def listed(ctx, key):
    return any(f.get("kind") == "known" and f.get("key") == key for f in ctx.findings)


def split_req(op):
    kind, rest = op.split(" ", 1)
    args, doc = rest.rsplit(" ", 1)
    return kind, args, doc


def process(ctx, d, label, budget):
    """Diff one run directory; classify, shrink and report."""
    n, mism = diff3(d)
    ops = read_lines(f"{d}/ops.txt") or []
    imp = read_lines(f"{d}/impl.txt") or []
    ctx.cov["evaluations"] += n
    for o, r in zip(ops, imp):
        if o.startswith("hyp "):
            ctx.cov.setdefault("hypotheses_hold", {}).setdefault(label, {})
            for f in r.split(" "):
                if f.endswith("=1"):
                    hh = ctx.cov["hypotheses_hold"][label]
                    hh[f[:-2]] = hh.get(f[:-2], 0) + 1
    for o in ops:
        if o.startswith("render "):
            ctx.distinct(o)
    stats = load_stats(d)
    for k, v in stats.items():
        if k != "samples":
            ctx.cov.setdefault("distribution", {})[f"{label}.{k}"] = v
    for s in stats.get("samples", []):
        ctx.sample(s[:400])
    ctx.cov["traces_validated_against_impl"] += sum(1 for o in ops if o.startswith("render "))
    per_class = {}
    for m in mism:
        if m["op"] == "(stream length)" or m["impl"] == "(model stream ended)":
            ctx.violation(f"pretty[{label}]: reply streams differ in length ({m})", {"kind": "model!=impl", "detail": m},
                          no_input=True, kind="model!=impl")
            return
        if m["kind"] == "impl!=oracle":
            cls = verdict_class(m["impl"])
        else:
            cls = (m["kind"],)
        per_class.setdefault(cls, []).append(m)
    for cls, ms in sorted(per_class.items()):
        kind = ms[0]["kind"]
        # which known finding (if any) does this class belong to? only pure anchor failures whose
        # EVERY failing anchor carries a known signature
        sigs = []
        if kind == "impl!=oracle" and len(cls) == 3 and cls[0].startswith("anchors=BAD:") and cls[1:] == ("content=ok", "sorted=ok"):
            sigs = cls[0][len("anchors=BAD:"):].split("+")
        keys = [KEYS.get(s) for s in sigs]
        known = bool(keys) and all(k is not None and listed(ctx, k) for k in keys)
        if known:
            # signature established per case by the harness; every case counts, none needs a replay
            for m in ms:
                for k in keys:
                    ctx.violation("", "", key=k, kind="impl!=oracle")
            continue
        for m in ms[:budget]:
            kindw, args, doc = split_req(m["op"])
            if kind == "impl!=oracle" and len(sigs) > 1:
                # several signatures at once: shrink towards ONE of them (an unknown one first)
                target = "other" if "other" in sigs else sigs[0]

                def same(ir, mr, ip, target=target):
                    c2 = verdict_class(ip)
                    return (len(c2) == 3 and c2[0].startswith("anchors=BAD:") and c2[1:] == cls[1:]
                            and target in c2[0][len("anchors=BAD:"):].split("+"))
                small = shrink(ctx, args, doc, same, f"shrink-{label}")
            elif kind == "impl!=oracle":
                small = shrink(ctx, args, doc, lambda ir, mr, ip: verdict_class(ip) == cls, f"shrink-{label}")
            elif kindw == "hyp":
                small = doc   # side-condition flags differ: the request itself is the replay
            else:
                small = shrink(ctx, args, doc, lambda ir, mr, ip: ir != mr, f"shrink-{label}")
            lines = [f"render {args} {small}", f"prop {args} {small}", f"hyp {args} {small}"]
            ri, rm = replay_lines(ctx, lines, f"final-{label}")
            ri = ri or ["?", "?", "?"]
            rm = rm or ["?", "?", "?"]
            body = {"kind": kind, "domain": "pretty", "ops": lines, "impl": ri, "model": rm,
                    "oracle": ["?", ALL_OK], "rendered_by_impl": decode_reply(ri[0]),
                    "original_request_chars": len(m["op"]), "seed": ctx.seed,
                    "replay": f"{HX} pretty --replay <file with the ops> --out DIR ; {VMODEL} pretty < DIR/ops.txt"}
            if kind == "impl!=oracle":
                # re-establish the signature on the shrunk case
                cls2 = verdict_class(ri[1])
                key = None
                if len(cls2) == 3 and cls2[0].startswith("anchors=BAD:") and cls2[1:] == ("content=ok", "sorted=ok"):
                    s2 = cls2[0][len("anchors=BAD:"):].split("+")
                    if len(s2) == 1 and s2[0] in KEYS:
                        key = KEYS[s2[0]]
                ctx.violation(f"pretty[{label}]: C28 fails on the real renderer: {ri[1]} for `{lines[1][:300]}`",
                              body, key=key, kind=kind)
            else:
                body["correspondence"] = "vmodel pretty vs hx pretty (render.rs)"
                k = 2 if kindw == "hyp" else 0
                ctx.violation(f"pretty[{label}]: model/implementation correspondence broken: impl={ri[k][:120]} "
                              f"model={rm[k][:120]} for `{lines[k][:300]}`", body, no_input=True, kind=kind)


def run_domain(ctx, args, label, budget=3):
    rc, out, d = run_hx(ctx, "pretty", args, out_dir=f"{ctx.run_dir}/{label}")
    if rc != 0:
        ctx.violation(f"harness domain pretty ({label}) crashed (rc={rc})", {"kind": "harness-crash", "log": out[-4000:]},
                      no_input=True, kind="model!=impl")
        return
    mrc, err = run_model("pretty", d)
    if mrc != 0:
        ctx.log(f"vmodel pretty rc={mrc}: {err[-500:]}")
    process(ctx, d, label, budget)


def run(ctx):
    ok = lean_check(ctx, "VerylModel.Props.C28", THEOREMS)
    ctx.cov["trusted_base"] = [
        "Lean 4.33 kernel; axioms ⊆ {propext, Classical.choice, Quot.sound}",
        "Core/Pretty.lean is a hand-written model of crates/pretty/src/render.rs (tied to the code by the byte-for-byte "
        "differential on every run); integer overflow of u32/usize/i32 counters is not modelled",
        "Rust str::split / trim_end_matches / matches / rsplit / chars behave as documented",
        "harness/src/dom_pretty.rs (generator, S-expression codec, property oracle) + checks/c28.py + tools/vlib.py",
        "verif_tap hook in crates/pretty/src/render.rs (cfg veryl_verif) records the Docs the Formatter/Emitter build"]
    ctx.cov["rule"] = ("one evaluation = one request line (render: real text+anchors vs Lean model, byte for byte; prop: "
                       "C28 verdicts on the real output vs all-ok); random Doc trees (15 constructors, depth<=6, comments "
                       "with leading newlines / multi-line block comments, multi-byte text, pads, negative indents, 5% exotic "
                       "stream) x RenderOpts (max_width 0..120, indent 0..8, LF/CRLF, strip on/off) + every Doc the real "
                       "Formatter/Emitter build for testcases/veryl under 3 option sets; distinct = distinct render requests")
    if not harness_build(ctx):
        return
    # 1. corpus: known witnesses and past disagreements
    for sig, line in WITNESS.items():
        imp, mod = replay_lines(ctx, ["render" + line[4:], line], f"witness-{sig}")
        if imp is None:
            ctx.violation("harness crashed on a witness", {"kind": "harness-crash", "line": line}, no_input=True, kind="model!=impl")
            continue
        ctx.cov["evaluations"] += 2
        if imp[0] != mod[0]:
            ctx.violation(f"pretty[witness {sig}]: model and implementation differ on the recorded witness: impl={imp[0]} model={mod[0]}",
                          {"kind": "model!=impl", "ops": [line], "impl": imp, "model": mod}, no_input=True, kind="model!=impl")
        if imp[1] == ALL_OK:
            ctx.notes.append(f"known finding {KEYS[sig]}: its witness `{line}` no longer fails on the current tree "
                             "(the entry suppresses nothing now)")
        elif verdict_class(imp[1]) == (f"anchors=BAD:{sig}", "content=ok", "sorted=ok"):
            ctx.violation(f"pretty[witness]: anchor defect `{sig}` reproduced: {imp[1]} for `{line}`",
                          {"kind": "impl!=oracle", "domain": "pretty", "ops": [line], "impl": imp[1], "oracle": ALL_OK,
                           "rendered_by_impl": decode_reply(imp[0])}, key=KEYS[sig], kind="impl!=oracle")
        else:
            ctx.violation(f"pretty[witness {sig}]: unexpected verdict {imp[1]} for `{line}`",
                          {"kind": "impl!=oracle", "ops": [line], "impl": imp[1], "oracle": ALL_OK}, kind="impl!=oracle")
    for f in sorted(glob.glob(f"{ROOT}/corpus/C28/*.txt")):
        d = f"{ctx.run_dir}/corpus-{os.path.basename(f)[:-4]}"
        rc, out, d = run_hx(ctx, "pretty", ["--replay", f], out_dir=d)
        if rc == 0:
            run_model("pretty", d)
            process(ctx, d, "corpus", 3)
    # 2. random documents, 3. real documents
    run_domain(ctx, ["--seed", ctx.seed, "--n", tier_n(ctx, 3000, 100000)], "random")
    run_domain(ctx, ["--seed", ctx.seed, "--real", 1, "--real-n", tier_n(ctx, 20, 100000)], "real")
    if not ok:
        if not any(not ni for _, _, ni in ctx.violations):
            proof_broken(ctx, "VerylModel.Props.C28 no longer checks")
