"""C18 — run-time operator evaluation matches the reference at every width.

Part A: the multi-word helpers `wide_*` of crates/simulator/src/wide_ops.rs (proved correct in
Lean for every word count; tied to the real functions by the differential domain `wide`).
Part B: single- and multi-operator expressions over ports of widths 1..300 under every engine of
`Config::all()` against (i) the Lean IEEE 1800 reference evaluator (`vmodel exprref`) and (ii) the
analyzer's compile-time evaluation of the same expression with literal operands."""
import json
import os

from vlib import *

LEVEL = "proof"
THEOREMS = [
    "wide_add_toNat", "wide_sub_toNat", "wide_negate_toNat", "wide_mul_toNat", "wide_mul_no_u128_overflow",
    "wide_shl_toNat", "wide_lshr_toNat", "wide_ashr_bits", "wide_ashr_toNat",
    "wide_ucmp_spec", "wide_scmp_spec", "wide_scmp_asym_spec", "wide_eq_ne_spec",
    "wide_resize_toNat", "wide_resize_zero_width",
    "wide_is_all_ones_spec", "wide_is_nonzero_spec", "wide_popcnt_parity_spec",
    "wide_apply_mask_toNat", "wide_apply_mask_width0_false", "wide_fill_ones_toNat",
    "wide_bitwise_toNat", "wide_bitwise_not_toNat", "wide_copy_eq", "unpack_pack_nb_width",
    "exprref_eval_lt", "exprref_assign_lt",
]
WIDE_FNS = ["resize", "band", "bor", "bxor", "bxor_not", "band_not", "bnot", "add", "sub", "mul", "negate", "copy", "eq",
            "ne", "ucmp", "scmp", "scmp_asym", "shl", "lshr", "ashr", "is_nonzero", "is_all_ones", "popcnt_parity",
            "apply_mask", "fill_ones"]


def exported_wide_fns():
    """The `pub unsafe extern "C" fn wide_*` of wide_ops.rs (source text): every one must be exercised."""
    with open(f"{REPO}/crates/simulator/src/wide_ops.rs") as fh:
        src = fh.read()
    return sorted(set(re.findall(r'pub unsafe extern "C" fn wide_(\w+)\s*\(', src)))


def line_differential(ctx, domain, args, what, max_report=4):
    """Each request line is independent: a mismatching line is its own minimal replay."""
    rc, out, d = run_hx(ctx, domain, args)
    if rc != 0:
        ctx.violation(f"harness domain {domain} crashed (rc={rc})", {"kind": "harness-crash", "log": out[-4000:]},
                      no_input=True, kind="model!=impl")
        return None
    mrc, err = run_model(domain, d)
    if mrc != 0:
        ctx.log(f"vmodel {domain} rc={mrc}: {err[-500:]}")
    n, mism = diff3(d)
    stats = load_stats(d)
    ctx.cov["evaluations"] += n
    ctx.cov["traces_validated_against_impl"] += n
    for k, v in stats.items():
        if k != "samples":
            ctx.cov.setdefault("distribution", {})[f"{domain}.{k}"] = v
    for s in stats.get("samples", [])[:3]:
        ctx.sample(s)
    ops = read_lines(f"{d}/ops.txt") or []
    imp = read_lines(f"{d}/impl.txt") or []
    for o, r in zip(ops, imp):
        if r != "bad-op":
            ctx.distinct((o, r))
    reported = {}
    for m in mism:
        op = m["op"].split(" ")[0]
        k = (op, m["kind"])
        reported[k] = reported.get(k, 0) + 1
        if reported[k] > 1 or len(reported) > max_report:
            continue
        body = {"kind": m["kind"], "domain": domain, "ops": [m["op"]], "impl": m["impl"], "model": m["model"],
                "oracle": m["oracle"], "seed": ctx.seed,
                "replay": f"{HX} {domain} --replay <file with the line> --out DIR ; {VMODEL} {domain} < DIR/ops.txt"}
        if m["kind"] == "impl!=oracle":
            ctx.violation(f"{what}: `{m['op'][:160]}` gives {m['impl'][:80]}, the property requires {m['oracle'][:80]}",
                          body, kind=m["kind"])
        else:
            ctx.violation(f"{what}: model/implementation correspondence broken at `{m['op'][:160]}`: "
                          f"impl={m['impl'][:80]} model={m['model'][:80] if m['model'] else None}", body, no_input=True,
                          kind=m["kind"])
    return stats


def part_a(ctx):
    t0 = time.time()
    fns = exported_wide_fns()
    ctx.cov["wide_fns_in_source"] = fns
    missing = [f for f in fns if f not in WIDE_FNS]
    if missing:
        ctx.violation(f"wide_ops.rs exports helpers that the model does not cover: {missing}",
                      {"kind": "model-incomplete", "missing": missing}, no_input=True, kind="model!=impl")
    stats = line_differential(ctx, "wide", ["--seed", ctx.seed, "--n", tier_n(ctx, 150000, 600000)],
                              "wide_ops helper")
    if stats is not None:
        unexercised = [f for f in fns if not stats.get(f"op.{f}")]
        if unexercised:
            ctx.violation(f"generator did not exercise {unexercised}", {"kind": "generator"}, no_input=True, kind="model!=impl")
    ctx.cov["part_a_s"] = round(time.time() - t0, 1)


ENGINE_CLASSES = {"i2": "interpreter 2-state", "i4": "interpreter 4-state", "j2": "Cranelift JIT 2-state",
                  "j4": "Cranelift JIT 4-state", "cc": "cc (AOT-C) backend", "ct": "analyzer compile-time evaluation",
                  "an": "analyzer (panics on the design)", "al": "some engine (process aborts only when all engines run together)"}


PAR = max(2, min(8, (os.cpu_count() or 4) // 2))
# the cc backend compiles every new design with `cc -O3` in a pool that is niced to 10 by default
HX_ENV = dict(ENV, VERYL_AOT_C_NICE="0")


def hx_parallel(ctx, jobs):
    """Run several `hx engexpr …` processes concurrently (at most PAR at a time).
    jobs: list of (out_dir, args). Returns list of (rc, output)."""
    import subprocess
    res = [None] * len(jobs)
    running = []
    todo = list(enumerate(jobs))
    while todo or running:
        while todo and len(running) < PAR:
            i, (d, args) = todo.pop(0)
            os.makedirs(d, exist_ok=True)
            p = subprocess.Popen([HX, "engexpr", "--out", d] + [str(a) for a in args], env=HX_ENV,
                                 stdout=subprocess.PIPE, stderr=subprocess.STDOUT, text=True)
            running.append((i, p))
        i, p = running.pop(0)
        out, _ = p.communicate()
        res[i] = (p.returncode, out)
    return res


def shrink_lines(ctx, lines, tag, budget=400):
    """`hx engexpr --shrink`: delta-debug each failing request line against `vmodel exprref`; returns
    a list of (status, key, witness_line, veryl_source) — status in ok / ok-dc / bad-op / fail."""
    if not lines:
        return []
    k = min(PAR, len(lines))
    parts = [lines[i::k] for i in range(k)]
    jobs = []
    for j, part in enumerate(parts):
        d = f"{ctx.run_dir}/{tag}-{j}"
        os.makedirs(d, exist_ok=True)
        with open(f"{d}/fails.txt", "w") as fh:
            fh.write("".join(l + "\n" for l in part))
        jobs.append((d, ["--shrink", f"{d}/fails.txt", "--vmodel", VMODEL, "--budget", budget]))
    outs = hx_parallel(ctx, jobs)
    by_line = {}
    for (d, _), part, (rc, out) in zip(jobs, parts, outs):
        got = read_lines(f"{d}/shrink.txt") or []
        if rc != 0 or len(got) != len(part):
            ctx.violation(f"hx engexpr --shrink failed (rc={rc})", {"kind": "harness-crash", "log": out[-3000:]}, no_input=True,
                          kind="model!=impl")
            for l in part:
                by_line[l] = ("error", None, l, "")
            continue
        for src_line, l in zip(part, got):
            m = re.match(r"key=(\S+) witness=(\S+) ;; (.*)$", l)
            if m:
                by_line[src_line] = ("fail", m.group(1), m.group(2).replace("|", " "), m.group(3).strip())
            else:
                st, _, rest = l.partition(" ")
                by_line[src_line] = (st, None, rest, "")
    return [by_line[l] for l in lines]


def verify_witnesses(ctx):
    """§2.7 (3): every recorded finding is replayed first; an entry whose witness no longer fails with
    its signature suppresses nothing."""
    ents = [f for f in ctx.findings if f.get("kind") == "known" and f.get("witness")]
    if not ents:
        return
    res = shrink_lines(ctx, [f["witness"] for f in ents], "witnesses", budget=60)
    stale = []
    for f, (st, key, _, _) in zip(ents, res):
        if st != "fail" or key != f.get("key"):
            stale.append(f)
            ctx.notes.append(f"known finding `{f.get('key')}`: its witness now gives `{key or st}` — the entry no longer "
                             f"suppresses anything")
            ctx.log(f"recorded witness of {f.get('key')} no longer reproduces (now: {key or st})")
    ctx.findings = [f for f in ctx.findings if f not in stale]
    ctx.cov["witnesses_replayed"] = len(ents)
    ctx.cov["witnesses_still_failing"] = len(ents) - len(stale)


def compare_chunk(ctx, level, d, failing, seen, st):
    """Engines and compile-time value of every line of one chunk against the reference."""
    run_model("exprref", d)
    ops, imp = read_lines(f"{d}/ops.txt") or [], read_lines(f"{d}/impl.txt") or []
    ora, mod = read_lines(f"{d}/oracle.txt") or [], read_lines(f"{d}/model.txt") or []
    if not (len(ops) == len(imp) == len(ora) == len(mod)):
        ctx.violation(f"engexpr S{level}: reply streams differ in length ({len(ops)},{len(imp)},{len(ora)},{len(mod)})",
                      {"kind": "stream-length"}, no_input=True, kind="model!=impl")
        return
    stats = load_stats(d)
    dist = ctx.cov.setdefault("distribution", {})
    for k, v in stats.items():
        if k != "samples" and not k.startswith("ms."):
            dist[f"S{level}.{k}"] = dist.get(f"S{level}.{k}", 0) + v
    for s in stats.get("samples", [])[:1]:
        ctx.sample(s)
    for o, i, c, m in zip(ops, imp, ora, mod):
        if i == "bad-op" or m == "bad-op":
            if i != m:
                ctx.violation(f"engexpr: harness and reference driver disagree on well-formedness of `{o}`",
                              {"kind": "model!=impl", "ops": [o], "impl": i, "model": m}, no_input=True, kind="model!=impl")
            continue
        ctx.cov["evaluations"] += 1
        if i.startswith("rejected:analyzer-panic@") and m != "div0":
            # the analyzer panics on the design itself: no engine can evaluate it
            bad = [("an", i[len("rejected:analyzer-"):])]
            t = o.split(" ")
            design = (t[2], t[3], t[4], t[5], t[9], tuple(bad))
            if design not in seen:
                seen.add(design)
                failing.append((level, o))
            continue
        if i.startswith("rejected"):
            st["rejected_lines"] += 1
            continue
        if m == "div0":
            st["dont_care_div0"] += 1
            continue
        st["lines_compared"] += 1
        ctx.distinct((o, i))
        bad = sorted(set((x.split("=")[0][:2], "value" if not x.split("=")[1].startswith(("panic", "err", "abort")) else x.split("=")[1])
                         for x in i.split(",") if x.split("=")[1] != m))
        if c != m and not c.startswith("rejected"):
            bad.append(("ct", "value" if not c.startswith(("panic", "err", "abort")) else c))
        if bad:
            t = o.split(" ")
            design = (t[2], t[3], t[4], t[5], t[9], tuple(bad))
            if design not in seen:
                seen.add(design)
                failing.append((level, o))


CORPUS = f"{ROOT}/corpus/C18"


def engine_jobs(ctx, plan, stim=4):
    """(stratum, chunks, designs per chunk) -> hx jobs. Chunk seeds do not depend on the tier, so the quick
    designs are a prefix of the thorough ones."""
    jobs, meta = [], []
    for level, chunks, n in plan:
        for j in range(chunks):
            d = f"{ctx.run_dir}/engexpr-S{level}-{j}"
            jobs.append((d, ["--seed", ctx.seed * 1000 + level * 100 + j, "--n", n, "--stratum", level, "--stim", stim]))
            meta.append((level, n, d))
    return jobs, meta


def corpus_jobs(ctx):
    """The committed regression corpus: request lines of designs on which every engine and the compile-time
    evaluator agree with the reference on the unchanged tree (independent of the seed)."""
    jobs, meta = [], []
    if os.path.isdir(CORPUS):
        for f in sorted(os.listdir(CORPUS)):
            m = re.match(r"s(\d)\S*\.txt$", f)
            if m:
                d = f"{ctx.run_dir}/corpus-{f[:-4]}"
                with open(f"{CORPUS}/{f}") as fh:
                    n = len(set(" ".join(l.split(" ")[2:6] + l.split(" ")[9:]) for l in fh.read().split("\n") if l))
                jobs.append((d, ["--replay", f"{CORPUS}/{f}"]))
                meta.append((int(m.group(1)), n, d))
    return jobs, meta


def collect_failing(ctx, jobs, meta, tag):
    """Run the jobs, compare every line with the reference; returns [(stratum, failing request line)]
    (one per design and failure pattern)."""
    t1 = time.time()
    outs = hx_parallel(ctx, jobs)
    ctx.cov[f"{tag}_run_s"] = round(time.time() - t1, 1)
    failing, seen = [], set()
    strata = ctx.cov.setdefault(f"{tag}_strata", {})
    for (level, n, d), (rc, out) in zip(meta, outs):
        st = strata.setdefault(f"S{level}", {"designs": 0, "lines_compared": 0, "dont_care_div0": 0, "rejected_lines": 0,
                                             "failing_designs": 0})
        if rc != 0:
            ctx.violation(f"harness domain engexpr crashed (rc={rc}, stratum S{level})", {"kind": "harness-crash", "log": out[-4000:]},
                          no_input=True, kind="model!=impl")
            continue
        st["designs"] += n
        before = len(failing)
        compare_chunk(ctx, level, d, failing, seen, st)
        st["failing_designs"] += len(failing) - before
    ctx.cov["traces_validated_against_impl"] += sum(s["lines_compared"] for s in strata.values())
    return failing


def report_failing(ctx, failing, tag):
    """Shrink + classify every failing design; one report per defect class / unclassified signature."""
    t2 = time.time()
    shrunk = shrink_lines(ctx, [l for _, l in failing], f"{tag}-shrink")
    ctx.cov[f"{tag}_shrink_s"] = round(time.time() - t2, 1)
    groups = {}
    for (level, line), (stt, key, wit, src) in zip(failing, shrunk):
        if stt != "fail":
            # not reproducible in a fresh process: report the original line
            ctx.violation(f"engexpr S{level}: `{line}` failed in the batch run but not when replayed alone ({stt})",
                          {"kind": "impl!=oracle", "ops": [line]}, key=None, kind="impl!=oracle")
            continue
        groups.setdefault(key, []).append((level, line, wit, src))
    hit = ctx.cov.setdefault("signatures_hit", {})
    for key, members in groups.items():
        hit[key] = hit.get(key, 0) + len(members)
        # one report per class: the smallest witness, the others listed in the replay file
        level, line, wit, src = min(members, key=lambda m: (len(m[2]), m[2]))
        body = {"kind": "impl!=oracle", "key": key, "witness": wit, "veryl": src, "original": line, "stratum": f"S{level}",
                "seed": ctx.seed, "designs_with_this_signature": len(members),
                "other_witnesses": sorted(set(m[2] for m in members) - {wit})[:20],
                "replay": f"{HX} engexpr --replay <file with the witness line> --out DIR ; {VMODEL} exprref < DIR/ops.txt "
                          f"(reference value) ; impl.txt lists every engine, oracle.txt the compile-time value"}
        ctx.violation(f"S{level}: deviation from the IEEE 1800 value on `{src}` [{wit}] — {key} ({len(members)} design(s))",
                      body, key=key, kind="impl!=oracle")


QUICK_PLAN = [(0, 8, 30)]
THOROUGH_PLAN = [(0, 8, 200), (1, 4, 150), (2, 4, 150), (3, 4, 150)]


def part_b(ctx):
    t0 = time.time()
    verify_witnesses(ctx)
    ctx.cov["witness_replay_s"] = round(time.time() - t0, 1)
    # 1. the regression corpus (seed independent), 2. the random search: S0 (failure-free up to the recorded
    # defect classes) gets most of the quick budget; the broad S1–S3 search belongs to the thorough tier
    cj, cm = corpus_jobs(ctx)
    failing = collect_failing(ctx, cj, cm, "corpus") if cj else []
    ej, em = engine_jobs(ctx, THOROUGH_PLAN if ctx.tier == "thorough" else QUICK_PLAN)
    failing += collect_failing(ctx, ej, em, "random")
    report_failing(ctx, failing, "all")


def run(ctx):
    ok = lean_check(ctx, "VerylModel.Props.C18", THEOREMS)
    ctx.cov["trusted_base"] = [
        "Lean 4.33 kernel; axioms ⊆ {propext, Classical.choice, Quot.sound}",
        "Core/Wide.lean is a hand transcription of wide_ops.rs (u64 wrap = % 2^64, raw pointer reads = list lookups; "
        "aliasing of dst with an operand and the callers' buffer-size contract are not modelled)",
        "harness/src/dom_wide.rs (bit-vector oracle), tools/vlib.py",
        "Core/ExprRef.lean is my transcription of IEEE 1800-2017 §11.4, §11.6, §11.8 (2-state; any zero divisor = don't care)",
        "harness/src/dom_engexpr.rs (Veryl text generation, engine driving, shrinking, signature); the Cranelift and C "
        "lowerings are validated by these runs, not modelled",
    ]
    ctx.cov["rule"] = ("PROVED (Lean): part A — the 25 wide_* helpers of wide_ops.rs are correct for every word count — and the "
                       "range lemmas of the reference evaluator (exprref_eval_lt, exprref_assign_lt). Part A correspondence: every "
                       "exported wide_* helper called in-process on 1–6 word unaligned buffers with canaries (boundary-biased "
                       "values/widths/shift amounts) vs the Lean model and a Vec<bool> oracle; distinct = distinct (call, reply). "
                       "Part B is a SEARCH + VALIDATION, not a proof: (1) the witness of every recorded defect class is replayed, "
                       "(2) the committed corpus corpus/C18/*.txt of passing S1–S3 designs, (3) random warning-free expression modules "
                       "(3 ports, depth ≤ 3; S0 = unsigned, every width ≤ 64, no / %; S1 +signed; S2 +/ %; S3 +widths 65..300) under "
                       "every Config::all() engine and the analyzer's constant evaluation, against the Lean IEEE 1800 reference; a "
                       "failing design is shrunk and attributed to a defect class only if the class predicate (engine set, failure "
                       "kind, width regime, and — for cc-constant, cc-msb64, ct-ternary, eq/ne — re-evaluation of the reference under "
                       "the defect's mechanism reproducing the engine's value) holds on the shrunk case; anything else is a violation")
    ctx.notes.append("C18 level: proof for part A (wide_ops) and the reference evaluator's range lemmas; part B (engines, compile-time "
                     "evaluation) is randomized search + validation against the Lean reference, the Cranelift/C lowerings are not modelled")
    if not harness_build(ctx):
        return
    part_a(ctx)
    part_b(ctx)
    if not ok and not any(not ni for _, _, ni in ctx.violations):
        proof_broken(ctx, "VerylModel.Props.C18 no longer checks")
