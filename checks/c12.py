"""C12 — every token reports where it really is.

Proof: VerylModel.Props.C12 (split_comment_token, end_line/end_column, scanner): the full-strength
statement `split_positions_correct` is proved of the code as it stands.  Differential: `hx tokens`
parses sources with the real parser and compares every token and comment with positions computed by
scanning the text; every comment run, token end, scanner input and `lineCol` query is replayed through
`vmodel tokens`.

Any token whose reported (text, line, column, pos, length) differs from the oracle is a violation with
the (shrunk) source as replay — except the one recorded finding KEY_SCNR, which is accepted only where
its signature explains every number exactly (see `Explainer`)."""
import os
from vlib import *

LEVEL = "proof"
THEOREMS = ["split_positions_correct", "end_line_col_correct", "end_line_col_in_source", "source_order",
            "scan_partition", "old_split_positions_correct_false", "old_split_pos_false", "old_split_col_false"]


# scnr2 0.5.2, CharIterWithPosition::save_state/restore_state do not save `last_char`: when the scanner
# backtracks from a failed longer match to a match that ended in a line feed, the next character is
# not seen as the start of a new line.  From there to the end of the file lines are one too low, and
# the rest of that line has the previous line's columns.
KEY_SCNR = "scnr2:char_iter:restore_state-drops-last_char"


class Explainer:
    """Signature of KEY_SCNR for one source.  `lost` = byte offsets of line feeds the lexer did not
    count.  A token's reported (line, column) is explained iff it equals the position computed by a
    walk that treats exactly those line feeds as ordinary characters; a new offset may be added only
    where the cause is present: the token starts right after the line feed, the lexer token before it
    (comment run incl. its trailing white space, or embed content) ends in that line feed, and the token begins with `/` resp. `\\` (the
    characters on which the comment resp. embed-content automaton reads on before failing)."""

    def __init__(self, src):
        self.src = src
        self.lost = []

    def walk(self, pos):
        line, start = 1, 0
        lost = set(self.lost)
        i = self.src.find(b"\n")
        while i != -1 and i < pos:
            if i not in lost:
                line += 1
                start = i + 1
            i = self.src.find(b"\n", i + 1)
        try:
            col = 1 + len(self.src[start:pos].decode("utf-8"))
        except UnicodeDecodeError:
            col = -1
        return line, col

    def explains(self, imp, ora, prev_text, prev_is_comment=False, prev_end=0):
        i, o = parse_tok(imp), parse_tok(ora)
        if i is None or o is None:
            return False
        if (i[0], i[3], i[4]) != (o[0], o[3], o[4]):      # text, pos, length must be right
            return False
        pos = o[3]
        if self.lost and self.walk(pos) == (i[1], i[2]):
            return True
        text = unhex(i[0])
        # the lexer's token in front: embed content ending in the line feed, or a comment run (the
        # last comment plus the white space after it, which belongs to the run) ending in it
        cause = prev_text.endswith(b"\n") or (prev_is_comment and self.src[prev_end:pos].strip() == b"")
        if (pos >= 1 and self.src[pos - 1:pos] == b"\n" and cause
                and (text.startswith(b"/") or text.startswith(b"\\")) and (pos - 1) not in self.lost):
            self.lost.append(pos - 1)
            if self.walk(pos) == (i[1], i[2]):
                return True
            self.lost.pop()
        return False


def unhex(h):
    return b"" if h == "-" else bytes.fromhex(h)


def parse_tok(reply):
    t = reply.split()
    if len(t) != 5:
        return None
    try:
        return (t[0],) + tuple(int(x, 16) for x in t[1:])
    except ValueError:
        return None


def describe(imp, ora):
    """Human-readable difference between a reported and a true token (no attribution: every
    difference is a violation)."""
    if ora.startswith("skipped:"):
        head = ora.split(" ", 1)[0]
        return f"text passed over by the token walk: {unhex(head[len('skipped:'):].split('@')[0])!r}"
    i, o = parse_tok(imp), parse_tok(ora)
    if i is None or o is None:
        return f"reported {imp}; expected {ora}"
    names = ("text", "line", "column", "pos", "length")
    diffs = [f"{n} reported {a!r} true {b!r}" for n, a, b in zip(names, i, o) if a != b]
    return ", ".join(diffs)


def mismatches(d):
    """([(src_line, detail)] unexplained differences, {key: (src_line, detail)} smallest explained
    witness per recorded finding, number of replies checked)."""
    ops = read_lines(f"{d}/pos/ops.txt") or []
    imp = read_lines(f"{d}/pos/impl.txt") or []
    ora = read_lines(f"{d}/pos/oracle.txt") or []
    if not (len(ops) == len(imp) == len(ora)):
        return None, {}, 0
    out, known, src_line, checked = [], {}, "", 0
    ex, prev_text, prev_c, prev_end = None, b"", False, 0
    for o, i, r in zip(ops, imp, ora):
        t = o.split()
        if t[0] == "src":
            src_line = o
            src = unhex(t[1])
            ex = Explainer(src if src.endswith(b"\n") else src + b"\n")
            prev_text, prev_c, prev_end = b"", False, 0
            if i == "panic":
                out.append((src_line, "the parser panicked"))
            continue
        if r == "?":
            continue
        checked += 1
        if i != r:
            if t[0] == "eof":
                out.append((src_line, f"text after the last token is not covered: {r}"))
            elif ex is not None and ex.explains(i, r, prev_text, prev_c, prev_end):
                if KEY_SCNR not in known or len(src_line) < len(known[KEY_SCNR][0]):
                    known[KEY_SCNR] = (src_line, f"{o}: {describe(i, r)} (and every later line of the file one too low)")
            else:
                out.append((src_line, f"{o}: {describe(i, r)}"))
        if t[0] in ("t", "c"):
            tok, otok = parse_tok(i), parse_tok(r)
            if tok:
                prev_text, prev_c = unhex(tok[0]), t[0] == "c"
            if otok:
                prev_end = otok[3] + otok[4]
    return out, known, checked


def analyse_pos(ctx, d):
    bad, known, checked = mismatches(d)
    if bad is None:
        ctx.violation("hx tokens: position streams differ in length", {"kind": "harness"}, no_input=True, kind="model!=impl")
        return
    ctx.cov["evaluations"] += checked
    for k, (line, detail) in sorted(known.items()):
        ctx.violation(f"tokens: {k}: {detail}; source {unhex(line.split()[1])[:200]!r}", line + "\n", key=k, kind="impl!=oracle")
        ctx.sample(f"{k}: {unhex(line.split()[1])[:120]!r} -> {detail}")
    for o in read_lines(f"{d}/pos/ops.txt") or []:
        if o.startswith("src "):
            ctx.distinct(o[4:])
    bad.sort(key=lambda x: len(x[0]))
    seen = set()
    for line, detail in bad:
        if line in seen or len(seen) >= 3:
            continue
        seen.add(line)
        small = shrink_src(ctx, line, detail)
        ctx.violation(f"tokens: a reported position is wrong: {detail}; source {unhex(small.split()[1])[:200]!r}",
                      small + "\n", kind="impl!=oracle")


def has_unexplained(ctx, d):
    bad, _, _ = mismatches(d)
    return bad is None or bool(bad)


def shrink_src(ctx, src_line, detail, budget=60):
    """Line-wise delta debugging of a failing source (best effort)."""
    try:
        text = unhex(src_line.split()[1]).decode("utf-8")
    except Exception:
        return src_line
    lines = text.splitlines(keepends=True)
    calls = [0]

    def fails(ls):
        if calls[0] >= budget:
            return False
        calls[0] += 1
        d = f"{ctx.run_dir}/shrink"
        os.makedirs(d, exist_ok=True)
        with open(f"{d}/replay.txt", "w") as fh:
            fh.write("src " + ("".join(ls).encode("utf-8").hex() or "-") + "\n")
        rc, _, _ = run_hx(ctx, "tokens", ["--replay", f"{d}/replay.txt"], out_dir=d)
        return rc == 0 and has_unexplained(ctx, d)

    try:
        if len(lines) > 1 and fails(lines):
            lines = ddmin(lines, fails)
    except Exception as e:
        ctx.log(f"shrink failed: {e}")
    return "src " + ("".join(lines).encode("utf-8").hex() or "-")


def analyse_model(ctx, d):
    ops = read_lines(f"{d}/ops.txt") or []
    imp = read_lines(f"{d}/impl.txt") or []
    mod = read_lines(f"{d}/model.txt") or []
    ora = read_lines(f"{d}/oracle.txt") or []
    if not (len(ops) == len(imp) == len(mod) == len(ora)):
        ctx.violation("vmodel tokens: reply stream length differs from the request stream",
                      {"kind": "model!=impl", "lens": [len(ops), len(imp), len(mod), len(ora)]}, no_input=True, kind="model!=impl")
        return
    per = {}
    first = {}
    for o, i, m, r in zip(ops, imp, mod, ora):
        k = o.split()[0]
        st = per.setdefault(k, {"n": 0, "model!=impl": 0, "impl!=oracle": 0, "model!=oracle": 0})
        st["n"] += 1
        if m != i:
            st["model!=impl"] += 1
            first.setdefault((k, "model!=impl"), {"op": o, "impl": i, "model": m, "oracle": r})
        if r != "?" and r != i:
            st["impl!=oracle"] += 1
            first.setdefault((k, "impl!=oracle"), {"op": o, "impl": i, "model": m, "oracle": r})
        if r != "?" and r != m:
            st["model!=oracle"] += 1
            first.setdefault((k, "model!=oracle"), {"op": o, "impl": i, "model": m, "oracle": r})
    ctx.cov["evaluations"] += len(ops)
    ctx.cov["traces_validated_against_impl"] += per.get("split", {}).get("n", 0)
    ctx.cov.setdefault("distribution", {})["tokens.model_lines"] = per
    for k in ("split", "end", "scan", "lc"):
        st = per.get(k, {})
        if st.get("impl!=oracle"):
            w = first[(k, "impl!=oracle")]
            ctx.violation(f"tokens: `{k}`: implementation differs from the oracle at `{w['op'][:200]}`: impl={w['impl']} oracle={w['oracle']}",
                          w["op"] + "\n", kind="impl!=oracle")
        elif st.get("model!=impl"):
            w = first[(k, "model!=impl")]
            ctx.violation(f"tokens: `{k}`: model/implementation correspondence broken at `{w['op'][:200]}`: impl={w['impl']} model={w['model']}",
                          {"kind": "model!=impl", "first_difference": w, "replay": f"{HX} tokens --replay <file with the op>"},
                          no_input=True, kind="model!=impl")
        elif st.get("model!=oracle"):
            w = first[(k, "model!=oracle")]
            ctx.violation(f"tokens: `{k}`: model differs from the oracle at `{w['op'][:200]}`", {"kind": "model!=oracle", "first_difference": w},
                          no_input=True, kind="model!=oracle")


def run(ctx):
    ok = lean_check(ctx, "VerylModel.Props.C12", THEOREMS)
    ctx.cov["trusted_base"] = [
        "Lean 4.33 kernel; axioms ⊆ {propext, Classical.choice, Quot.sound}",
        "parol/scnr2: (line, column, start, length) of ordinary tokens and of a whole comment run (validated on every token by the "
        "oracle; one defect of scnr2's position tracking is a recorded finding); the model of split_comment_token is fed the run's "
        "REPORTED (line, column, pos)",
        "regex crate semantics of COMMENT_REGEX = Core/TokenPos.scanComments (compared with the real regex, taken from the source text, on every run and on random texts)",
        "sources below 4 GiB (the code casts to u32)",
        "harness/src/dom_tokens.rs (oracle: sequential scan of the source) + checks/c12.py"]
    ctx.cov["rule"] = ("every token and comment of: hand-written witnesses, the 96 testcases, mutants (multi-byte comments before "
                       "tokens, several per line, multi-line, doc comments, multi-byte in strings, tabs, comment before the first "
                       "token, CRLF) and generated small sources; oracle = the token texts stand in the source in order, separated "
                       "by white space only, and (line, column[chars], byte offset, byte length) are those of that place; "
                       "distinct = distinct parsed sources")
    ctx.assumptions.append("columns are 1-based in characters (scnr2 advances one column per char; Token::end_column says so); "
                           "pos/length are byte offsets (miette spans); the LSP layer uses column-1 as `character` and the byte length")
    if not harness_build(ctx):
        return
    if getattr(ctx, "replay", None):
        args = ["--replay", ctx.replay]
    else:
        args = ["--seed", ctx.seed, "--n", tier_n(ctx, 400, 6000)]
    rc, out, d = run_hx(ctx, "tokens", args)
    if rc != 0:
        ctx.violation(f"harness domain tokens crashed (rc={rc})", {"kind": "harness-crash", "log": out[-4000:]},
                      no_input=True, kind="model!=impl")
        return
    mrc, err = run_model("tokens", d)
    if mrc != 0:
        ctx.log(f"vmodel tokens rc={mrc}: {err[-500:]}")
    for name, sub in (("pos", f"{d}/pos"), ("model", d)):
        for k, v in load_stats(sub).items():
            if k != "samples":
                ctx.cov.setdefault("distribution", {})[f"tokens.{name}.{k}"] = v
    analyse_pos(ctx, d)
    analyse_model(ctx, d)
    ctx.sample("/* é */ /* b */ : model = real split_comment_token = oracle: (1,1,pos 0,len 8),(1,9,pos 9,len 7)")
    ctx.sample("interface B { mixin A; var b: logic; } : the `;` of the mixin statement is visited by the token walk")
    if not ok:
        if not any(not ni for _, _, ni in ctx.violations):
            proof_broken(ctx, "VerylModel.Props.C12 no longer checks")
