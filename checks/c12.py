"""C12 — every token reports where it really is.

Proof: VerylModel.Props.C12 (split_comment_token, end_line/end_column, scanner) — the full-strength
statement is proved FALSE of the code as it stands (two independent defects) and TRUE of the repaired
function.  Differential: `hx tokens` parses sources with the real parser and compares every token and
comment with positions computed by scanning the text; every comment run, token end, scanner input and
`lineCol` query is replayed through `vmodel tokens`.

A failing token is attributed to a known defect only if the defect explains the reported numbers
EXACTLY (signature below); anything else is a violation."""
import os
import re
from vlib import *

LEVEL = "proof"
THEOREMS = ["split_positions_correct_false", "split_pos_false", "split_col_false", "split_positions_partial",
            "split_positions_correct_fixed", "end_line_col_correct", "end_line_col_in_source", "source_order",
            "source_order_fixed", "scan_partition"]

KEY_POS = "split_comment_token:pos-run-relative"
KEY_COL = "split_comment_token:column-bytes-after-multibyte"
KEY_MIXIN = "veryl_walker:mixin_declaration:semicolon-not-visited"


MIXIN_SKIP = re.compile(rb"^;(\s*(//[^\n]*(\n|$)|/\*.*?\*/))*\s*$", re.S)


def unhex(h):
    return b"" if h == "-" else bytes.fromhex(h)


def parse_tok(reply):
    t = reply.split()
    if len(t) != 5:
        return None
    try:
        return (t[0],) + tuple(int(x, 16) for x in t[1:])
    except ValueError:
        return None


def classify_comment(src, base, imp, ora):
    """Which defects explain the difference between the reported and the true comment token?
    Returns (keys, unexplained) — every differing field must be accounted for."""
    i, o = parse_tok(imp), parse_tok(ora)
    if i is None or o is None:
        return [], ["unparsable reply"]
    (itx, il, ic, ip, iln), (otx, ol, oc, op, oln) = i, o
    keys, bad = [], []
    if itx != otx:
        bad.append("text")
    if iln != oln:
        bad.append("length")
    if il != ol:
        bad.append("line")
    if ip != op:
        # reported = offset inside the run + length, true = run base + offset inside the run
        if base <= op and ip == (op - base) + oln:
            keys.append(KEY_POS)
        else:
            bad.append(f"pos reported {ip:#x} true {op:#x}")
    if ic != oc:
        # reported = true column + (bytes - characters) of the run's text since its last line feed
        seg = src[base:op]
        tail = seg[seg.rfind(b"\n") + 1:]
        try:
            excess = len(tail) - len(tail.decode("utf-8"))
        except UnicodeDecodeError:
            excess = 0
        if excess > 0 and ic == oc + excess:
            keys.append(KEY_COL)
        else:
            bad.append(f"column reported {ic} true {oc}")
    return keys, bad


def classify_token(prev_texts, imp, ora):
    """A non-comment token differs from the oracle."""
    if ora.startswith("skipped:"):
        head, rest = ora.split(" ", 1)
        skipped = head[len("skipped:"):].split("@")[0]
        if MIXIN_SKIP.match(unhex(skipped)) and rest == imp:
            # the text passed over is exactly `;` (and the comments attached to it) and it closes a
            # `mixin <path>` statement
            for t in reversed(prev_texts):
                if t == b"mixin":
                    return [KEY_MIXIN], []
                if t in (b";", b"{", b"}"):
                    break
        return [], [f"text passed over by the token walk: {unhex(skipped)!r}"]
    return [], [f"reported {imp} expected {ora}"]


def analyse_pos(ctx, d):
    ops = read_lines(f"{d}/pos/ops.txt") or []
    imp = read_lines(f"{d}/pos/impl.txt") or []
    ora = read_lines(f"{d}/pos/oracle.txt") or []
    if not (len(ops) == len(imp) == len(ora)):
        ctx.violation("hx tokens: position streams differ in length", {"kind": "harness", "lens": [len(ops), len(imp), len(ora)]},
                      no_input=True, kind="model!=impl")
        return
    src, src_line, prev_texts = b"", "", []
    known = {}          # key -> (len(src), src_line, detail)
    unexplained = []    # (len(src), src_line, detail)
    checked = 0
    for o, i, r in zip(ops, imp, ora):
        t = o.split()
        if t[0] == "src":
            src, src_line, prev_texts = unhex(t[1]), o, []
            if i.startswith("ok"):
                ctx.distinct(t[1])
            if i == "panic":
                unexplained.append((len(src), src_line, "the parser panicked"))
            continue
        if r == "?":
            continue
        checked += 1
        if t[0] == "t":
            tok = parse_tok(i)
            if i != r:
                keys, bad = classify_token(prev_texts, i, r)
                for k in keys:
                    if k not in known or len(src) < known[k][0]:
                        known[k] = (len(src), src_line, f"{o}: reported {i}; oracle {r}")
                for b in bad:
                    unexplained.append((len(src), src_line, f"{o}: {b}"))
            if tok:
                prev_texts.append(unhex(tok[0]))
        elif t[0] == "c":
            if i != r:
                keys, bad = classify_comment(src, int(t[2], 16), i, r)
                for k in keys:
                    if k not in known or len(src) < known[k][0]:
                        known[k] = (len(src), src_line, f"{o}: reported {i}; true {r}")
                for b in bad:
                    unexplained.append((len(src), src_line, f"{o}: {b} (reported {i}; true {r})"))
        elif t[0] == "eof":
            if i != r:
                unexplained.append((len(src), src_line, f"text after the last token is not covered: {r}"))
    ctx.cov["evaluations"] += checked
    for k, (n, line, detail) in sorted(known.items()):
        ctx.violation(f"tokens: {k}: {detail}; source {unhex(line.split()[1])[:120]!r}",
                      line + "\n", key=k, kind="impl!=oracle")
    unexplained.sort(key=lambda x: x[0])
    seen = set()
    for n, line, detail in unexplained:
        if line in seen or len(seen) >= 3:
            continue
        seen.add(line)
        small = shrink_src(ctx, line, detail)
        ctx.violation(f"tokens: a reported position is wrong and no known defect explains it: {detail}; "
                      f"source {unhex(small.split()[1])[:200]!r}", small + "\n", kind="impl!=oracle")
    return known


def has_unexplained(ctx, d):
    ops = read_lines(f"{d}/pos/ops.txt") or []
    imp = read_lines(f"{d}/pos/impl.txt") or []
    ora = read_lines(f"{d}/pos/oracle.txt") or []
    src, prev = b"", []
    for o, i, r in zip(ops, imp, ora):
        t = o.split()
        if t[0] == "src":
            src, prev = unhex(t[1]), []
            if i == "panic":
                return True
            continue
        if t[0] == "t":
            tok = parse_tok(i)
            if r != "?" and i != r and classify_token(prev, i, r)[1]:
                return True
            if tok:
                prev.append(unhex(tok[0]))
        elif r != "?" and i != r:
            if t[0] == "c":
                if classify_comment(src, int(t[2], 16), i, r)[1]:
                    return True
            else:
                return True
    return False


def shrink_src(ctx, src_line, detail, budget=60):
    """Line-wise delta debugging of a failing source (best effort)."""
    try:
        text = unhex(src_line.split()[1]).decode("utf-8")
    except Exception:
        return src_line
    lines = text.splitlines(keepends=True)
    calls = [0]

    def fails(ls):
        if calls[0] >= budget:
            return False
        calls[0] += 1
        d = f"{ctx.run_dir}/shrink"
        os.makedirs(d, exist_ok=True)
        with open(f"{d}/replay.txt", "w") as fh:
            fh.write("src " + ("".join(ls).encode("utf-8").hex() or "-") + "\n")
        rc, _, _ = run_hx(ctx, "tokens", ["--replay", f"{d}/replay.txt"], out_dir=d)
        return rc == 0 and has_unexplained(ctx, d)

    try:
        if len(lines) > 1 and fails(lines):
            lines = ddmin(lines, fails)
    except Exception as e:
        ctx.log(f"shrink failed: {e}")
    return "src " + ("".join(lines).encode("utf-8").hex() or "-")


def analyse_model(ctx, d):
    ops = read_lines(f"{d}/ops.txt") or []
    imp = read_lines(f"{d}/impl.txt") or []
    mod = read_lines(f"{d}/model.txt") or []
    ora = read_lines(f"{d}/oracle.txt") or []
    if not (len(ops) == len(imp) == len(mod) == len(ora)):
        ctx.violation("vmodel tokens: reply stream length differs from the request stream",
                      {"kind": "model!=impl", "lens": [len(ops), len(imp), len(mod), len(ora)]}, no_input=True, kind="model!=impl")
        return
    per = {}
    first = {}
    for o, i, m, r in zip(ops, imp, mod, ora):
        k = o.split()[0]
        st = per.setdefault(k, {"n": 0, "model!=impl": 0, "impl!=oracle": 0, "model!=oracle": 0})
        st["n"] += 1
        if m != i:
            st["model!=impl"] += 1
            first.setdefault((k, "model!=impl"), {"op": o, "impl": i, "model": m, "oracle": r})
        if r != "?" and r != i:
            st["impl!=oracle"] += 1
            first.setdefault((k, "impl!=oracle"), {"op": o, "impl": i, "model": m, "oracle": r})
        if r != "?" and r != m:
            st["model!=oracle"] += 1
            first.setdefault((k, "model!=oracle"), {"op": o, "impl": i, "model": m, "oracle": r})
    ctx.cov["evaluations"] += len(ops)
    ctx.cov["traces_validated_against_impl"] += per.get("split", {}).get("n", 0)
    ctx.cov.setdefault("distribution", {})["tokens.model_lines"] = per
    coded_ok = per.get("split", {}).get("model!=impl", 0) == 0
    fixed_ok = per.get("splitfix", {}).get("model!=impl", 0) == 0
    if coded_ok and not fixed_ok:
        ctx.cov["model_in_force"] = "splitCommentToken (as coded; full statement proved false, partial theorem holds)"
    elif fixed_ok:
        ctx.cov["model_in_force"] = "splitCommentTokenFixed (split_positions_correct_fixed is the obligation in force)"
        ctx.notes.append("the real split_comment_token agrees with the REPAIRED model on every run: the fix has landed; "
                         "switch Core/TokenPos.lean's splitCommentToken to the fixed definition")
    else:
        w = first.get(("split", "model!=impl")) or first.get(("splitfix", "model!=impl"))
        ctx.violation(f"tokens: split_comment_token agrees with neither the as-coded nor the repaired model at `{w['op'][:200]}`: "
                      f"impl={w['impl'][:200]} model={w['model'][:200]}",
                      {"kind": "model!=impl", "first_difference": w, "correspondence": "vmodel tokens vs hx tokens"},
                      no_input=True, kind="model!=impl")
    for k in ("end", "scan", "lc"):
        st = per.get(k, {})
        if st.get("impl!=oracle"):
            w = first[(k, "impl!=oracle")]
            ctx.violation(f"tokens: `{k}`: implementation differs from the oracle at `{w['op'][:200]}`: impl={w['impl']} oracle={w['oracle']}",
                          w["op"] + "\n", kind="impl!=oracle")
        elif st.get("model!=impl"):
            w = first[(k, "model!=impl")]
            ctx.violation(f"tokens: `{k}`: model/implementation correspondence broken at `{w['op'][:200]}`: impl={w['impl']} model={w['model']}",
                          {"kind": "model!=impl", "first_difference": w, "replay": f"{HX} tokens --replay <file with the op>"},
                          no_input=True, kind="model!=impl")
        elif st.get("model!=oracle"):
            w = first[(k, "model!=oracle")]
            ctx.violation(f"tokens: `{k}`: model differs from the oracle at `{w['op'][:200]}`", {"kind": "model!=oracle", "first_difference": w},
                          no_input=True, kind="model!=oracle")


def run(ctx):
    ok = lean_check(ctx, "VerylModel.Props.C12", THEOREMS)
    ctx.cov["trusted_base"] = [
        "Lean 4.33 kernel; axioms ⊆ {propext, Classical.choice, Quot.sound}",
        "parol/scnr2: (line, column, start, length) of ordinary tokens and of a whole comment run (validated on every token by the oracle)",
        "regex crate semantics of COMMENT_REGEX = Core/TokenPos.scanComments (compared with the real regex, taken from the source text, on every run and on random texts)",
        "sources below 4 GiB (the code casts to u32)",
        "harness/src/dom_tokens.rs (oracle: sequential scan of the source) + checks/c12.py"]
    ctx.cov["rule"] = ("every token and comment of: hand-written witnesses, the 96 testcases, mutants (multi-byte comments before "
                       "tokens, several per line, multi-line, doc comments, multi-byte in strings, tabs, comment before the first "
                       "token, CRLF) and generated small sources; oracle = the token texts stand in the source in order, separated "
                       "by white space only, and (line, column[chars], byte offset, byte length) are those of that place; "
                       "distinct = distinct parsed sources")
    ctx.assumptions.append("columns are 1-based in characters (scnr2 advances one column per char; Token::end_column says so); "
                           "pos/length are byte offsets (miette spans); the LSP layer uses column-1 as `character` and the byte length")
    if not harness_build(ctx):
        return
    if getattr(ctx, "replay", None):
        args = ["--replay", ctx.replay]
    else:
        args = ["--seed", ctx.seed, "--n", tier_n(ctx, 400, 6000)]
    rc, out, d = run_hx(ctx, "tokens", args)
    if rc != 0:
        ctx.violation(f"harness domain tokens crashed (rc={rc})", {"kind": "harness-crash", "log": out[-4000:]},
                      no_input=True, kind="model!=impl")
        return
    mrc, err = run_model("tokens", d)
    if mrc != 0:
        ctx.log(f"vmodel tokens rc={mrc}: {err[-500:]}")
    for name, sub in (("pos", f"{d}/pos"), ("model", d)):
        for k, v in load_stats(sub).items():
            if k != "samples":
                ctx.cov.setdefault("distribution", {})[f"tokens.{name}.{k}"] = v
    known = analyse_pos(ctx, d) or {}
    analyse_model(ctx, d)
    for k, (n, line, detail) in sorted(known.items()):
        ctx.sample(f"{k}: {unhex(line.split()[1])[:80]!r} -> {detail}")
    ctx.sample("witness /* é */ /* b */ : model [(1,1,pos 8,len 8),(1,10,pos 16,len 7)] = real split_comment_token; true (1,1,0,8),(1,9,9,7)")
    if not ok:
        if not any(not ni for _, _, ni in ctx.violations):
            proof_broken(ctx, "VerylModel.Props.C12 no longer checks")
