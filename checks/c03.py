"""C03 — switching any simulator optimisation pass on or off never changes behaviour.

Proof part: Props/C03.lean — specification lemmas of the passes over a generic ordered statement
language (dead-variable DCE, duplicate-assign DCE, single-reader inlining, cone gating, version
splitting, lane merging, layout permutation, case <-> if-chain, conditional hoisting) and the
generated-list theorem `toggles_covered` (every `VERYL_*` toggle in the source is driven here or
is a known diagnostic switch).
Black-box part: the toggles are process-global `OnceLock`s, so the harness is executed once per
toggle set (`hx engines --replay FILE --toggles "VERYL_X=0,…"`) on the same generated designs and
stimuli. Oracle: for every engine, the trace under a toggle set equals the trace of the SAME engine
with no toggle set (so the engine defects recorded under C02 do not leak into C03), and the
baseline traces of stratum-S0 designs equal `Sim.run`."""
import os
import random

import gen
from vlib import *
from checks.c02 import hx_parallel, hx_env, judge_dir, PAR

LEVEL = "proof"
THEOREMS = [
    "dce_dead_var", "dce_dup_assign", "inline_single_reader", "cone_gate_skip", "version_split_select", "chainVal_local",
    "lane_bit", "lane_merge_bitwise", "layout_perm", "switch_lower", "switch_lower_D2", "switch_lower_D4", "cond_hoist",
    "toggles_covered", "toggles_disjoint",
]

# toggle -> the non-default value the check drives (defaults: passes on, *_DISABLE off, knobs at their defaults)
DRIVEN = {
    "VERYL_COMB_FUSION": "0", "VERYL_COMB_FUSION_CHEAP": "0", "VERYL_COMB_FUSION_CHEAP_KEEP": "1",
    "VERYL_COMB_FUSION_COALESCE": "0", "VERYL_COMB_FUSION_CSE": "0", "VERYL_COMB_FUSION_LIMIT": "1",
    "VERYL_COMB_FUSION_LIMIT_DUP": "1", "VERYL_COMB_FUSION_WORD_COALESCE": "0",
    "VERYL_CONE_GATE": "0", "VERYL_DEAD_VAR_DCE": "0", "VERYL_DEAD_VAR_DCE_MULTI": "0",
    "VERYL_VSPLIT": "0", "VERYL_VSPLIT_LUT": "0", "VERYL_VSPLIT_LUT_MAX": "0", "VERYL_VSPLIT_MAX_NODES": "4",
    "VERYL_LANE_VECTOR": "0", "VERYL_LANE_FOLD": "0", "VERYL_LANE_MERGE": "0", "VERYL_LANE_MERGE_MIN_OPS": "1",
    "VERYL_COMB_LAYOUT": "0", "VERYL_COND_HOIST_DISABLE": "1", "VERYL_SWITCH_LOWER_DISABLE": "1",
    "VERYL_FORCE_DISABLE_LOAD_CACHE": "1", "VERYL_STAGE7_LOOKAHEAD": "0", "VERYL_STAGE7_LOOKAHEAD_CAP": "1",
    "VERYL_JIT_CHUNK_SIZE": "2", "VERYL_EVENT_CHUNK_SIZE": "1", "VERYL_SCC_NARROW": "1", "VERYL_SCC_BITAWARE": "1",
    "VERYL_WIDE_DYNSEL": "0", "VERYL_WIDE_MASK_ELIDE": "0", "VERYL_COLD_IF_TRUE": "0",
}
# the ten toggles the property text names (single-off sets of these are always run)
CORE = ["VERYL_COMB_FUSION", "VERYL_CONE_GATE", "VERYL_DEAD_VAR_DCE", "VERYL_VSPLIT", "VERYL_VSPLIT_LUT", "VERYL_LANE_VECTOR",
        "VERYL_COMB_LAYOUT", "VERYL_COND_HOIST_DISABLE", "VERYL_SWITCH_LOWER_DISABLE", "VERYL_FORCE_DISABLE_LOAD_CACHE"]


def lean_driven_list():
    """the hand-written `drivenToggles` of Props/C03.lean (must equal DRIVEN's keys)"""
    with open(f"{LEAN}/VerylModel/Props/C03.lean") as fh:
        src = fh.read()
    m = re.search(r"def drivenToggles : List Toggle := \[(.*?)\]", src, flags=re.S)
    return sorted(re.findall(r"\.(VERYL_[A-Z0-9_]+)", m.group(1))) if m else []


def toggle_sets(ctx):
    """(main sets, exhaustive subsets of the ten named toggles — thorough only)"""
    rnd = random.Random(ctx.seed)
    names = sorted(DRIVEN)
    sets = [[]] + [[n] for n in names] + [names] + [sorted(CORE)]
    n_random = 4 if ctx.tier != "thorough" else 60
    for _ in range(n_random):
        k = rnd.randint(2, len(names) - 1)
        sets.append(sorted(rnd.sample(names, k)))
    core_subsets = [[]]
    if ctx.tier == "thorough":
        for mask in range(1, 1 << len(CORE)):
            core_subsets.append(sorted(CORE[i] for i in range(len(CORE)) if mask >> i & 1))
    return sets, core_subsets


def spec(s):
    return ",".join(f"{n}={DRIVEN[n]}" for n in s)


def engines_of(reply):
    return dict(p.split("=", 1) for p in reply.split(",") if "=" in p)


def compare(ctx, tag, ops_file, sets, only, base_dir, dirs):
    """every toggle set against the baseline, engine by engine"""
    base_ops = read_lines(f"{base_dir}/ops.txt") or []
    base = read_lines(f"{base_dir}/impl.txt") or []
    bad = {}
    for s, d in zip(sets, dirs):
        imp = read_lines(f"{d}/impl.txt") or []
        if len(imp) != len(base):
            ctx.violation(f"engines under toggles [{spec(s)}]: {len(imp)} replies for {len(base)} designs",
                          {"kind": "stream-length", "toggles": spec(s)}, no_input=True, kind="model!=impl")
            continue
        for i, (a, b) in enumerate(zip(base, imp)):
            if a.startswith("rejected") or a == "bad-op":
                continue
            ea, eb = engines_of(a), engines_of(b)
            ctx.cov["evaluations"] += len(eb)
            ctx.cov["traces_validated_against_impl"] += len(eb)
            diff = sorted(k for k in ea if ea[k] != eb.get(k))
            if diff:
                bad.setdefault(i, []).append((s, diff, {k: (ea[k][:120], eb.get(k, "")[:120]) for k in diff}))
    # a known mechanism (finding: with VERYL_DEAD_VAR_DCE=0 the DCE protect set is empty, and comb fusion, which uses
    # the same set as its "externally visible" set, inlines and retires an output port that has a single comb reader):
    # establish it per design before attributing — every failing set has DCE off and fusion on, and switching the
    # fusion off as well restores the baseline trace.
    fusion_suspects = [i for i, lst in bad.items()
                       if all("VERYL_DEAD_VAR_DCE" in x[0] and "VERYL_COMB_FUSION" not in x[0] for x in lst)]
    confirmed = set()
    if fusion_suspects:
        d = f"{ctx.run_dir}/{tag}-dcefusion"
        os.makedirs(d, exist_ok=True)
        with open(f"{d}/lines.txt", "w") as fh:
            fh.write("".join(base_ops[i] + "\n" for i in fusion_suspects))
        (rc, out), = hx_parallel(ctx, [(d, ["--replay", f"{d}/lines.txt", "--only", only, "--toggles",
                                            "VERYL_DEAD_VAR_DCE=0,VERYL_COMB_FUSION=0"])])
        imp = read_lines(f"{d}/impl.txt") or []
        if rc == 0 and len(imp) == len(fusion_suspects):
            for i, b in zip(fusion_suspects, imp):
                if engines_of(b) == engines_of(base[i]):
                    confirmed.add(i)
    # second known mechanism (C02 class `comb-fusion:…`): comb fusion inlines a definition into a width-sensitive
    # reader with the width of its right-hand side, so the BASELINE of the 2-state engines is wrong and every toggle set
    # that restrains the fusion repairs it. Established per design: all failing sets contain a fusion toggle, only
    # 2-state engines change, the baseline deviates from Sim.run and the toggled run does not.
    fusion2 = {}
    for i, lst in bad.items():
        if i in confirmed:
            continue
        if all(set(x[0]) & FUSION_TOGGLES for x in lst) and all(k[:2] in ("i2", "j2", "cc") for x in lst for k in x[1]):
            fusion2[i] = min(lst, key=lambda x: len(x[0]))[0]
    fusion_confirmed = set()
    if fusion2 and only != "cc":
        base_ver = {op: ver for op, imp, mod, ver in judge_dir(ctx, base_dir)}
        for i, s0 in fusion2.items():
            d = dirs[sets.index(s0)]
            tog_ver = {op: ver for op, imp, mod, ver in judge_dir(ctx, d)}
            if base_ver.get(base_ops[i], "ok") not in ("ok", "skip") and tog_ver.get(base_ops[i]) == "ok":
                fusion_confirmed.add(i)
    for i, lst in bad.items():
        # attribute to the smallest failing toggle set seen
        lst.sort(key=lambda x: len(x[0]))
        s, diff, vals = lst[0]
        body = {"kind": "impl!=oracle", "design": base_ops[i], "toggles": spec(s), "engines": diff, "baseline_vs_toggled": vals,
                "all_failing_toggle_sets": [spec(x[0]) for x in lst[:20]], "seed": ctx.seed,
                "replay": f"{HX} engines --replay <file with the design line> --out A ; {HX} engines --replay <same file> "
                          f"--toggles \"{spec(s)}\" --out B ; diff A/impl.txt B/impl.txt"}
        key = DCE_FUSION_KEY if i in confirmed else (FUSION_WIDTH_KEY if i in fusion_confirmed else None)
        ctx.violation(f"{tag}: engines {diff} change their trace under toggles [{spec(s)}] on `{base_ops[i][:200]}`", body,
                      key=key, kind="impl!=oracle")


DCE_FUSION_KEY = "toggle:VERYL_DEAD_VAR_DCE=0:comb-fusion-retires-output-port-with-single-reader"
FUSION_WIDTH_KEY = "toggle:VERYL_COMB_FUSION*:narrow-definition-inlined-into-width-sensitive-reader"
FUSION_TOGGLES = {"VERYL_COMB_FUSION", "VERYL_COMB_FUSION_CHEAP", "VERYL_COMB_FUSION_CHEAP_KEEP", "VERYL_COMB_FUSION_LIMIT",
                  "VERYL_COMB_FUSION_LIMIT_DUP"}


def verify_witness(ctx):
    """the recorded finding's witness is replayed first: baseline, DCE off (must differ), DCE+fusion off (must equal the
    baseline); otherwise the entry suppresses nothing"""
    ents = [f for f in ctx.findings if f.get("kind") == "known" and f.get("key") == DCE_FUSION_KEY and f.get("witness")]
    for f in ents:
        d = f"{ctx.run_dir}/witness"
        os.makedirs(d, exist_ok=True)
        with open(f"{d}/w.txt", "w") as fh:
            fh.write(f["witness"] + "\n")
        jobs = [(f"{d}/a", ["--replay", f"{d}/w.txt", "--only", "i2,j2"]),
                (f"{d}/b", ["--replay", f"{d}/w.txt", "--only", "i2,j2", "--toggles", "VERYL_DEAD_VAR_DCE=0"]),
                (f"{d}/c", ["--replay", f"{d}/w.txt", "--only", "i2,j2", "--toggles", "VERYL_DEAD_VAR_DCE=0,VERYL_COMB_FUSION=0"])]
        hx_parallel(ctx, jobs)
        a, b, c = [(read_lines(f"{j[0]}/impl.txt") or [""])[0] for j in jobs]
        if not (a and a != b and a == c):
            ctx.findings = [x for x in ctx.findings if x is not f]
            ctx.notes.append(f"known finding `{DCE_FUSION_KEY}`: its witness no longer reproduces - the entry no longer suppresses anything")
            ctx.log("recorded C03 witness no longer reproduces")
    ctx.cov["witnesses_replayed"] = len(ents)
    # the fusion-width finding: the baseline deviates from Sim.run, VERYL_COMB_FUSION=0 repairs it
    ents2 = [f for f in ctx.findings if f.get("kind") == "known" and f.get("key") == FUSION_WIDTH_KEY and f.get("witness")]
    for f in ents2:
        d = f"{ctx.run_dir}/witness2"
        os.makedirs(d, exist_ok=True)
        with open(f"{d}/w.txt", "w") as fh:
            fh.write(f["witness"] + "\n")
        jobs = [(f"{d}/a", ["--replay", f"{d}/w.txt", "--only", "i2,j2"]),
                (f"{d}/b", ["--replay", f"{d}/w.txt", "--only", "i2,j2", "--toggles", "VERYL_COMB_FUSION=0"])]
        hx_parallel(ctx, jobs)
        va = [v for _, _, _, v in judge_dir(ctx, f"{d}/a")]
        vb = [v for _, _, _, v in judge_dir(ctx, f"{d}/b")]
        if not (va and vb and va[0].startswith("fail") and vb[0] == "ok"):
            ctx.findings = [x for x in ctx.findings if x is not f]
            ctx.notes.append(f"known finding `{FUSION_WIDTH_KEY}`: its witness no longer reproduces - the entry no longer suppresses anything")
            ctx.log("recorded C03 fusion-width witness no longer reproduces")
    ctx.cov["witnesses_replayed"] += len(ents2)


def toggle_runs(ctx, tag, level, n, seq, only, sets):
    d0 = f"{ctx.run_dir}/{tag}-gen"
    os.makedirs(d0, exist_ok=True)
    rc, out = sh([str(x) for x in [HX, "engines", "--gen", "1", "--seed", ctx.seed * 10 + level, "--n", n, "--stratum", level, "--seq", seq, "--out", d0]],
                 env=hx_env(ctx))
    if rc != 0:
        ctx.violation(f"hx engines --gen failed (rc={rc})", {"kind": "harness-crash", "log": out[-2000:]}, no_input=True,
                      kind="model!=impl")
        return
    ops = f"{d0}/ops.txt"
    jobs, dirs = [], []
    for k, s in enumerate(sets):
        d = f"{ctx.run_dir}/{tag}-t{k}"
        dirs.append(d)
        args = ["--replay", ops, "--only", only]
        if s:
            args += ["--toggles", spec(s)]
        jobs.append((d, args))
    outs = hx_parallel(ctx, jobs)
    for s, (rc, out) in zip(sets, outs):
        if rc != 0:
            ctx.violation(f"hx engines crashed under toggles [{spec(s)}] (rc={rc})", {"kind": "harness-crash", "toggles": spec(s),
                                                                                       "log": out[-3000:]}, no_input=True, kind="model!=impl")
    compare(ctx, tag, ops, sets, only, dirs[0], dirs)
    # the baseline itself against the reference (S0 is expected to be clean)
    if level == 0:
        for op, imp, mod, ver in judge_dir(ctx, dirs[0]):
            ctx.distinct((op, imp))
            if ver not in ("ok", "skip"):
                ctx.violation(f"{tag}: baseline engines deviate from Sim.run on an S0 design `{op[:200]}` ({ver})",
                              {"kind": "impl!=oracle", "ops": [op], "verdict": ver}, kind="impl!=oracle")
    stats = load_stats(dirs[0])
    dist = ctx.cov.setdefault("distribution", {})
    for k, v in stats.items():
        if k != "samples":
            dist[f"{tag}.{k}"] = v
    for s in stats.get("samples", [])[:1]:
        ctx.sample(s[:400])


def run(ctx):
    ctx.cov["generated"] = gen.gen(["Toggles"])
    ok = lean_check(ctx, "VerylModel.Props.C03", THEOREMS)
    ctx.cov["trusted_base"] = [
        "Lean 4.33 kernel; axioms within {propext, Classical.choice, Quot.sound}",
        "tools/gen.py Toggles (regex extraction of every \"VERYL_*\" string in ir/opt/*.rs, ir/comb_layout.rs, ir/module.rs, "
        "backend/cranelift/*.rs)",
        "Lemmas/Passes.lean: my model of the pass SPECIFICATIONS (module documentation side conditions); the Rust implementations "
        "of the passes are validated through the toggles, not verified",
        "harness/src/dom_engines.rs, checks/c03.py, tools/vlib.py; one process per toggle set (OnceLock toggles)",
    ]
    ctx.cov["rule"] = ("the same generated designs + stimuli (C02 generator) replayed in one `hx engines` process per toggle set: "
                       "none, every driven toggle alone, all driven toggles, the ten toggles named by the property, random subsets "
                       "(thorough: 60 random subsets + all 1023 subsets of the ten named toggles); every engine's trace must equal "
                       "the same engine's baseline trace; distinct = distinct (design, baseline reply)")
    lean_list = lean_driven_list()
    ctx.cov["driven_toggles"] = sorted(DRIVEN)
    if lean_list != sorted(DRIVEN):
        ctx.violation(f"checks/c03.py drives {sorted(set(DRIVEN) - set(lean_list))} / Props/C03.lean lists "
                      f"{sorted(set(lean_list) - set(DRIVEN))}: the hand-written lists differ",
                      {"kind": "model-incomplete"}, no_input=True, kind="model!=impl")
    if not harness_build(ctx):
        return
    verify_witness(ctx)
    sets, core_subsets = toggle_sets(ctx)
    ctx.cov["toggle_sets"] = len(sets) + (len(core_subsets) if len(core_subsets) > 1 else 0)
    quick = ctx.tier != "thorough"
    t0 = time.time()
    nocc = "i2,j2,i4,j4"
    toggle_runs(ctx, "seq", 0, 12 if quick else 40, "1", nocc, sets)
    toggle_runs(ctx, "comb", 0, 6 if quick else 20, "0", nocc, sets)
    if not quick:
        # all 2^10 subsets of the ten toggles named by the property
        toggle_runs(ctx, "core-seq", 0, 6, "1", nocc, core_subsets)
        toggle_runs(ctx, "core-comb", 0, 4, "0", nocc, core_subsets)
        toggle_runs(ctx, "s3", 3, 20, "mix", nocc, sets[:40])
    # the statement-level passes feed the cc backend as well: a few designs, a few sets
    cc_sets = [sets[0], sorted(DRIVEN), sorted(CORE)] + ([] if quick else [[n] for n in CORE])
    toggle_runs(ctx, "cc", 0, 4 if quick else 12, "mix", "cc", cc_sets)
    ctx.cov["toggle_runs_s"] = round(time.time() - t0, 1)
    if not ok and not any(not ni for _, _, ni in ctx.violations):
        proof_broken(ctx, "VerylModel.Props.C03 (or Gen/Toggles.lean) no longer checks")
