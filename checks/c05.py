"""C05 — crashes and cache damage never leave a build wrong.

Proof side: VerylModel.Props.C05 (model: Core/Crash.lean).  Implementation side, on the real CLI:
(0) correspondence — the project-directory syscalls of an uncrashed run (strace) must spell the step
    word the Lean model produces for the decisions visible on disk (which files changed);
(a) crash enumeration — `strace -e inject=<syscall>:signal=SIGKILL:when=j` kills the unmodified binary
    at its j-th write / open / rename / fchmod / mkdir / unlink, for every j until the run survives;
    then a normal build must give what a clean build of the same sources gives;
(b) damage — every file under .build truncated / bit-flipped / replaced / deleted, then check + build.
"""
import json
import random
import shutil
import tomllib
from concurrent.futures import ThreadPoolExecutor

import proj
from vlib import *

LEVEL = "proof"
THEOREMS = ["atomic_files_whole", "plan_atomic_files_whole", "read_blob_exact", "damage_is_miss", "diag_damage_is_miss",
            "manifest_damage_is_miss", "purged_blob_was_a_miss", "C05_truncated_output_survives",
            "C05_atomic_write_alone_leaves_map", "C05_revert_keeps_crashed_output", "old_blob_payload_not_verified",
            "old_diag_blob_damage_drops_warnings", "no_stamp_is_stale", "no_stamp_is_miss", "lost_info_recovery", "recovery_partial", "recovery_fixed", "recovery_fixed_closed",
            "damage_recovery"]

KEY_TRUNC = "crash:truncated-output-kept-as-hit"
KEY_MAP = "crash:map-missing-next-to-complete-sv-kept-as-hit"
KEY_REVERT = "crash:output-of-crashed-run-kept-after-revert"
# (repaired in /repo by 7005a14 and 1f0da8d, so a recurrence is a plain violation:
#  damage:diagnostics-blob-unreadable-warnings-dropped, damage:blob-payload-corruption-accepted / -panic)

SYSC = "openat,write,rename,renameat,renameat2,unlink,unlinkat,fchmod,mkdir"
WORKERS = int(os.environ.get("VERIF_C05_WORKERS", "8"))

WARN_LEAF = ("module Leaf #(\n    param N: u32 = 1,\n) (\n    i: input  logic<N>,\n    o: output logic<N>,\n) {\n"
             "    var unused_v: logic<2>;\n    var w: logic;\n    assign w = unused_v && 1'b1;\n    assign o = ~i;\n}\n")


# ---------------------------------------------------------------------------------------------
# running, observing
# ---------------------------------------------------------------------------------------------

def veryl(root, args, xdg, prefix=None):
    return proj.run_veryl(root, args, xdg, prefix=prefix, timeout=600)


def observe(root, cmds, xdg):
    """Run the commands; per command: ok?, canonical diagnostic SET, panic, restored."""
    res = []
    for cmd in cmds:
        rc, out = veryl(root, ["--verbose", cmd], xdg)
        res.append({"cmd": cmd, "rc": rc, "diags": sorted(set(proj.diagnostics(out, root))),
                    "panic": proj.panicked(out), "restored": proj.restored_count(out), "tail": out[-1500:]})
    return res


def outputs(root):
    """relpath -> bytes (root-normalised) of every emitted file."""
    res = {}
    for dp, dn, fn in os.walk(root):
        if ".build" in dp.split(os.sep):
            continue
        for f in fn:
            if f.endswith((".sv", ".map", ".f")):
                p = os.path.join(dp, f)
                with open(p, "rb") as fh:
                    res[os.path.relpath(p, root)] = fh.read().replace(root.encode(), b"<ROOT>")
    return res


def sources(root):
    res = {}
    for dp, dn, fn in os.walk(root):
        if ".build" in dp.split(os.sep):
            continue
        for f in fn:
            if f.endswith(".veryl") or f == "Veryl.toml":
                p = os.path.join(dp, f)
                with open(p, "rb") as fh:
                    res[os.path.relpath(p, root)] = fh.read()
    return res


def read_file(p):
    try:
        with open(p, "rb") as fh:
            return fh.read()
    except OSError:
        return None


def load_manifest(root):
    try:
        with open(f"{root}/.build/cache/manifest.toml", "rb") as fh:
            return tomllib.load(fh).get("files", {})
    except Exception:
        return {}


def tmp_left(root):
    n = 0
    for dp, dn, fn in os.walk(root):
        n += sum(1 for f in fn if f.startswith(".tmp"))
    return n


def hx_hash(path):
    if not os.path.exists(HX):
        return None
    rc, out = sh([HX, "hash", path])
    m = re.match(r"([0-9a-f]{64}) ", out)
    return m.group(1) if m else None


# ---------------------------------------------------------------------------------------------
# strace
# ---------------------------------------------------------------------------------------------

LINE = re.compile(r"^(\d+)\s+(\w+)\((.*)\)\s+=\s+(-?\d+|\?)(.*)$")


def parse_trace(path):
    evs = []
    killed = False
    for line in (read_lines(path) or []):
        if "+++ killed by SIGKILL" in line:
            killed = True
        m = LINE.match(line)
        if m:
            evs.append({"sys": m.group(2), "args": m.group(3), "ret": m.group(4)})
    return evs, killed


def quoted(args):
    return re.findall(r'"((?:[^"\\]|\\.)*)"', args)


def abstract(evs, root):
    """Project-directory events: (kind, path, detail).  kind in T (open+trunc), C (create temp, O_EXCL),
    O (read-only open), W, M (fchmod), R (rename; path = destination, detail = source), U, D (mkdir)."""
    fds = {}
    out = []
    ords = {}
    for e in evs:
        s, a = e["sys"], e["args"]
        ords[s] = ords.get(s, 0) + 1
        e["ord"] = ords[s]
        q = quoted(a)
        if s == "openat" and q:
            p = q[0]
            if e["ret"] not in ("?",) and int(e["ret"]) >= 0:
                fds[int(e["ret"])] = p
            if p.startswith(root + "/"):
                kind = "C" if "O_EXCL" in a else ("T" if "O_TRUNC" in a else "O")
                out.append((kind, p, e["ret"]))
        elif s in ("write", "fchmod"):
            m = re.match(r"(\d+)", a)
            p = fds.get(int(m.group(1))) if m else None
            if p and p.startswith(root + "/"):
                out.append(("W" if s == "write" else "M", p, e["ret"]))
        elif s in ("rename", "renameat", "renameat2") and len(q) >= 2:
            if q[1].startswith(root + "/"):
                out.append(("R", q[1], q[0]))
        elif s in ("unlink", "unlinkat") and q:
            if q[0].startswith(root + "/"):
                out.append(("U", q[0], e["ret"]))
        elif s == "mkdir" and q and q[0].startswith(root + "/"):
            out.append(("D", q[0], e["ret"]))
    return out


def strace_prefix(log, inject=None, paths=()):
    pre = ["strace", "-f", "-o", log, "-e", "trace=" + SYSC]
    if inject:
        pre += ["-e", "inject=" + inject]
    for p in paths:
        pre += ["-P", p]
    return pre


# ---------------------------------------------------------------------------------------------
# scenarios
# ---------------------------------------------------------------------------------------------

def edit_leaf_and_pkg(files):
    files["src/leaf.veryl"] = files["src/leaf.veryl"].replace("assign o = ~i;", "assign o = i;")
    files["src/pkg_a.veryl"] = re.sub(r"const W: u32 = \d+", "const W: u32 = 16", files["src/pkg_a.veryl"])


def sc_cold(root, files, xdg):
    return None


def sc_edit(root, files, xdg):
    veryl(root, ["build"], xdg)
    edit_leaf_and_pkg(files)
    proj.sync_tree(root, files, {})


def sc_delsv(root, files, xdg):
    veryl(root, ["build"], xdg)
    os.remove(f"{root}/src/leaf.sv")


def sc_delboth(root, files, xdg):
    veryl(root, ["build"], xdg)
    os.remove(f"{root}/src/mid.sv")
    os.remove(f"{root}/src/mid.sv.map")


def sc_dmgfrag(root, files, xdg):
    """warm tree with one bit of leaf's fragment payload flipped (read_blob must reject and remove it)"""
    veryl(root, ["build"], xdg)
    man = load_manifest(root)
    rel = ".build/cache/" + man[os.path.join(root, "src/leaf.veryl")]["fragment"]
    apply_damage(os.path.join(root, rel), ("flip", "half"), 0)
    with open(f"{root}/.c05_damaged", "w") as fh:
        fh.write(rel + "\n")


def post_none(root, files, st):
    return None


def post_edit_leaf_pkg(root, files, st):
    edit_leaf_and_pkg(files)
    proj.sync_tree(root, files, {})


def post_edit_again(root, files, st):
    files["src/leaf.veryl"] = files["src/leaf.veryl"].replace("assign o = i;", "assign o = i & i;")
    files["src/pkg_a.veryl"] = re.sub(r"const W: u32 = \d+", "const W: u32 = 4", files["src/pkg_a.veryl"])
    proj.sync_tree(root, files, {})


def post_edit_other(root, files, st):
    files["src/alone.veryl"] = files["src/alone.veryl"] + "\n// touched after the crash\n"
    proj.sync_tree(root, files, {})


def sc_toml(root, files, xdg):
    veryl(root, ["build"], xdg)
    with open(f"{root}/Veryl.toml", "a") as fh:
        fh.write('reset_type = "sync_high"\n')


def post_toml_revert(root, files, st):
    with open(f"{root}/Veryl.toml", "w") as fh:
        fh.write(proj.toml({}))


def sc_revert(root, files, xdg):
    veryl(root, ["build"], xdg)
    st = os.stat(f"{root}/src/leaf.veryl")
    with open(f"{root}/src/leaf.veryl.keep", "w") as fh:
        fh.write(files["src/leaf.veryl"] + f"\n{st.st_atime_ns} {st.st_mtime_ns}")
    edit_leaf_and_pkg(files)
    proj.sync_tree(root, files, {})


def post_revert_mtime(root, files, st):
    """undo the edit of leaf.veryl by moving the kept original back (content AND mtime as before)"""
    with open(f"{root}/src/leaf.veryl.keep") as fh:
        body = fh.read()
    text, _, stamp = body.rpartition("\n")
    a, m = stamp.split()
    files["src/leaf.veryl"] = text
    with open(f"{root}/src/leaf.veryl", "w") as fh:
        fh.write(text)
    os.utime(f"{root}/src/leaf.veryl", ns=(int(a), int(m)))


# name -> (files variant, prepare, crashed command, post-crash edit, recovery commands)
SCENARIOS = {
    "cold": ("plain", sc_cold, "build", post_none, ["build"]),
    "edit": ("plain", sc_edit, "build", post_none, ["build"]),
    "delsv": ("plain", sc_delsv, "build", post_none, ["build"]),
    "check": ("warn", sc_edit, "check", post_none, ["check", "build"]),
    "delboth": ("plain", sc_delboth, "build", post_none, ["build"]),
    "edit+edit": ("plain", sc_edit, "build", post_edit_other, ["build"]),
    "cold-warn": ("warn", sc_cold, "build", post_none, ["check", "build"]),
    "toml-revert": ("plain", sc_toml, "build", post_toml_revert, ["build"]),
    "revert-mtime": ("plain", sc_revert, "build", post_revert_mtime, ["build"]),
    "edit-big": ("big", sc_edit, "build", post_none, ["build"]),
    "dmgfrag": ("plain", sc_dmgfrag, "build", post_none, ["build"]),
    # the crashed build may die at its very last write (info.toml); then the sources are edited and `veryl check`
    # moves the manifest ahead of the outputs before the next build: only the missing stamp makes them stale
    "coldck": ("plain", sc_cold, "build", post_edit_leaf_pkg, ["check", "build"]),
    "editck": ("plain", sc_edit, "build", post_edit_again, ["check", "build"]),
}
QUICK = ["cold", "edit", "delsv", "check", "delboth", "coldck"]
THOROUGH = QUICK + ["edit+edit", "cold-warn", "toml-revert", "revert-mtime", "edit-big", "dmgfrag", "editck"]


def variant_files(v):
    files = proj.base_files()
    if v == "warn":
        files["src/leaf.veryl"] = WARN_LEAF
    if v == "big":
        files = proj.base_files(w=33, extra="    var pad: logic<PkgA::W>;\n    assign pad = i;\n")
        for n in range(4):
            files[f"src/extra{n}.veryl"] = (f"module Extra{n} (\n    a: input  logic<PkgA::W>,\n    b: output logic<PkgA::W>,\n) {{\n"
                                            f"    assign b = a ^ {n};\n}}\n")
    return files


class Tree:
    """One worker's copy of a scenario's pre-state, restorable at the SAME absolute path (the cache
    stores absolute paths)."""

    def __init__(self, base, tag, scen, xdg):
        self.scen = scen
        self.dir = f"{base}/{tag}"
        self.root = f"{self.dir}/warm"
        self.pre = f"{self.dir}/pre"
        self.xdg = xdg
        variant, prepare, self.cmd, self.post, self.recover = SCENARIOS[scen]
        shutil.rmtree(self.dir, ignore_errors=True)
        os.makedirs(self.root)
        self.files = variant_files(variant)
        proj.sync_tree(self.root, self.files, {})
        self.built_sources = None
        prepare(self.root, self.files, xdg)
        self.pre_files = dict(self.files)
        shutil.copytree(self.root, self.pre, symlinks=True)
        self.pre_manifest = read_file(f"{self.pre}/.build/cache/manifest.toml")

    def restore(self):
        shutil.rmtree(self.root, ignore_errors=True)
        shutil.copytree(self.pre, self.root, symlinks=True)
        self.files = dict(self.pre_files)


def clean_reference(base, tag, root_like, recover, xdg):
    """Same sources (no outputs, no .build) in a fresh directory with the same leaf name."""
    d = f"{base}/{tag}/warm"
    shutil.rmtree(os.path.dirname(d), ignore_errors=True)
    os.makedirs(d)
    for rel, data in sources(root_like).items():
        os.makedirs(os.path.dirname(os.path.join(d, rel)), exist_ok=True)
        with open(os.path.join(d, rel), "wb") as fh:
            fh.write(data)
    obs = observe(d, recover, xdg)
    outs = outputs(d)
    shutil.rmtree(os.path.dirname(d), ignore_errors=True)
    return obs, outs


def compare(obs, outs, cobs, couts):
    """None, or (kind, text, differing output files)."""
    for o in obs:
        if o["panic"]:
            return "panic", f"`veryl {o['cmd']}` panicked", []
    for o, c in zip(obs, cobs):
        if (o["rc"] == 0) != (c["rc"] == 0):
            return "status", f"`veryl {o['cmd']}` exit {o['rc']} (clean: {c['rc']})", []
        if o["diags"] != c["diags"]:
            only_c = [d for d in c["diags"] if d not in o["diags"]]
            only_w = [d for d in o["diags"] if d not in c["diags"]]
            return "diags", f"`veryl {o['cmd']}` diagnostics differ: missing={only_c} extra={only_w}", []
    if outs != couts:
        ks = sorted(k for k in set(outs) | set(couts) if outs.get(k) != couts.get(k))
        return "outputs", "outputs differ from the clean build: " + ", ".join(ks), ks
    return None


# ---------------------------------------------------------------------------------------------
# (0) + (a): reference run, correspondence word, crash points
# ---------------------------------------------------------------------------------------------

def disk_state(root):
    st = {}
    for dp, dn, fn in os.walk(root):
        for f in fn:
            p = os.path.join(dp, f)
            s = os.stat(p)
            st[os.path.relpath(p, root)] = (s.st_ino, s.st_mtime_ns, s.st_size)
    return st


def src_ids(root):
    srcs = sorted(os.path.relpath(os.path.join(dp, f), root) for dp, dn, fn in os.walk(f"{root}/src") for f in fn
                  if f.endswith(".veryl"))
    return {s: i for i, s in enumerate(srcs)}


def blob_ids(root, ids, *manifests):
    m = {}
    for man in manifests:
        for src, e in man.items():
            i = ids.get(os.path.relpath(src, root))
            if i is None:
                continue
            if e.get("fragment"):
                m.setdefault(".build/cache/" + e["fragment"], i)
            if e.get("diagnostics"):
                m.setdefault(".build/cache/" + e["diagnostics"], 1000 + i)
    return m


def tag_of(rel, ids, bids):
    if rel == ".build/lock":
        return "lock0"
    if rel == ".build/cache/lock":
        return "lock1"
    if rel == ".build/cache/manifest.toml":
        return "manifest"
    if rel == ".build/info.toml":
        return "info"
    if rel == "prj.f":
        return "flist"
    if rel == "Veryl.lock":
        return "vlock"
    if rel.endswith(".sv.map"):
        return f"map{ids.get(rel[:-7] + '.veryl', '?')}"
    if rel.endswith(".sv"):
        return f"sv{ids.get(rel[:-3] + '.veryl', '?')}"
    if rel.endswith(".frag"):
        return f"blob{bids.get(rel, '?' + os.path.basename(rel)[:8])}"
    return "other:" + rel


def observed_word(aevs, root, ids, bids):
    final = {}
    for k, p, d in aevs:
        if k == "R":
            final[d] = p
    word = []
    for k, p, d in aevs:
        if k in ("O", "D"):
            continue
        rel = os.path.relpath(p, root)
        if os.path.basename(p).startswith(".tmp"):
            dst = final.get(p)
            t = tag_of(os.path.relpath(dst, root), ids, bids) if dst else "orphan"
            if t == "vlock":
                continue
            word.append({"C": f"C:{t}", "W": f"W:tmp.{t}", "M": f"M:{t}"}.get(k, f"{k}:tmp"))
            continue
        t = tag_of(rel, ids, bids)
        if t == "vlock":
            continue
        word.append(f"{k}:{t}")
    return canon_word(word)


def canon_word(word):
    """`diagnosed` is a HashMap and `gc` follows read_dir: the order inside the diagnostics-blob group
    and inside the unlink group is not specified; sort inside those groups."""
    out, i = [], 0

    def is_diag(t):
        m = re.match(r"[CWMR]:(?:tmp\.)?blob(\d+)$", t)
        return bool(m) and int(m.group(1)) >= 1000
    while i < len(word):
        if is_diag(word[i]):
            j = i
            while j < len(word) and is_diag(word[j]):
                j += 1
            grp = word[i:j]
            blocks = [grp[k:k + 4] for k in range(0, len(grp), 4)]
            blocks.sort(key=lambda b: int(re.search(r"blob(\d+)", b[0]).group(1)))
            out += [t for b in blocks for t in b]
            i = j
        elif word[i].startswith("U:"):
            j = i
            while j < len(word) and word[j].startswith("U:"):
                j += 1
            out += sorted(word[i:j])
            i = j
        else:
            out.append(word[i])
            i += 1
    return out


def model_request(root, ids, before, after, man_before, man_after, cmd, damaged=()):
    """The decisions, read from the disk before/after the run (not from the trace).  `damaged`: blob files
    the scenario corrupted (`read_blob` removes them when `try_restore` reaches them)."""
    bids = blob_ids(root, ids, man_after, man_before)

    def written(rel):
        return rel in after and (rel not in before or before[rel][:2] != after[rel][:2])
    new_blobs = sorted(r for r in after if r.endswith(".frag") and (r not in before or before[r][:2] != after[r][:2] or r in damaged))
    newfrag = set(bids[r] for r in new_blobs if r in bids and bids[r] < 1000)
    diag = sorted(bids[r] for r in new_blobs if r in bids and bids[r] >= 1000)
    frag = []                     # pass-1 loop in path order: purge(s) of file i, then its new fragment blob
    for s_, i in sorted(ids.items(), key=lambda kv: kv[1]):
        e = man_before.get(os.path.join(root, s_), {})
        fr = ".build/cache/" + e["fragment"] if e.get("fragment") else None
        dg = ".build/cache/" + e["diagnostics"] if e.get("diagnostics") else None
        if fr in damaged:
            frag.append(f"p{i}")
        elif dg in damaged:
            frag.append(f"p{1000 + i}")
        if i in newfrag:
            frag.append(str(i))
    outs = []
    for s, i in sorted(ids.items(), key=lambda kv: kv[1]):
        if written(s[:-6] + ".sv"):
            outs.append(f"s{i}")
        if written(s[:-6] + ".sv.map"):
            outs.append(f"m{i}")
    gone = sorted(r for r in before if r.endswith(".frag") and r not in after and r not in damaged)
    gc = sorted(str(bids.get(r, "?")) for r in gone)
    req = "steps i [{}] [{}] {} [{}] {} [{}] {}".format(
        ",".join(map(str, frag)), ",".join(outs), 1 if written("prj.f") else 0, ",".join(map(str, diag)),
        1 if written(".build/cache/manifest.toml") else 0, ",".join(gc),
        1 if written(".build/info.toml") else 0)
    return req, bids, len(new_blobs) - len(newfrag) - len(diag)


def reference_run(base, scen, xdg):
    """Uncrashed traced run of the scenario's command: the event list, the model request, the crash classes.
    `Incremental::open` silently gives up when `binary_fingerprint()` cannot read the running executable
    (seen under memory pressure: 8 processes reading a 200 MB binary at once); such a run never opens the
    store (no `.build/cache/lock`) and is not what the model describes: it is repeated (at most 3 times)."""
    r = None
    for attempt in range(3):
        r = reference_run_once(base, scen, xdg)
        r["attempts"] = attempt + 1
        if "T:lock1" in r["word"]:
            break
    return r


def reference_run_once(base, scen, xdg):
    t = Tree(base, f"ref-{scen}", scen, xdg)
    ids = src_ids(t.root)
    before = disk_state(t.root)
    man_before = load_manifest(t.root)
    log = f"{t.dir}/ref.strace"
    rc, out = veryl(t.root, ["--quiet", t.cmd], xdg, prefix=strace_prefix(log))
    evs, killed = parse_trace(log)
    aevs = abstract(evs, t.root)
    after = disk_state(t.root)
    man_after = load_manifest(t.root)
    damaged = (read_file(f"{t.root}/.c05_damaged") or b"").decode().split()
    req, bids, unmapped = model_request(t.root, ids, before, after, man_before, man_after, t.cmd, damaged)
    word = observed_word(aevs, t.root, ids, bids)
    inplace = sorted(set(p for k, p, d in aevs if k == "T"))
    # how many invocations of each syscall to enumerate: up to the last one that touches the project directory
    # (`veryl check` prints its report with hundreds of write(2) calls after everything is saved)
    fds, last = {}, {}
    for e in evs:
        q = quoted(e["args"])
        touches = any(x.startswith(t.root + "/") for x in q)
        if e["sys"] == "openat" and q and e["ret"] != "?" and int(e["ret"]) >= 0:
            fds[int(e["ret"])] = q[0]
        if e["sys"] in ("write", "fchmod"):
            m = re.match(r"(\d+)", e["args"])
            touches = bool(m) and fds.get(int(m.group(1)), "").startswith(t.root + "/")
        if touches:
            last[e["sys"]] = e["ord"]
    counts = {
        "write": last.get("write", 0),
        "openat": sum(1 for e in evs if e["sys"] == "openat" and quoted(e["args"]) and quoted(e["args"])[0] in inplace),
        "renameat": last.get("renameat", 0),
        "fchmod": last.get("fchmod", 0),
        "mkdir": last.get("mkdir", 0),
        "unlink": last.get("unlink", 0),
    }
    rel_inplace = [os.path.relpath(p, t.root) for p in inplace]
    clean0 = None
    if t.post is not post_none:         # what a clean build of the CRASHED run's sources/options emits
        clean0 = clean_reference(base, f"clean0-{scen}", t.root, t.recover, xdg)[1]
    t.post(t.root, t.files, None)
    clean = clean_reference(base, f"clean-{scen}", t.root, t.recover, xdg)
    shutil.rmtree(t.dir, ignore_errors=True)
    return {"scen": scen, "rc": rc, "request": req, "word": word, "counts": counts, "inplace": rel_inplace,
            "unmapped_blobs": unmapped, "nevents": len(aevs), "clean": clean + (clean0 if clean0 is not None else clean[1],)}


def crash_chunk(args):
    """One worker, one scenario tree, a contiguous range of kill indices of one syscall class; the chunk
    holding the last index continues until a run survives."""
    base, xdg, scen, cls, js, until_survives, inplace, clean, cid = args
    t = Tree(base, f"c{cid}", scen, xdg)
    res = []
    try:
        for j in js:
            res.append(crash_case(t, xdg, cls, j, inplace, clean))
        j = js[-1]
        # a run may have more events than the reference run had (fragment bytes differ from run to run):
        # go on while the kill still lands on a project-directory syscall
        while until_survives and res[-1]["killed"] and res[-1].get("in_project") and j < 400:
            j += 1
            res.append(crash_case(t, xdg, cls, j, inplace, clean))
    finally:
        shutil.rmtree(t.dir, ignore_errors=True)
    return res


def crash_case(t, xdg, cls, j, inplace, clean):
    scen = t.scen
    t.restore()
    log = f"{t.dir}/crash.strace"
    paths = [os.path.join(t.root, r) for r in inplace] if cls == "openat" else []
    rc, out = veryl(t.root, ["--quiet", t.cmd], xdg, prefix=strace_prefix(log, f"{cls}:signal=SIGKILL:when={j}", paths))
    evs, killed = parse_trace(log)
    res = {"scen": scen, "cls": cls, "j": j, "killed": killed, "rc": rc}
    if not killed:
        return res
    aevs = abstract(evs, t.root)
    last = evs[-1] if evs else {"sys": "?", "args": "", "ret": ""}
    res["kill_at"] = f"{last['sys']}({last['args'][:160]})".replace(t.root, "<ROOT>")
    res["aevs"] = [(k, os.path.relpath(p, t.root), d if k != "R" else os.path.relpath(d, t.root)) for k, p, d in aevs]
    if last["sys"] in ("write", "fchmod") and res["aevs"] and res["aevs"][-1][0] in ("W", "M") and res["aevs"][-1][2] == "?":
        res["kill_at"] += " -> " + res["aevs"][-1][1]
    res["in_project"] = t.root in last["args"] or "->" in res["kill_at"]
    res["tmp_left"] = tmp_left(t.root)
    res["manifest_unchanged"] = read_file(f"{t.root}/.build/cache/manifest.toml") == t.pre_manifest
    res["pre_outputs"] = sorted(outputs(t.pre))
    crashed_out = outputs(t.root)
    res["empty_after_crash"] = sorted(k for k, v in crashed_out.items() if v == b"")
    t.post(t.root, t.files, None)
    obs = observe(t.root, t.recover, xdg)
    outs = outputs(t.root)
    cobs, couts, couts0 = clean
    res["obs"] = [{k: o[k] for k in ("cmd", "rc", "restored", "panic")} for o in obs]
    d = compare(obs, outs, cobs, couts)
    res["diff"] = d
    if d:
        res["detail"] = {"warm": {k: (outs.get(k) or b"")[:200].decode("utf-8", "replace") if k in outs else None for k in d[2]},
                         "clean_len": {k: len(couts.get(k, b"")) for k in d[2]},
                         "obs_tail": [o["tail"][-600:] for o in obs], "files": dict(t.files)}
        res["key"] = classify_crash(t, res, outs, couts, couts0) if d[0] == "outputs" else None
    return res


def classify_crash(t, res, outs, couts, couts0):
    """The verified signatures of the recorded crash findings (anything else is a new violation).
    Every differing file must be an output of a source whose content hash equals the hash in the manifest
    the next build opened (so the next build restored it instead of re-emitting), and must be explained by
    the crashed run's own syscalls:
    truncated = the crashed run opened this very file with O_TRUNC and never completed a write to it;
    absent    = a `.sv.map` absent before the crashed run, which was killed before opening it, while the
                sibling `.sv` exists (that is all `dst_is_stale` looks at);
    reverted  = complete, equal to what a clean build of the crashed run's sources/options emits, written
                completely by the crashed run before it was killed (the sources/options were then reverted)."""
    ks = res["diff"][2]
    man = load_manifest(t.root)
    evs = res["aevs"]
    kinds = set()
    hashed = {}
    for rel in ks:
        if not rel.endswith((".sv", ".sv.map")):
            return None
        src = (rel[:-3] if rel.endswith(".sv") else rel[:-7]) + ".veryl"
        if src not in hashed:
            ent = man.get(os.path.join(t.root, src))
            if not ent or not ent.get("fragment"):
                return None
            h = hx_hash(os.path.join(t.root, src))
            res["hash_method"] = "blake3(hx)" if h else "history"
            if h is not None:
                if h != ent.get("hash"):
                    return None
            elif not res["manifest_unchanged"] or t.post is not post_none:
                return None
            hashed[src] = True
        warm, clean = outs.get(rel), couts.get(rel)
        wrote = any(k == "W" and p == rel and d != "?" for k, p, d in evs)
        if warm is not None and clean is not None and len(warm) < len(clean) and clean.startswith(warm):
            idx = [i for i, (k, p, d) in enumerate(evs) if k == "T" and p == rel and d != "?"]
            if not idx or any(k == "W" and p == rel and d != "?" for k, p, d in evs[idx[-1]:]):
                return None
            kinds.add("trunc")
        elif warm is None and clean is not None and rel.endswith(".sv.map"):
            sv = rel[:-4]
            if rel in res["pre_outputs"] or any(k == "T" and p == rel and d != "?" for k, p, d in evs) or sv not in outs:
                return None
            kinds.add("absent")
        elif warm is not None and t.post is not post_none and warm == couts0.get(rel) and wrote and res["manifest_unchanged"]:
            kinds.add("reverted")
        else:
            return None
    return KEY_REVERT if "reverted" in kinds else (KEY_TRUNC if "trunc" in kinds else KEY_MAP)


# ---------------------------------------------------------------------------------------------
# (b) damage
# ---------------------------------------------------------------------------------------------

TRUNCS = [0, 1, 7, 8, "half", "m1"]
FLIPS = [0, 5, 8, "q", "half", "q3", "m1"]


def damage_ops(tier_all):
    ops = [("trunc", n) for n in TRUNCS] + [("flip", o) for o in FLIPS] + [("garbage", 0), ("delete", 0)]
    return ops


def apply_damage(p, op, seed):
    data = read_file(p)
    kind, arg = op
    n = len(data)
    pos = {"half": n // 2, "m1": max(n - 1, 0), "q": n // 4, "q3": 3 * n // 4}.get(arg, arg)
    if kind == "flipfrac":            # sweep over the payload: position 8 + arg/128 of the rest
        kind, pos = "flip", 8 + (max(n - 8, 1) * arg) // 128
    if kind == "trunc":
        new = data[:pos]
    elif kind == "flip":
        if not data:
            return False
        pos = min(pos, n - 1)
        new = data[:pos] + bytes([data[pos] ^ 0x01]) + data[pos + 1:]
    elif kind == "garbage":
        r = random.Random(seed)
        new = bytes(r.randrange(256) for _ in range(max(n, 16)))
    else:
        os.remove(p)
        return True
    if new == data:
        return False
    with open(p, "wb") as fh:
        fh.write(new)
    return True


def damage_targets(root):
    """role -> relpath of every file under .build"""
    man = load_manifest(root)
    roles = {}
    for src, e in sorted(man.items()):
        b = os.path.basename(src)[:-6]
        if e.get("fragment"):
            roles[f"frag:{b}"] = ".build/cache/" + e["fragment"]
        if e.get("diagnostics"):
            roles[f"diag:{b}"] = ".build/cache/" + e["diagnostics"]
    roles["manifest"] = ".build/cache/manifest.toml"
    roles["info"] = ".build/info.toml"
    roles["lock"] = ".build/lock"
    roles["cachelock"] = ".build/cache/lock"
    return roles


def damage_tree(base, tag, xdg):
    t = Tree.__new__(Tree)
    t.scen = "dmg"
    t.dir = f"{base}/{tag}"
    t.root, t.pre, t.xdg = f"{t.dir}/warm", f"{t.dir}/pre", xdg
    t.post, t.recover, t.cmd = post_none, ["check", "build"], "build"
    shutil.rmtree(t.dir, ignore_errors=True)
    os.makedirs(t.root)
    t.files = variant_files("warn")
    proj.sync_tree(t.root, t.files, {})
    veryl(t.root, ["build"], xdg)
    t.pre_files = dict(t.files)
    shutil.copytree(t.root, t.pre, symlinks=True)
    t.pre_manifest = read_file(f"{t.pre}/.build/cache/manifest.toml")
    return t


def apply_edit(t, edit):
    if edit in ("leaf+pkg", "checked"):
        edit_leaf_and_pkg(t.files)
        proj.sync_tree(t.root, t.files, {})
    elif edit == "other":
        post_edit_other(t.root, t.files, None)


def damage_clean(base, xdg, edit):
    t = damage_tree(base, f"dclean-{edit}", xdg)
    apply_edit(t, edit)
    c = clean_reference(base, f"dcleanref-{edit}", t.root, t.recover, xdg)
    shutil.rmtree(t.dir, ignore_errors=True)
    return edit, c


def damage_chunk(args):
    base, xdg, cases, cleans, cid = args
    t = damage_tree(base, f"d{cid}", xdg)
    res = []
    try:
        for role, op, edit, seed in cases:
            res.append(damage_case(t, xdg, role, op, edit, seed, cleans[edit]))
    finally:
        shutil.rmtree(t.dir, ignore_errors=True)
    return res


def damage_case(t, xdg, role, op, edit, seed, clean):
    t.restore()
    if edit == "checked":       # edit, then `veryl check` (manifest now ahead of the outputs), THEN the damage
        apply_edit(t, edit)
        veryl(t.root, ["check"], xdg)
    roles = damage_targets(t.root)
    res = {"role": role, "op": op, "edit": edit}
    if role not in roles:
        res["skipped"] = "no such file"
        return res
    rel = roles[role]
    res["rel"] = rel
    res["len"] = len(read_file(os.path.join(t.root, rel)) or b"")
    if not apply_damage(os.path.join(t.root, rel), op, seed):
        res["skipped"] = "no-op on this file"
        return res
    # what the damaged file looks like to `read_blob` (taken now: read_blob removes a file that fails its hash)
    data, orig = read_file(os.path.join(t.root, rel)), read_file(os.path.join(t.pre, rel))
    res["payload_only"] = bool(data is not None and orig is not None and len(data) == len(orig)
                               and data[:8] == orig[:8] and data != orig and rel.endswith(".frag"))
    if edit != "checked":
        apply_edit(t, edit)
    obs = observe(t.root, t.recover, xdg)
    outs = outputs(t.root)
    cobs, couts = clean
    res["obs"] = [{k: o[k] for k in ("cmd", "rc", "restored", "panic")} for o in obs]
    d = compare(obs, outs, cobs, couts)
    res["diff"] = d
    if d:
        res["detail"] = {"obs_tail": [o["tail"][-800:] for o in obs], "files": dict(t.files)}
        res["panic_sites"] = sorted(set(re.findall(r"panicked at ([^\n]*)", "\n".join(o["tail"] for o in obs))))
    return res


# ---------------------------------------------------------------------------------------------

# quick tier: every write of the warm scenarios (each kill leaves one distinct torn state), the opens of the
# deleted-both scenario (the only place where "between two outputs" matters), every rename of edit/check, and a
# spread over the cold build; the thorough tier enumerates every class in every scenario
QUICK_CLASSES = {"cold": ["write", "renameat"], "edit": ["write", "renameat"], "delsv": ["write"],
                 "delboth": ["write", "openat"], "check": ["write", "renameat"], "coldck": ["write"]}
ALL_CLASSES = ["write", "openat", "renameat", "fchmod", "mkdir", "unlink"]
QUICK_LIMIT = {("cold", "write"): 6, ("cold", "renameat"): 5, ("coldck", "write"): 5}   # a spread (no cache exists yet in a cold build)


def chunks(xs, n):
    return [xs[i:i + n] for i in range(0, len(xs), n)]


def run(ctx):
    ok = lean_check(ctx, "VerylModel.Props.C05", THEOREMS)
    ctx.cov["trusted_base"] = [
        "Lean 4.33 kernel; axioms ⊆ {propext, Classical.choice, Quot.sound}",
        "model: toml round-trips manifest/info.toml, BLAKE3 names blobs, one write() delivers its buffer; "
        "analyzer, fragment encoder/decoder opaque (C04's DepSound/NoDeletedDep are hypotheses of the recovery theorems)",
        "strace (syscall-entry SIGKILL injection: the killed syscall does not execute), rename atomicity of the file system, "
        "tools/proj.py, checks/c05.py"]
    ctx.cov["rule"] = ("(0) project-dir syscall word of an uncrashed run = model step word (vmodel crash) per scenario; "
                       "(a) kill `veryl build|check` at its j-th write (every j of the warm scenarios), open of an in-place file, "
                       "renameat (thorough: + unlink, fchmod, mkdir, every class in every scenario, all j until the run survives); scenarios cold / warm-after-edit / "
                       "deleted .sv / deleted .sv+.map / check / cold build + edit + `veryl check` before the next build (thorough: + edit after the crash, warnings, Veryl.toml "
                       "change+revert, mtime-preserving revert, larger project, a corrupted fragment blob); then build and compare outputs, exit status "
                       "and diagnostic set with a clean build of the same sources; (b) files under .build (manifest, info.toml, "
                       "diagnostics blob, fragments, locks) truncated / bit-flipped / garbage / deleted (quick: 33 picked cases; "
                       "thorough: {0,1,7,8,n/2,n-1} x 7 flip offsets x all fragments x further edits + a 128-position payload "
                       "sweep), then check + build vs clean; info.toml also damaged AFTER edit + `veryl check` (manifest ahead of the outputs); distinct = distinct (scenario, killed syscall) and "
                       "(file role, damage, edit) cases")
    if not cli_build(ctx):
        return
    base = proj.scratch_dir("c05")
    xdg = f"{base}/xdg"
    os.makedirs(xdg, exist_ok=True)
    thorough = ctx.tier == "thorough"
    scens = THOROUGH if thorough else QUICK
    if os.environ.get("VERIF_C05_SCEN"):          # development aid
        scens = [x for x in os.environ["VERIF_C05_SCEN"].split(",") if x != "none"]
    hist = {}

    def bump(k, n=1):
        hist[k] = hist.get(k, 0) + n

    try:
        # ---- (0) reference runs + correspondence --------------------------------------------
        edits = [None, "leaf+pkg", "other", "checked"] if thorough else [None]
        with ThreadPoolExecutor(max_workers=WORKERS) as ex:
            fut_clean = [ex.submit(damage_clean, base, xdg, e) for e in set(edits) | {"checked"}]
            refs = list(ex.map(lambda s: reference_run(base, s, xdg), scens))
            dcleans = dict(f.result() for f in fut_clean)
        ctx.log(f"reference runs done ({len(refs)} scenarios, {round(time.time() - ctx.t0)} s)")
        d = f"{ctx.run_dir}/crash"
        os.makedirs(d, exist_ok=True)
        with open(f"{d}/ops.txt", "w") as fh:
            fh.write("".join(r["request"] + "\n" for r in refs))
        run_model("crash", d)
        replies = read_lines(f"{d}/model.txt") or []
        with open(f"{d}/impl.txt", "w") as fh:
            fh.write("".join(",".join(r["word"]) + "\n" for r in refs))
        agree = 0
        for r, rep in zip(refs, replies + ["(no reply)"] * len(refs)):
            ctx.cov["evaluations"] += 1
            ctx.cov["traces_validated_against_impl"] += 1
            bump("ref_events", r["nevents"])
            bump("reference_run_retries", r["attempts"] - 1)
            expect_fail = SCENARIOS[r["scen"]][0] == "warn" and SCENARIOS[r["scen"]][2] == "check"
            if (r["rc"] != 0) != expect_fail:
                ctx.violation(f"reference run of scenario {r['scen']} ended with rc={r['rc']}",
                              {"kind": "check-setup", "scenario": r["scen"], "rc": r["rc"]}, no_input=True, kind="model!=impl")
            if ",".join(r["word"]) == rep and r["unmapped_blobs"] == 0:
                agree += 1
            else:
                ctx.violation(f"correspondence broken: scenario {r['scen']}: the syscalls of `veryl {SCENARIOS[r['scen']][2]}` "
                              f"spell a different word than the model's step list",
                              {"kind": "model!=impl", "correspondence": "vmodel crash vs strace of the real CLI",
                               "scenario": r["scen"], "request": r["request"], "model": rep, "impl": ",".join(r["word"]),
                               "unmapped_blobs": r["unmapped_blobs"]}, no_input=True, kind="model!=impl")
        ctx.cov["step_words_agreeing"] = agree
        for smp in refs[1:2] or refs[:1]:
            ctx.sample({"scenario": smp["scen"], "model_request": smp["request"], "word": ",".join(smp["word"])[:700]})

        # ---- (a) crash enumeration ----------------------------------------------------------
        jobs = []
        for r in refs:
            classes = ALL_CLASSES if thorough else QUICK_CLASSES.get(r["scen"], ALL_CLASSES)
            for cls in classes:
                n = r["counts"].get(cls, 0)
                js = list(range(1, n + 2))                        # n+1 must survive
                lim = None if thorough else QUICK_LIMIT.get((r["scen"], cls))
                if lim and len(js) > lim:
                    js = sorted(set(js[::max(1, len(js) // (lim - 4))][:lim - 4] + js[-4:]))
                parts = chunks(js, 6 if thorough else 9)
                for k, js in enumerate(parts):
                    jobs.append((base, xdg, r["scen"], cls, js, k == len(parts) - 1, r["inplace"], r["clean"], len(jobs)))
        random.Random(ctx.seed).shuffle(jobs)
        with ThreadPoolExecutor(max_workers=WORKERS) as ex:
            results = [x for chunk in ex.map(crash_chunk, jobs) for x in chunk]
        ctx.log(f"crash enumeration done ({len(results)} runs, {round(time.time() - ctx.t0)} s)")
        crash_findings = {}
        nviol = 0
        for r in results:
            bump(f"crash_runs_{r['scen']}")
            if not r["killed"]:
                bump("survived_runs")
                continue
            ctx.cov["evaluations"] += 1
            ctx.distinct((r["scen"], re.sub(r"\.tmp\w+", ".tmpX", r["kill_at"])))
            bump(f"killed_at_{r['cls']}")
            bump("tmp_files_left_by_crashes", r["tmp_left"])
            if r["empty_after_crash"]:
                bump("crashes_leaving_an_empty_output")
            if r["kill_at"].endswith("-> .build/info.toml"):
                bump("killed_at_the_info_toml_write")
            if sum(1 for s_ in ctx.cov["samples"] if isinstance(s_, dict) and "inject" in s_) < 2 and r["cls"] in ("write", "renameat"):
                ctx.sample({"scenario": r["scen"], "inject": f"{r['cls']}:signal=SIGKILL:when={r['j']}", "killed_at": r["kill_at"],
                            "recovery": r["obs"], "differs_from_clean": bool(r["diff"])})
            if not r["diff"]:
                continue
            sc = SCENARIOS[r["scen"]]
            body = {"kind": "impl!=oracle", "scenario": r["scen"], "files": r["detail"]["files"],
                    "how": [f"project = files above + Veryl.toml ({proj.toml({}).strip()!r}); prepare: {sc[1].__name__}",
                            f"strace -f -o LOG -e trace={SYSC} -e inject={r['cls']}:signal=SIGKILL:when={r['j']} "
                            + ("-P <each in-place file of the reference run> " if r["cls"] == "openat" else "") + f"veryl --quiet {sc[2]}",
                            f"post-crash edit: {sc[3].__name__}",
                            f"then: veryl {' ; veryl '.join(sc[4])}  -- compare with the same commands on a fresh copy of the sources"],
                    "killed_at": r["kill_at"], "events_before_kill": r["aevs"][-12:], "difference": r["diff"][1],
                    "warm_content": r["detail"]["warm"], "clean_len": r["detail"]["clean_len"],
                    "recovery_runs": r["obs"], "recovery_output_tail": r["detail"]["obs_tail"],
                    "signature": r.get("key"), "hash_method": r.get("hash_method")}
            key = r.get("key")
            if key:
                bump("finding_" + key)
                crash_findings.setdefault(key, []).append(body)
            elif nviol < 4:
                nviol += 1
                ctx.violation(f"after a crash at {r['kill_at']} (scenario {r['scen']}) the next build differs from a clean build: "
                              f"{r['diff'][1]}", body)
        for key, bodies in sorted(crash_findings.items()):
            b = dict(bodies[0])
            b["cases_with_this_signature"] = len(bodies)
            b["all_kill_points"] = sorted(set(f"{x['scenario']}: {x['killed_at']}" for x in bodies))[:30]
            ctx.violation(f"{len(bodies)} crash point(s) — {key}: {bodies[0]['difference']} (first: scenario {bodies[0]['scenario']}, "
                          f"killed at {bodies[0]['killed_at']})", b, key=key)

        # ---- (b) damage ----------------------------------------------------------------------
        roles_quick = ["manifest", "info", "diag:leaf", "frag:leaf", "frag:pkg_a", "lock", "cachelock"]
        ops_quick = {"manifest": [("trunc", 0), ("trunc", "half"), ("flip", "half"), ("flip", "q3"), ("garbage", 0), ("delete", 0)],
                     "info": [("trunc", 0), ("trunc", "half"), ("flip", "half"), ("garbage", 0), ("delete", 0)],
                     "diag:leaf": [("trunc", 0), ("trunc", 8), ("trunc", "m1"), ("flip", 5), ("flip", 8), ("flip", "half"),
                                   ("garbage", 0), ("delete", 0)],
                     "frag:leaf": [("trunc", 7), ("trunc", "half"), ("flip", 0), ("flip", "q"), ("flip", "half"), ("flip", "q3"),
                                   ("flip", "m1"), ("delete", 0)],
                     "frag:pkg_a": [("trunc", 8), ("flip", "q"), ("flip", "half"), ("garbage", 0)],
                     "lock": [("delete", 0)], "cachelock": [("garbage", 0)]}
        roles_all = roles_quick + ["frag:alone", "frag:if_a", "frag:mid", "frag:pkg_b", "frag:top"]
        cases = []
        if thorough:        # one bit at 128 evenly spread payload positions of one fragment
            for k in range(128):
                cases.append(("frag:leaf", ("flipfrac", k), None, ctx.seed + k))
        for role in (roles_all if thorough else roles_quick):
            for op in (damage_ops(True) if thorough else ops_quick[role]):
                if role in ("lock", "cachelock") and (op[0] == "flip" or (op[0] == "trunc" and op[1] != 0)):
                    continue
                for e in edits:
                    cases.append((role, op, e, ctx.seed + len(cases)))
        if not thorough:        # edit + `veryl check` first, then info.toml is lost / truncated / replaced
            for op in [("delete", 0), ("trunc", 0), ("trunc", "half"), ("garbage", 0)]:
                cases.append(("info", op, "checked", ctx.seed + len(cases)))
        if os.environ.get("VERIF_C05_DAMAGE"):      # development aid: first N cases
            cases = cases[:int(os.environ["VERIF_C05_DAMAGE"])]
        random.Random(ctx.seed).shuffle(cases)
        djobs = [(base, xdg, c, dcleans, i) for i, c in enumerate(chunks(cases, 6 if thorough else 5))]
        with ThreadPoolExecutor(max_workers=WORKERS) as ex:
            dres = [x for chunk in ex.map(damage_chunk, djobs) for x in chunk]
        ctx.log(f"damage cases done ({len(dres)} cases, {round(time.time() - ctx.t0)} s)")
        for r in dres:
            if r.get("skipped"):
                bump("damage_skipped_noop")
                continue
            ctx.cov["evaluations"] += 1
            ctx.distinct(("damage", r["role"], r["op"], r["edit"]))
            bump("damage_" + r["role"].split(":")[0])
            if r.get("payload_only"):
                bump("damage_payload_only_flips")
            if r["role"].startswith(("frag", "diag")) and r["obs"][0]["restored"]:
                bump("damaged_blob_file_missed" if r["obs"][0]["restored"][0] < r["obs"][0]["restored"][1] else "damaged_blob_all_restored")
            if sum(1 for s_ in ctx.cov["samples"] if isinstance(s_, dict) and "damage" in s_) < 2 and r["role"].startswith("frag"):
                ctx.sample({"damage": f"{r['role']} {r['op']}", "file": r["rel"], "len": r["len"], "runs": r["obs"],
                            "differs_from_clean": bool(r["diff"])})
            if not r["diff"]:
                continue
            body = {"kind": "impl!=oracle", "files": r["detail"]["files"],
                    "how": ["project = files above (default Veryl.toml of tools/proj.py); veryl build",
                            f"damage {r['rel']} ({r['role']}, {r['len']} bytes): {r['op']}",
                            f"edit: {r['edit']}", "veryl check ; veryl build  -- compare with the same on a fresh copy"],
                    "difference": r["diff"][1], "runs": r["obs"], "output_tail": r["detail"]["obs_tail"],
                    "payload_only": r.get("payload_only"), "panic_sites": r.get("panic_sites")}
            if nviol < 8:
                nviol += 1
                ctx.violation(f"damage {r['role']} {r['op']} (edit {r['edit']}): {r['diff'][1]}", body)
        ctx.cov["distribution"] = hist
    finally:
        shutil.rmtree(base, ignore_errors=True)
    if not ok and not ctx.violations:
        proof_broken(ctx, "VerylModel.Props.C05 no longer checks")
