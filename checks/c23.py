"""C23 — migration yields valid current-syntax code.

Proof: VerylModel.Props.C23 (push_token text reconstruction; which tokens are dropped; when cmd_migrate
migrates).  Differential: `hx migrate` runs old-grammar programs through the migrator's own parser, the
real `Migrator`, and the current parser; oracle = the output parses, its token sequence is the old one
minus the `for` index type annotations, every comment is kept, programs of the current grammar are left
alone; `vmodel migrate` must predict the migrator's output text exactly.

Three defects are recorded findings (comments inside the removed annotation are dropped; old-only string
escapes and the identifier `mixin` are copied verbatim).  A failing case is attributed to them only if
repairing exactly those (and nothing else) makes the case pass — see `attribute`; anything else,
including a wrong (line, column) reported by the old parser, is a violation — except positions whose
every deviation carries the verified signature of the third-party lexer defect recorded under C12
(`positions_explained_by_scnr`); those cases are counted and still judged on their migrated text."""
import os
import re
import gen
from vlib import *

LEVEL = "proof"
THEOREMS = ["content_only_spaces", "detectNl_ok", "positions", "separated_stay_separated", "walk_drops_annotation",
            "current_grammar_untouched", "old_merge_witness", "old_multiline_shift_witness"]

KEY_ANNCOM = "migrator:for_statement:annotation-comments-dropped"
KEY_ESC = "migrator:old-grammar:string-escape-not-rewritten"
KEY_MIXIN = "migrator:old-grammar:identifier-mixin-now-keyword"

OLD_ONLY_ESC = re.compile(r"\\[/br]")
MIXIN = re.compile(r"\bmixin\b")


def unhex(h):
    return b"" if h == "-" else bytes.fromhex(h)


def hexs(s):
    return s.encode("utf-8").hex() or "-"


def unlist(l):
    if l == "-" or l is None:
        return None
    l = l[1:-1]
    return [unhex(x).decode("utf-8") for x in l.split(",")] if l else []


def parse_toks(field):
    """`[texthex:line:col:keep,...]` -> list of (text, keep, is_comment)."""
    out = []
    inner = field[1:-1]
    for item in inner.split(",") if inner else []:
        h, _, _, k = item.split(":")
        t = unhex(h).decode("utf-8")
        out.append((t, k == "1", t.startswith("//") or t.startswith("/*")))
    return out


def positions_explained_by_scnr(case):
    """True iff every (line, column) the old parser reported for this case is either the true one or
    explained by the recorded third-party lexer defect KEY_SCNR of C12 (scnr2 restore_state drops
    `last_char`; signature verified per token by c12.Explainer: the token starts right after a line
    feed that ends the preceding comment run and begins with `/`).  The migrated text of such a case
    is still judged by parse/tokens/comments; only the old parser's own position code is under test
    in `positions`, and that code is not at fault here."""
    from checks import c12
    field = case.mig_op.split(" ")[2]
    inner = field[1:-1]
    src = case.src.encode("utf-8")
    ex = c12.Explainer(src if src.endswith(b"\n") else src + b"\n")
    cursor, prev_text, prev_c, prev_end = 0, b"", False, 0
    for item in inner.split(",") if inner else []:
        h, l, c, _ = item.split(":")
        text = unhex(h)
        if not text:
            continue
        p = cursor
        while not src.startswith(text, p):
            if p >= len(src) or not src[p:p + 1].isspace():
                return False
            p += 1
        tl, tc = c12.Explainer(ex.src).walk(p)        # true position: no lost line feed
        hh = text.hex()
        imp = f"{hh} {l} {c} {p:x} {len(text):x}"
        ora = f"{hh} {tl:x} {tc:x} {p:x} {len(text):x}"
        if (int(l, 16), int(c, 16)) != (tl, tc) or ex.lost:
            if not ex.explains(imp, ora, prev_text, prev_c, prev_end):
                return False
        prev_text, prev_c, prev_end = text, text.startswith(b"//") or text.startswith(b"/*"), p + len(text)
        cursor = p + len(text)
    return bool(ex.lost)


def esc_fix(t):
    return OLD_ONLY_ESC.sub("__", t)


def is_string(t):
    return len(t) >= 2 and t.startswith('"')


class Case:
    def __init__(self, src_line):
        self.src_line = src_line
        self.src = unhex(src_line.split()[1]).decode("utf-8")
        self.mig_op = None
        self.out = None          # real output
        self.model_out = None    # as-coded model
        self.replies = {}        # parse/tokens/comments/annotation/decide: (impl, oracle)
        self.toks = []


def repairs_for(case):
    """Which repairs are applicable to this case at all."""
    r = []
    if any(is_string(t) and OLD_ONLY_ESC.search(t) for t, keep, com in case.toks if keep and not com):
        r.append(KEY_ESC)
    if any(t == "mixin" for t, keep, com in case.toks if keep and not com):
        r.append(KEY_MIXIN)
    return r


def apply_repairs(case, rs):
    text = case.out
    exp = [t for t, keep, com in case.toks if keep and not com and t != ""]
    com_all = [t for t, keep, com in case.toks if com]
    com_kept = [t for t, keep, com in case.toks if com and keep]
    if KEY_ESC in rs:
        for t in sorted({t for t in exp if is_string(t) and OLD_ONLY_ESC.search(t)}, key=len, reverse=True):
            text = text.replace(t, esc_fix(t))
        exp = [esc_fix(t) if is_string(t) else t for t in exp]
    if KEY_MIXIN in rs:
        text = MIXIN.sub("mixi_", text)
        exp = [MIXIN.sub("mixi_", t) for t in exp]
        com_all = [MIXIN.sub("mixi_", t) for t in com_all]
        com_kept = [MIXIN.sub("mixi_", t) for t in com_kept]
    return text, exp, com_all, com_kept


def subsets(xs):
    out = [[]]
    for x in xs:
        out += [s + [x] for s in out]
    return sorted(out, key=len)


def read_cases(d):
    ops = read_lines(f"{d}/ops.txt") or []
    imp = read_lines(f"{d}/impl.txt") or []
    ora = read_lines(f"{d}/oracle.txt") or []
    mod = read_lines(f"{d}/model.txt") or []
    if not (len(ops) == len(imp) == len(ora) == len(mod)):
        return None, (len(ops), len(imp), len(ora), len(mod))
    cases, cur = [], None
    for o, i, r, m in zip(ops, imp, ora, mod):
        k = o.split(" ", 1)[0]
        if k == "case":
            cur = Case(o)
            cur.accepts = i
            cases.append(cur)
        elif cur is None:
            continue
        elif k == "mig":
            cur.mig_op = o
            cur.out = unhex(i).decode("utf-8") if i != "panic" else None
            cur.model_out = None if m in ("?", "bad-op") else unhex(m).decode("utf-8")
            cur.model_raw = m
            cur.toks = parse_toks(o.split(" ")[2])
        elif k == "decide":
            cur.replies["decide"] = (i, r, m, o)
        else:
            cur.replies[k] = (i, r)
    return cases, None


def reparse_many(ctx, texts, tag):
    """Re-parse texts with the real current parser (one hx call). -> list of (ok, tokens, comments)."""
    if not texts:
        return []
    d = f"{ctx.run_dir}/{tag}"
    os.makedirs(d, exist_ok=True)
    with open(f"{d}/replay.txt", "w") as fh:
        for t in texts:
            fh.write("reparse " + hexs(t) + "\n")
    rc, out, _ = run_hx(ctx, "migrate", ["--replay", f"{d}/replay.txt"], out_dir=d)
    imp = read_lines(f"{d}/impl.txt") or []
    res = []
    for i in range(len(texts)):
        r = imp[i] if i < len(imp) else "err"
        if r.startswith("ok "):
            _, a, b = r.split(" ")
            res.append((True, unlist(a), unlist(b)))
        else:
            res.append((False, None, None))
    return res


def attribute(ctx, failing):
    """For each failing case find the smallest set of repairs after which the output parses and has the
    expected token sequence; then account for the comments.  Returns [(case, keys, unexplained)]."""
    plan, texts = [], []
    for c in failing:
        for rs in subsets(repairs_for(c)):
            text, exp, com_all, com_kept = apply_repairs(c, rs)
            plan.append((c, rs, exp, com_all, com_kept))
            texts.append(text)
    res = reparse_many(ctx, texts, "attribute")
    by_case = {}
    for (c, rs, exp, com_all, com_kept), (ok, toks, coms) in zip(plan, res):
        by_case.setdefault(id(c), []).append((rs, exp, com_all, com_kept, ok, toks, coms))
    out = []
    for c in failing:
        keys, bad = None, []
        for rs, exp, com_all, com_kept, ok, toks, coms in by_case.get(id(c), []):   # smallest sets first
            if ok and toks == exp:
                keys = list(rs)
                if coms == com_all:
                    pass
                elif coms == com_kept and com_kept != com_all:
                    keys.append(KEY_ANNCOM)
                else:
                    bad.append("comments of the output are neither all comments of the input nor all but those inside the "
                               f"annotation: got {coms!r}, input has {com_all!r}")
                break
        if keys is None:
            keys = []
            i, r = c.replies.get("parse", ("?", "?"))
            bad.append("no combination of the known defects makes the migrated text parse with the expected token sequence "
                       f"(parse={i})")
        if not keys and not bad:
            bad.append("reported failing but passes on re-examination (harness inconsistency)")
        out.append((c, keys, bad))
    return out


def run(ctx):
    ctx.cov["generated"] = gen.gen(["MigratorConsts"])
    ok = lean_check(ctx, "VerylModel.Props.C23", THEOREMS)
    ctx.cov["trusted_base"] = [
        "Lean 4.33 kernel; axioms ⊆ {propext, Classical.choice, Quot.sound}",
        "tools/gen.py (extracts the body of Migrator::migratable)",
        "veryl_migrator::Parser accepts the previous grammar; the (line, column) it reports are checked against a scan of "
        "the source on every case (`positions`)",
        "the old tree walk order (every run's token list comes from the real old tree); the Formatter that cmd_migrate "
        "runs after the migrator is not part of this check (C08/C09)",
        "harness/src/dom_migrate.rs + checks/c23.py"]
    ctx.cov["rule"] = ("old-grammar programs = the 96 testcases with every `for i in` rewritten to `for i: <type> in` (or, without "
                       "a for statement, with an old-style module appended), their mutants (ASCII and multi-byte comments before "
                       "tokens, multi-line comments, multi-byte in strings, CRLF, comments inside the annotation), hand-written "
                       "witnesses and generated small modules; oracle = output parses, tokens = old tokens minus annotation, all "
                       "comments kept, current-grammar programs not migrated; distinct = distinct migrated sources")
    if not harness_build(ctx):
        return
    if getattr(ctx, "replay", None):
        args = ["--replay", ctx.replay]
    else:
        args = ["--seed", ctx.seed, "--n", tier_n(ctx, 150, 3000)]
    rc, out, d = run_hx(ctx, "migrate", args)
    if rc != 0:
        ctx.violation(f"harness domain migrate crashed (rc={rc})", {"kind": "harness-crash", "log": out[-4000:]},
                      no_input=True, kind="model!=impl")
        return
    mrc, err = run_model("migrate", d)
    if mrc != 0:
        ctx.log(f"vmodel migrate rc={mrc}: {err[-500:]}")
    for k, v in load_stats(d).items():
        if k != "samples":
            ctx.cov.setdefault("distribution", {})[f"migrate.{k}"] = v
        else:
            for s in v:
                ctx.sample(s)
    cases, lens = read_cases(d)
    if cases is None:
        ctx.violation("migrate: reply streams differ in length", {"kind": "model!=impl", "lens": lens}, no_input=True, kind="model!=impl")
        return
    failing, n_mig, model_bad = [], 0, []
    for c in cases:
        ctx.cov["evaluations"] += 1 + len(c.replies)
        dec = c.replies.get("decide")
        if dec:
            i, r, m, o = dec
            if r != "?" and i != r:
                ctx.violation(f"migrate: a program the current parser accepts would be migrated ({i}); source {c.src[:200]!r}",
                              c.src_line + "\n", kind="impl!=oracle")
            elif m != i:
                ctx.violation(f"migrate: cmd_migrate decision differs from the model at `{o}`: impl={i} model={m}",
                              {"kind": "model!=impl", "op": o, "impl": i, "model": m, "source": c.src}, no_input=True, kind="model!=impl")
        if c.mig_op is None:
            continue
        n_mig += 1
        ctx.distinct(c.src)
        if c.out is None or c.model_out != c.out:
            model_bad.append(c)
            continue
        ann = c.replies.get("annotation")
        bad = [k for k in ("parse", "tokens", "comments") if k in c.replies and c.replies[k][0] != c.replies[k][1]]
        posr = c.replies.get("positions")
        if posr and posr[1] != "?" and posr[0] != posr[1] and positions_explained_by_scnr(c):
            # third-party lexer defect recorded under C12 (KEY_SCNR); not the old parser's position
            # code, and C23's statement is still decided on this case by parse/tokens/comments below
            dist = ctx.cov.setdefault("distribution", {})
            dist["migrate.positions_off_by_scnr2_defect"] = dist.get("migrate.positions_off_by_scnr2_defect", 0) + 1
        elif posr and posr[1] != "?" and posr[0] != posr[1]:
            ctx.violation(f"migrate: the old parser reports a wrong (line, column): {posr[0]}; source {c.src[:200]!r}",
                          c.src_line + "\n", kind="impl!=oracle")
        if ann and ann[0] != ann[1]:
            ctx.violation(f"migrate: the `for` annotation found in the old tree differs from `for <ident> : … in` on the token texts; "
                          f"source {c.src[:200]!r}", c.src_line + "\n", kind="impl!=oracle")
        if bad:
            failing.append(c)
    ctx.cov["traces_validated_against_impl"] += n_mig
    for c in model_bad[:3]:
        ctx.violation(f"migrate: the model does not predict the migrator's output; source {c.src[:200]!r}: "
                      f"impl={c.out!r:.300} model={c.model_out!r:.300}",
                      {"kind": "model!=impl", "source": c.src, "impl": c.out, "model": c.model_out,
                       "replay": f"{HX} migrate --replay <file with: {c.src_line[:60]}…>"},
                      no_input=True, kind="model!=impl")
    known = {}
    unexplained = []
    rank = {}
    for c, keys, bad in attribute(ctx, failing):
        for k in keys:
            r = (len(keys), len(c.src))     # prefer a witness that needs this defect alone, then the smallest
            if k not in known or r < rank[k]:
                known[k], rank[k] = c, r
        for b in bad:
            unexplained.append((len(c.src), c, b))
    ctx.cov.setdefault("distribution", {})["migrate.failing_cases"] = len(failing)
    for k, c in sorted(known.items()):
        i = {x: c.replies[x][0][:80] for x in ("parse",) if x in c.replies}
        ctx.violation(f"migrate: {k}: source {c.src[:300]!r} -> output {c.out[:300]!r} ({i})", c.src_line + "\n", key=k, kind="impl!=oracle")
        ctx.sample(f"{k}: {c.src[:160]!r} -> {c.out[:160]!r}")
    unexplained.sort(key=lambda x: x[0])
    seen = 0
    for n, c, b in unexplained:
        if seen >= 3:
            break
        seen += 1
        ctx.violation(f"migrate: {b}; source {c.src[:300]!r} -> output {c.out[:300]!r}", c.src_line + "\n", kind="impl!=oracle")
    if not ok:
        if not any(not ni for _, _, ni in ctx.violations):
            proof_broken(ctx, "VerylModel.Props.C23 (or the extracted Migrator::migratable) no longer checks")
