"""C06 — restoring a cached pass-1 fragment reproduces the analyzer state of a fresh parse."""
import json
import os
from vlib import *

LEVEL = "proof"
THEOREMS = ["rebase_bijection", "rebase_order_distance", "rebase_onto", "rebase_bijection_sentinel",
            "out_of_window_refused", "capture_refused", "sentinel", "dict_roundtrip",
            "canon_invariant_on", "canon_invariant", "canon_sound", "canon_eq_iff", "canon_rebase"]


def _report(ctx, d, domain="fragment"):
    """diff impl/model/oracle streams of a non-sequence domain: every line is its own replay."""
    n, mism = diff3(d)
    ops = read_lines(f"{d}/ops.txt") or []
    imp = read_lines(f"{d}/impl.txt") or []
    ctx.cov["evaluations"] += n
    for o, r in zip(ops, imp):
        head = o.split(" ")[0]
        if head in ("restore", "refuse"):
            ctx.distinct((o, r))
        elif head not in ("canon", "canoneq"):
            ctx.distinct((head, o.split(" ")[1:4], r.split(" ")[0]))
    reported = 0
    for m in mism:
        if reported >= 4:
            break
        op = m["op"]
        body = {"kind": m["kind"], "domain": domain, "ops": [op], "first_difference": m, "seed": ctx.seed,
                "replay": f"{HX} {domain} --replay <file with the ops, one per line> ; {VMODEL} {domain} < ops.txt"}
        if op.startswith("restore ") or op.startswith("refuse "):
            # mismatch-*.txt (canonical dumps of the fresh and of the restored run) are next to ops.txt
            body["details_dir"] = d
        if m["kind"] == "impl!=oracle":
            key = None
            if op.startswith("restore ") and " sig=generated-path-only" in m["impl"]:
                # the only difference: PathId inside TokenSource::Generated(_) of Token::default() tokens
                key = "restore:default-token-path-id-reinterned-by-value"
            if ctx.violation(f"{domain}: restored run differs from the fresh run at `{op[:160]}`: "
                             f"restored={m['impl'][:300]} fresh={str(m['oracle'])[:300]}", body, key=key, kind="impl!=oracle"):
                reported += 1
        else:
            reported += 1
            ctx.violation(f"{domain}: model/implementation correspondence broken at `{op[:160]}`: "
                          f"impl={m['impl'][:200]} model={str(m['model'])[:200]}", body, no_input=True, kind=m["kind"])
    return mism


def _replay_file(ctx):
    """A replay file is either request lines or a violation body (JSON with "ops")."""
    path = ctx.replay
    if path.endswith(".json"):
        import json
        with open(path) as fh:
            body = json.load(fh)
        path = f"{ctx.run_dir}/replay-ops.txt"
        with open(path, "w") as fh:
            fh.write("\n".join(body.get("ops", [])) + "\n")
    return path


def run(ctx):
    ok = lean_check(ctx, "VerylModel.Props.C06", THEOREMS)
    ctx.cov["trusted_base"] = [
        "Lean 4.33 kernel; axioms ⊆ {propext, Classical.choice, Quot.sound}",
        "which struct fields carry ids is serde-derive in Rust: validated per symbol kind by the dumps, not proved",
        "postcard round-trips u64 wire values and the dictionaries; BiMap::insert overwrite semantics",
        "the dumps compared (symbol_table::dump, Debug of every Symbol, scope::dump_tokens, type_dag::dump/dump_file, "
        "attribute_table::dump, unsafe_table::dump) expose the state that matters; scope::dump_owned_scopes is #[cfg(test)] "
        "and not reachable, literal_table/definition_table/doc_comment_table have no dump (observed through later "
        "diagnostics and emitted SV only)",
        "harness/src/dom_fragment.rs + vsets.rs (tokenizer of dumps, runner) and tools/vlib.py"]
    ctx.cov["rule"] = ("(i) codec requests on boundary-biased windows (count/enc/dec, sentinel via the real SymbolId/"
                       "DefinitionId serde impls, TokenId/TextId roundtrips, StrId/PathId dictionaries with encoder and decoder "
                       "in different threads, canon/canoneq) vs M-Codec and the closed formula; (ii) generated multi-file "
                       "projects (every declaration kind, generics, proto, imports, $sv, attributes, ifdef, unsafe cdc, doc "
                       "comments, embed/test) and testcase subsets: for every position k, fragment captured in another "
                       "processing order, restored with id gaps, canon-ised dumps + later diagnostics + SV + source maps of "
                       "the other files vs a fresh run; distinct = distinct (request, reply)")
    if not harness_build(ctx):
        return
    args = ["--seed", ctx.seed, "--n", tier_n(ctx, 3000, 60000), "--sets", tier_n(ctx, 8, 300),
            "--tc", tier_n(ctx, 1, 30), "--allk", tier_n(ctx, 2, 1000)]
    if getattr(ctx, "replay", None):
        args = ["--replay", _replay_file(ctx)]
    rc, out, d = run_hx(ctx, "fragment", args)
    if rc != 0:
        ctx.violation(f"harness domain fragment crashed (rc={rc})", {"kind": "harness-crash", "log": out[-4000:]},
                      no_input=True, kind="model!=impl")
        return
    mrc, err = run_model("fragment", d)
    if mrc != 0:
        ctx.log(f"vmodel fragment rc={mrc}: {err[-500:]}")
    _report(ctx, d)
    stats = load_stats(d)
    for k, v in stats.items():
        if k != "samples":
            ctx.cov.setdefault("distribution", {})[f"fragment.{k}"] = v
    for s in stats.get("samples", []):
        ctx.sample(s)
    ctx.cov["traces_validated_against_impl"] += int(stats.get("restore.compared", 0))
    ops = read_lines(f"{d}/ops.txt") or []
    for o in ops:
        if o.startswith("restore "):
            ctx.sample(o)
            break
    if int(stats.get("restore.compared", 0)) == 0 and not getattr(ctx, "replay", None):
        ctx.violation("no restore comparison was executed (generator or capture broke)",
                      {"kind": "correspondence-broken", "stats": stats}, no_input=True, kind="model!=impl")
    if not ok:
        if not any(not ni for _, _, ni in ctx.violations):
            proof_broken(ctx, "VerylModel.Props.C06 no longer checks")
