"""C04 — incremental builds produce exactly what a clean build produces."""
import json
import random
import shutil
from concurrent.futures import ThreadPoolExecutor

import gen
import proj
from vlib import *

LEVEL = "proof"
THEOREMS = ["miss_superset", "inc_eq_clean", "warnings_once"]


SCRIPTED = [
    # a warning in a file that stays cached, re-checked three times (cached diagnostics must survive
    # every warm run; the global post-pass re-derives part of them fresh)
    [(["warn+"], "check"), ([], "check"), ([], "check"), ([], "check"), (["ws"], "build"), ([], "build")],
    # a dependency that did not exist when the depended-on file's cache entry was written: alone.veryl
    # starts instantiating Leaf, then Leaf's default port value changes (dependents of a RESTORED file)
    [(["leaf_default"], "build"), (["new_dep"], "build"), (["leaf_default"], "build"), (["leaf_default"], "check"),
     (["leaf_default"], "build")],
    # same through a package constant first used in a later build
    [(["use_z"], "build"), (["pkg_rm_const"], "build"), (["pkg_rm_const"], "build"), (["const"], "build")],
    # error introduced and repaired while other files carry warnings
    [(["warn+"], "build"), (["err+"], "build"), (["err-"], "build"), ([], "check"), (["warn-"], "check")],
    # rename/move/delete/restore chain
    [(["move"], "build"), (["delete"], "build"), (["restore"], "build"), (["rename_leaf"], "build"), (["fix_mid"], "build")],
]


def predict_request(root, cmd, key_valid):
    """The model's inputs, read from the real project directory before a warm run: manifest,
    current content hashes (computed by the real `content_hash` via `hx hash`), output freshness
    (`dst_is_stale`: recorded in info.toml, file exists, source not newer)."""
    import tomllib
    srcs = []
    for dp, dn, fn in os.walk(os.path.join(root, "src")):
        for f in fn:
            if f.endswith(".veryl"):
                srcs.append(os.path.join(dp, f))
    srcs.sort()
    man = {}
    if key_valid:
        try:
            with open(f"{root}/.build/cache/manifest.toml", "rb") as fh:
                man = tomllib.load(fh).get("files", {})
        except Exception:
            man = {}
    try:
        with open(f"{root}/.build/info.toml", "rb") as fh:
            gen_files = tomllib.load(fh).get("generated_files", {})
    except Exception:
        gen_files = {}
    rc, out = sh([HX, "hash"] + srcs)
    hashes = {}
    for line in out.splitlines():
        h, _, f = line.partition(" ")
        hashes[f] = h
    ids = {f: i for i, f in enumerate(sorted(set(srcs) | set(man)))}
    hid = {}
    def hnum(h):
        return hid.setdefault(h, len(hid) + 1)
    fresh = []
    for f in srcs:
        dst = f[:-6] + ".sv"
        g = gen_files.get(dst)
        if g is None or not os.path.exists(dst):
            continue
        stamp = g["secs_since_epoch"] * 10**9 + g["nanos_since_epoch"]
        if os.stat(f).st_mtime_ns > stamp:
            continue
        fresh.append(ids[f])
    mparts = []
    for f, e in man.items():
        deps = ";".join(str(ids[d]) for d in e.get("dependents", []) if d in ids)
        mparts.append(f"{ids[f]}:{hnum(e['hash'])}:{1 if e.get('fragment') else 0}:0:{deps}")
    req = "miss {} [{}] [{}] [{}] [{}]".format(
        1 if cmd == "build" else 0,
        ",".join(str(ids[f]) for f in srcs),
        ",".join(f"{ids[f]}:{hnum(hashes.get(f, '-'))}" for f in srcs),
        ",".join(map(str, fresh)),
        ",".join(mparts))
    return req, len(srcs)


def manifest_stamp(root):
    try:
        return os.stat(f"{root}/.build/cache/manifest.toml").st_mtime_ns
    except OSError:
        return None


def observe(root, cmd, cache_home):
    rc, out = proj.run_veryl(root, [cmd, "--verbose"], cache_home)
    return {"rc": rc, "diags": proj.diagnostics(out, root), "snap": proj.snapshot(root),
            "panic": proj.panicked(out), "restored": proj.restored_count(out), "out": out[-3000:]}


def run_history(args):
    """One edit history on a warm tree; after every command the same command is run on a copy of
    the tree with a fresh cache (the property's reference).  Returns a list of step records."""
    seed, nsteps, base = args
    script = None
    if isinstance(seed, tuple):          # scripted history: (index, [(edit names, command), …])
        seed, script = seed
        nsteps = len(script)
    rng = random.Random(seed)
    root = f"{base}/h{seed}/warm"
    cache_home = f"{base}/xdg"
    os.makedirs(root, exist_ok=True)
    files = proj.base_files()
    opts = {}
    steps = []
    proj.sync_tree(root, files, opts)
    first = observe(root, "build", cache_home)
    steps.append({"edits": ["(initial)"], "cmd": "build", "warm": first, "clean": None})
    key_toml = proj.effective_build(opts)       # [build] section the on-disk manifest's global key belongs to
    for s in range(nsteps):
        names = []
        if script is not None:
            edits = dict(proj.EDITS)
            for name in script[s][0]:
                edits[name](files, opts, rng)
                names.append(name)
        else:
            for _ in range(rng.choice([1, 1, 2])):
                name, fn = rng.choice(proj.EDITS)
                fn(files, opts, rng)
                names.append(name)
        damage = None
        if script is None and rng.random() < 0.15:
            outs = sorted(k for k in proj.snapshot(root) if k.endswith(".sv"))
            if outs:
                victim = rng.choice(outs)
                os.remove(os.path.join(root, victim))
                damage = f"rm {victim}"
                names.append(damage)
        proj.sync_tree(root, files, opts)
        cmd = script[s][1] if script is not None else rng.choice(["build", "build", "check"])
        # reference: same tree, fresh cache
        clean_root = f"{base}/h{seed}/clean{s}/warm"   # same leaf name => same relative layout
        shutil.rmtree(os.path.dirname(clean_root), ignore_errors=True)
        shutil.copytree(root, clean_root, ignore=shutil.ignore_patterns(".build"))
        for dp, dn, fn in os.walk(clean_root):      # absolute paths inside copied outputs follow the copy
            for f in fn:
                if f.endswith((".f", ".map", ".sv")):
                    pth = os.path.join(dp, f)
                    with open(pth, "rb") as fh:
                        data = fh.read()
                    if root.encode() in data:
                        st_ = os.stat(pth)
                        with open(pth, "wb") as fh:
                            fh.write(data.replace(root.encode(), clean_root.encode()))
                        os.utime(pth, ns=(st_.st_atime_ns, st_.st_mtime_ns))
        req, nsrc = predict_request(root, cmd, key_toml == proj.effective_build(opts))
        stamp = manifest_stamp(root)
        warm = observe(root, cmd, cache_home)
        if manifest_stamp(root) != stamp:
            key_toml = proj.effective_build(opts)
        clean = observe(clean_root, cmd, cache_home)
        if proj.effective_build(opts) != proj.effective_build({}) or any("toml" in s_["edits"] for s_ in steps):
            # after a [build] change the on-disk manifest's key can no longer be told from outside
            # (the key hashes the binary); the restore-count prediction is only made before that
            req = None
        steps.append({"edits": names, "cmd": cmd, "warm": warm, "clean": clean, "model_req": req, "nsrc": nsrc,
                      "files": dict(files), "opts": json.loads(json.dumps(opts))})
        shutil.rmtree(os.path.dirname(clean_root), ignore_errors=True)
    shutil.rmtree(f"{base}/h{seed}", ignore_errors=True)
    return seed, steps


def differs(step):
    w, c = step["warm"], step["clean"]
    if c is None:
        return None
    if w["panic"]:
        return "warm run panicked"
    if (w["rc"] == 0) != (c["rc"] == 0):
        return f"exit status warm={w['rc']} clean={c['rc']}"
    if w["diags"] != c["diags"]:
        return f"diagnostics differ: warm-only={[d for d in w['diags'] if d not in c['diags']]} clean-only={[d for d in c['diags'] if d not in w['diags']]}"
    if w["snap"] != c["snap"]:
        ks = sorted(set(w["snap"]) | set(c["snap"]))
        return "outputs differ: " + ", ".join(k for k in ks if w["snap"].get(k) != c["snap"].get(k))
    return None


def classify(step):
    """Signature of the one recorded finding of C04: both runs FAIL with the same errors, and the warm
    run additionally prints warnings (cached warnings of restored files are appended before the
    fail-fast exit, while a clean run stops before the pass that would produce them)."""
    w, c = step["warm"], step["clean"]
    if w["rc"] == 0 or c["rc"] == 0 or w["panic"] or w["snap"] != c["snap"]:
        return None
    werr = [d for d in w["diags"] if d[0] == "Error"]
    cerr = [d for d in c["diags"] if d[0] == "Error"]
    warm_only = [d for d in w["diags"] if d not in c["diags"]]
    clean_only = [d for d in c["diags"] if d not in w["diags"]]
    if werr and werr == cerr and not clean_only and warm_only and all(d[0] == "Warning" for d in warm_only) \
            and w["restored"] and w["restored"][0] > 0:
        return "fail-fast:cached-warnings-of-restored-files-printed-with-error"
    return None


def classify_rekey(steps, i):
    """Signature of the second recorded finding: after a Veryl.toml [build] change, `veryl check`
    (which never emits) saves the manifest under the NEW key with every file cached; the next
    `veryl build` then finds hash + fragment + an output stamp from the OLD options and restores
    files whose emitted SV depends on the changed option.  Verified on the history: the run and its
    reference both succeed with equal diagnostics; every differing output belongs to a source that
    this step did not edit; the last [build] change lies before this step and every command since
    then (before this one) was a `check`."""
    st = steps[i]
    w, c = st["warm"], st["clean"]
    if st["cmd"] != "build" or c is None or w["rc"] != 0 or c["rc"] != 0 or w["diags"] != c["diags"] or w["panic"]:
        return None
    diff = [k for k in set(w["snap"]) | set(c["snap"]) if w["snap"].get(k) != c["snap"].get(k)]
    if not diff or any(not (k.endswith(".sv") or k.endswith(".sv.map")) for k in diff):
        return None
    def eff(j):
        return proj.effective_build(steps[j].get("opts") or {})

    def files_at(j):
        return steps[j].get("files") or proj.base_files()
    last_change = None
    for j in range(1, i + 1):
        if eff(j) != eff(j - 1):
            last_change = j
    if last_change is None:
        return None
    # the first SUCCESSFUL command under the new options must be a `check` (it re-keys without emitting)
    def saves(j):
        # `build` saves the manifest when it succeeds; `check` saves before failing on WARNINGS
        # ("so a second check warms") and only an error aborts before the save
        w_ = steps[j]["warm"]
        if steps[j]["cmd"] == "check":
            return not any(d_[0] == "Error" for d_ in w_["diags"]) and not w_["panic"]
        return w_["rc"] == 0
    first_ok = next((j for j in range(last_change, i + 1) if saves(j)), None)
    if first_ok is None or first_ok == i or steps[first_ok]["cmd"] != "check":
        return None
    # every differing output belongs to a source whose text never changed since before the option change
    for k in diff:
        src = (k[:-3] if k.endswith(".sv") else k[:-7]) + ".veryl"
        base = files_at(last_change - 1).get(src)
        if base is None or any(files_at(j).get(src) != base for j in range(last_change, i + 1)):
            return None
    return "toml-change:check-rekeys-cache:next-build-restores-stale-outputs"


def run(ctx):
    ok = lean_check(ctx, "VerylModel.Props.C04", THEOREMS)
    ctx.cov["trusted_base"] = [
        "Lean 4.33 kernel; axioms ⊆ {propext, Classical.choice, Quot.sound}",
        "the analyzer is an opaque function of the project state in the model (its dependency relation is validated, not verified)",
        "BLAKE3, toml, filesystem mtime; tools/proj.py (project generator, diagnostics canonicaliser), checks/c04.py"]
    ctx.cov["rule"] = ("edit histories (17 edit kinds incl. add/move/delete/rename, warnings/errors in/out, Veryl.toml changes, "
                       "cross-file port/const changes, deleted outputs) over a 7-file project with package/interface/module "
                       "dependencies; after every build/check the same command runs on a copy of the tree with a fresh cache; "
                       "distinct = distinct (edits, command, warm result) steps")
    if not cli_build(ctx):
        return
    base = proj.scratch_dir("c04")
    nh = int(os.environ.get('VERIF_C04_N', tier_n(ctx, 24, 300)))
    ns = tier_n(ctx, 6, 12)
    rng = random.Random(ctx.seed)
    jobs = [(rng.randrange(1 << 30), ns, base) for _ in range(nh)]
    # scripted histories (always run): multi-step shapes that random histories reach only rarely
    jobs += [((i + 1, sc), 0, base) for i, sc in enumerate(SCRIPTED)]
    with ThreadPoolExecutor(max_workers=16) as ex:
        results = list(ex.map(run_history, jobs))
    shutil.rmtree(base, ignore_errors=True)
    hist = {}
    reported = 0
    for seed, steps in results:
        ctx.cov["traces_validated_against_impl"] += 1
        for i, st in enumerate(steps):
            ctx.cov["evaluations"] += 1
            for e in st["edits"]:
                hist[e.split(" ")[0]] = hist.get(e.split(" ")[0], 0) + 1
            w = st["warm"]
            hist["cmd_" + st["cmd"]] = hist.get("cmd_" + st["cmd"], 0) + 1
            hist["warm_rc_" + ("ok" if w["rc"] == 0 else "fail")] = hist.get("warm_rc_" + ("ok" if w["rc"] == 0 else "fail"), 0) + 1
            if w["restored"]:
                hist["restored_some" if w["restored"][0] else "restored_none"] = hist.get(
                    "restored_some" if w["restored"][0] else "restored_none", 0) + 1
            ctx.distinct((tuple(st["edits"]), st["cmd"], w["rc"], tuple(w["diags"]), tuple(sorted(w["snap"].items()))))
            d = differs(st)
            key = (classify(st) or classify_rekey(steps, i)) if d else None
            if d and key and any(f.get("key") == key and f.get("kind") == "known" for f in ctx.findings):
                ctx.violation(d, {}, key=key)      # listed finding: KNOWN-FINDING line, no replay
                continue
            if d and reported < 3:
                reported += 1
                body = {"kind": "impl!=oracle", "history_seed": seed, "failing_step": i, "difference": d,
                        "history": [{"edits": s["edits"], "cmd": s["cmd"], "files": s.get("files"), "opts": s.get("opts"),
                                     "warm_rc": s["warm"]["rc"], "warm_diags": s["warm"]["diags"],
                                     "clean_rc": s["clean"]["rc"] if s["clean"] else None,
                                     "clean_diags": s["clean"]["diags"] if s["clean"] else None} for s in steps[:i + 1]],
                        "warm_output_tail": st["warm"]["out"], "clean_output_tail": st["clean"]["out"]}
                ctx.violation(f"incremental result differs from fresh-cache result after edits {st['edits']} + `{st['cmd']}`: {d}",
                              body, key=key)
        if len(ctx.cov["samples"]) < 3:
            ctx.sample([{"edits": s["edits"], "cmd": s["cmd"], "rc": s["warm"]["rc"], "restored": s["warm"]["restored"],
                         "diags": [d[1] for d in s["warm"]["diags"]]} for s in steps])
    # correspondence: the Lean model of Incremental::open predicts "Restored k/n" of every warm run
    reqs = [(seed, i, st) for seed, steps in results for i, st in enumerate(steps) if st.get("model_req")]
    d = f"{ctx.run_dir}/incr"
    os.makedirs(d, exist_ok=True)
    with open(f"{d}/ops.txt", "w") as fh:
        fh.write("".join(st["model_req"] + "\n" for _, _, st in reqs))
    run_model("incr", d)
    replies = read_lines(f"{d}/model.txt") or []
    agree = 0
    for (seed, i, st), rep in zip(reqs, replies):
        real = st["warm"]["restored"]
        m = re.match(r"restored=(\d+) ", rep)
        if real is None or not m:
            continue          # the run failed before the restore pass (e.g. parse error): nothing to compare
        if int(m.group(1)) == real[0] and st["nsrc"] == real[1]:
            agree += 1
        elif reported < 5:
            reported += 1
            ctx.violation(f"correspondence broken: model of Incremental::open predicts `{rep}` but the build reported "
                          f"Restored {real[0]}/{real[1]} (history {seed} step {i}, edits {st['edits']})",
                          {"kind": "model!=impl", "correspondence": "vmodel incr vs `veryl --verbose` restore count",
                           "request": st["model_req"], "model": rep, "impl": real, "history_seed": seed, "step": i,
                           "edits": st["edits"], "files": st.get("files"), "opts": st.get("opts")},
                          no_input=True, kind="model!=impl")
    ctx.cov["model_predictions_checked"] = agree
    ctx.cov["distribution"] = hist
    if not ok and not ctx.violations:
        proof_broken(ctx, "VerylModel.Props.C04 no longer checks")
