"""C01 — emitted SystemVerilog behaves like the Veryl design.

There is no SystemVerilog simulator in the sandbox: the SV side is the Lean model M-SV
(`Core/SV.lean`, my transcription of IEEE 1800-2017), run by `vmodel emit` on the text the REAL
emitter produced (parsed by the mini parser of harness/src/svparse.rs).

oracle          SV.run(real emitted SV) trace  =  real simulator trace          (kind impl!=oracle)
correspondence  Veryl-side model trace (Core/EmitModel.lean) = real simulator trace,
                parsed emitted module = emitModel(design, cfg)                   (kind model!=impl)
for generated designs x all 8 [build] clock_type x reset_type settings (+ explicit port types).

Streams:
  witnesses   one minimal design per known deviation of the unchanged tree (key = defect class);
              a witness that stops failing is noted, a failing one is a KNOWN-FINDING once listed
  corpus      fixed internal seeds (committed regression corpus, independent of VERIF_SEED)
  fresh       VERIF_SEED-driven designs of the swept-stable stratum (quick) / all strata (thorough)
A fresh mismatch is shrunk by the harness (`--vmodel`, delta debugging on the design) and classified
by a signature predicate evaluated on the SHRUNK Veryl text; unclassified = VIOLATION."""
import json
import os
import re

from vlib import *

LEVEL = "proof"
THEOREMS = [
    "C01_prec_eq_ieee", "C01_pow_assoc_witness", "C01_ctx_eq_ieee",
    "C01_ctx_select_signed_witness", "C01_ctx_relational_signed_witness",
    "C01_ctx_width_cast_unsigned_witness", "C01_ctx_type_cast_width_witness",
    "C01_eval_eq_ieee", "C01_eval_eq_ieee_text", "C01_cond_eq_ieee",
    "C01_step_eq", "C01_step_eq_all_settings", "C01_inactive_edge_silent", "C01_reset_assertion_edge", "C01_trace_eq_partial",
    "C01_relational_sign_witness", "C01_select_sign_witness", "C01_width_cast_sign_witness", "C01_type_cast_witness",
    "C01_widening_cast_witness", "C01_eq_flag_witness",
]

# signature predicates on a shrunk design (Veryl text): defect class -> predicate
SIGNED_DECL = re.compile(r"(\w+): (?:input |output )?signed logic")


def _signed_names(src):
    return set(SIGNED_DECL.findall(src)) | set(re.findall(r"var (\w+): signed logic", src))


def classify(src):
    """Defect class of a shrunk failing design, or None."""
    sn = _signed_names(src)
    body = src[src.index(") {"):] if ") {" in src else src
    if re.search(r"\*\*[^;()]*\*\*", body):
        return "pow:right-assoc-vs-ieee-left-assoc"
    if re.search(r"[~^\-+&|] [~^\-+&|]\w", body) and re.search(r"(~ [&|^])|(\^ ~)|(- -)|(\+ \+)|(& &)|(\| \|)", body):
        return "emit:unary-operator-tokens-glued"
    if re.search(r" as [iu](8|16|32|64)\b", body):
        return "cast:type-cast-operand-not-widened"
    if re.search(r"\$(un)?signed\((?!\w+\))", body):
        return "signed-fn:non-leaf-operand-zero-extended"
    if re.search(r"always_ff", body) and re.search(r"\$(un)?signed\((\w+)\)", body):
        m = re.search(r"\$(un)?signed\((\w+)\)", body)
        if re.search(rf"\b{m.group(2)}(\[[\d:]+\])? +=", body):
            return "always_ff:signed-fn-operand-reads-blocking-value"
    for n in sn:
        if re.search(rf"\b{n}\[\d+(:\d+)?\]", body.replace(f"{n}[", f"{n}[", 1)) and re.search(rf"[^\w]{n}\[\d", " " + re.sub(rf"\b{n}\[[\d:]+\] *=", "", body)):
            return "select:signedness-of-signed-variable-kept"
    if re.search(r"case [^{]*[~\-+*&|^][^{]*\{", body):
        return "case:selector-not-widened"
    if re.search(r"case ", body) and len(set(re.findall(r"(\d+)'(s?)[hdbo]\w+(?=[,:])", body))) > 1:
        return "case:items-compared-pairwise"
    if re.search(r"\) as \d+|\w as \d+", body):
        for n in sn:
            if re.search(rf"\b{n}\b[^;]* as \d+", body):
                return "cast:width-cast-result-unsigned"
        if re.search(r"[&|^~]\((\w|\[|\]|:)+ as \d+\)|\{[^}]* as \d+", body):
            return "cast:widening-cast-dropped-in-self-determined-context"
    if re.search(r"(<:|>:|<=|>=)", re.sub(r"\w+(\[[\d:]+\])? <= ", "", body)) and len(sn) >= 1:
        return "relational:result-signed-when-operands-signed"
    if re.search(r"[&|^]\s*\w+\)? *(==|!=)|(==|!=) *\(?[^;]*[&|^]|<<|>>", body) and re.search(r"==|!=", body) and sn:
        return "eq:operand-sign-flag-lost-after-bitwise"
    if re.search(r"always_comb", body) and re.search(r"= [^;]*\d+'[^;]*;", body):
        return "always_comb:const-rhs-self-determined-on-reassignment"
    if re.search(r"logic<(6[5-9]|[7-9]\d|\d{3,})>|\{[^}]*,[^}]*\}", body):
        return "wide:select-assign-of-65-bit-rhs"
    return None


def fields(line):
    return dict(x.split("=", 1) for x in line.split(" ") if "=" in x)


def decode_src(op):
    t = op.split(" ")
    try:
        return bytes.fromhex(t[7]).decode()
    except Exception:
        return ""


def run_stream(ctx, name, args, st, shrink=True, timeout=3000):
    """One `hx emit` run + the Lean model; returns list of (op, impl, model) and the shrunk reports."""
    d = f"{ctx.run_dir}/{name}"
    a = list(args)
    if shrink:
        a += ["--vmodel", VMODEL, "--budget", 400]
    rc, out, d = run_hx(ctx, "emit", a, out_dir=d, timeout=timeout)
    if rc != 0:
        # the machine is shared: one retry before a harness crash is reported
        rc, out, d = run_hx(ctx, "emit", a, out_dir=d, timeout=timeout)
    if rc != 0:
        ctx.violation(f"harness domain emit crashed (rc={rc}, stream {name})", {"kind": "harness-crash", "log": out[-4000:]},
                      no_input=True, kind="model!=impl")
        return [], []
    mrc, err = run_model("emit", d)
    if mrc != 0:
        ctx.log(f"vmodel emit rc={mrc}: {err[-500:]}")
    ops, imp, mod = read_lines(f"{d}/ops.txt") or [], read_lines(f"{d}/impl.txt") or [], read_lines(f"{d}/model.txt") or []
    if not (len(ops) == len(imp) == len(mod)):
        ctx.violation(f"emit/{name}: reply streams differ in length ({len(ops)},{len(imp)},{len(mod)})", {"kind": "stream-length"},
                      no_input=True, kind="model!=impl")
        return [], []
    stats = load_stats(d)
    dist = ctx.cov.setdefault("distribution", {})
    for k, v in stats.items():
        if k != "samples":
            dist[f"{name}.{k}"] = dist.get(f"{name}.{k}", 0) + v
    for s in stats.get("samples", [])[:1]:
        if not s.startswith(("panic", "sim-error")):
            ctx.sample(s[:1500])
    for k in ("rejected", "unsupported", "panic", "sim-error"):
        st[k] = st.get(k, 0) + stats.get(k, 0)
    st["designs"] = st.get("designs", 0) + stats.get("designs", 0)
    for s in stats.get("samples", []):
        if s.startswith(("panic", "sim-error")):
            # an accepted design on which simulator / emitter panics: the property cannot even be stated
            ctx.violation(f"emit/{name}: {s[:200]}", {"kind": "impl!=oracle", "what": s}, key="panic:" + s.split(" ")[0], kind="impl!=oracle")
    shrunk = []
    try:
        with open(f"{d}/shrunk.txt") as fh:
            shrunk = [x for x in fh.read().split("### ") if x.strip()]
    except FileNotFoundError:
        pass
    try:
        with open(f"{d}/reasons.txt") as fh:
            for l in fh.read().split("\n")[:-1]:
                n, _, why = l.partition("\t")
                if why.startswith("unsupported"):
                    st.setdefault("unsupported_reasons", {})[why[:100]] = st.get("unsupported_reasons", {}).get(why[:100], 0) + int(n)
    except FileNotFoundError:
        pass
    return list(zip(ops, imp, mod)), shrunk


def compare(ctx, name, rows, shrunk, st, witness=False):
    """Oracle and correspondence verdict of every line."""
    reported = set()
    fresh_fail = []
    for op, imp, mod in rows:
        t = op.split(" ")
        tag = t[8] if len(t) > 8 else "-"
        if imp.startswith("rejected") or imp == "bad-op" or mod == "bad-op":
            if witness:
                ctx.notes.append(f"witness of `{tag}` is not accepted any more ({imp[:80]}): it suppresses nothing")
            elif imp != mod and not imp.startswith("rejected"):
                ctx.violation(f"emit/{name}: harness and driver disagree on well-formedness of a request",
                              {"kind": "model!=impl", "ops": [op], "impl": imp, "model": mod}, no_input=True, kind="model!=impl")
            continue
        fi, fm = fields(imp), fields(mod)
        ctx.cov["evaluations"] += 1
        st["lines"] = st.get("lines", 0) + 1
        if fm.get("sv") == "dc":
            st["dont_care_x"] = st.get("dont_care_x", 0) + 1
            continue
        ctx.cov["traces_validated_against_impl"] += 1
        ctx.distinct((t[1], t[3], t[4], fi.get("sv")))
        src = decode_src(op)
        # ---- oracle: SV.run(real emitted SV) = real simulator
        if fm.get("sv") != fi.get("sv"):
            body = {"kind": "impl!=oracle", "cfg": t[1], "veryl": src, "stimulus": t[3], "simulator_trace": fi.get("sv"),
                    "sv_model_trace": fm.get("sv"), "seed": ctx.seed, "stream": name,
                    "replay": f"{HX} emit --replay <file with the request line> --out DIR ; {VMODEL} emit < DIR/ops.txt", "ops": [op]}
            if witness:
                st["witness_failing"] = st.get("witness_failing", 0) + 1
                ctx.violation(f"witness `{tag}`: simulator trace {fi.get('sv')} but the emitted SystemVerilog means {fm.get('sv')} "
                              f"[{' '.join(src.split())[:200]}]", body, key=tag, kind="impl!=oracle")
            else:
                fresh_fail.append((op, fi, fm, src, body))
        elif witness:
            ctx.notes.append(f"witness of `{tag}` no longer fails: the known finding suppresses nothing")
            st["witness_passing"] = st.get("witness_passing", 0) + 1
        # ---- correspondence
        if fm.get("vm") not in ("na", "dc", fi.get("vm")) and fm.get("sv") == fi.get("sv"):
            k = ("vm", src)
            if k not in reported:
                reported.add(k)
                ctx.violation(f"emit/{name}: Veryl-side model trace {fm.get('vm')} != simulator trace {fi.get('vm')} (cfg {t[1]})",
                              {"kind": "model!=impl", "veryl": src, "stimulus": t[3], "ops": [op]}, no_input=True, kind="model!=impl")
        if fm.get("emit", "eq") not in ("eq", "na"):
            k = ("emit", src)
            if k not in reported:
                reported.add(k)
                ctx.violation(f"emit/{name}: parsed emitted module differs from emitModel ({fm.get('emit')}, cfg {t[1]})",
                              {"kind": "model!=impl", "veryl": src, "ops": [op]}, no_input=True, kind="model!=impl")
    # fresh failures: one report per design, classified on the shrunk text
    by_design = {}
    for rep in shrunk:
        m = re.match(r"design (\d+) cfg (\w+) \((\d+) candidates\)\n(.*?)stim (\S+)\n(.*)$", rep, re.S)
        if m:
            by_design["d" + m.group(1)] = m
    seen = set()
    for op, fi, fm, src, body in fresh_fail:
        tag = op.split(" ")[8]
        if tag in seen:
            continue
        seen.add(tag)
        small = by_design.get(tag)
        key = None
        if small:
            body["shrunk_veryl"] = small.group(4)
            body["shrunk_stimulus"] = small.group(5)
            body["shrunk_result"] = small.group(6).strip()
            key = classify(small.group(4))
        st["fresh_failing_designs"] = st.get("fresh_failing_designs", 0) + 1
        what = " ".join((small.group(4) if small else src).split())[:300]
        ctx.violation(f"emit/{name}: simulator {fi.get('sv')[:60]} vs emitted SystemVerilog {fm.get('sv')[:60]} on `{what}`"
                      + (f" — defect class {key}" if key else " — unclassified"), body, key=key, kind="impl!=oracle")


def run(ctx):
    ok = lean_check(ctx, "VerylModel.Props.C01", THEOREMS)
    ctx.cov["trusted_base"] = [
        "Lean 4.33 kernel; axioms ⊆ {propext, Classical.choice, Quot.sound}",
        "M-SV (Core/SV.lean) is MY reading of IEEE 1800-2017 (Table 11-2, §11.3.2, §11.4, §11.6.1, §11.8, §5.7.1, §6.24.1, "
        "§10.7, §12.5, §9.2.2, §10.4.2) reduced to a 2-state cycle protocol; it is the ONLY SystemVerilog oracle available "
        "(no SV simulator in the sandbox) — an error in that reading is an error of the verdict",
        "harness/src/svparse.rs: mini parser of the emitted subset (anything else is counted as unsupported, not judged)",
        "Core/EmitModel.lean: hand model of gather_context/apply_context, the interpreter and Simulator::step/step_reset; tied to the "
        "real code only by the differential runs; per-operator arithmetic at a given (width, signed) is shared with M-SV and "
        "rests on C17/C18",
        "harness/src/dom_emit.rs (generator, real parser/analyzer/emitter/simulator driving, shrinker), tools/vlib.py; "
        "simulator = interpreter, 2-state; `x` (division by zero …) = don't care",
    ]
    ctx.cov["rule"] = ("designs (comb + always_ff with if_reset; operators incl. shifts/compare/ternary/concat/casts/selects; widths ≤ 64 "
                       "in the stable stratum) × 8 build configurations + explicit clock/reset port types; per line the real simulator "
                       "trace must equal SV.run of the really emitted text (oracle), the Veryl-side model trace and emitModel "
                       "(correspondence); evaluation = one (design, cfg) trace; distinct = distinct (cfg, stimulus, emitted module, "
                       "trace); the clean generator avoids the constructs of the listed known findings, each of which is replayed "
                       "by a fixed witness")
    if not harness_build(ctx):
        return
    st = ctx.cov.setdefault("streams", {})
    # 1. witnesses of the known findings
    s = st.setdefault("witness", {})
    rows, _ = run_stream(ctx, "witness", ["--witness", 1], s, shrink=False)
    compare(ctx, "witness", rows, [], s, witness=True)
    # 2. committed regression corpus: fixed seeds, all strata that were swept clean
    s = st.setdefault("corpus", {})
    for seed, level in [(1, 3), (2, 3), (7, 3), (101, 2), (13, 3)][: tier_n(ctx, 3, 5)]:
        rows, shrunk = run_stream(ctx, f"corpus-{seed}", ["--seed", seed, "--n", tier_n(ctx, 20, 40), "--cycles", 8, "--level", level,
                                                           "--depth", 2, "--wide", 0], s)
        compare(ctx, f"corpus-{seed}", rows, shrunk, s)
    # 3. fresh designs from VERIF_SEED: the swept-stable stratum in quick, everything in thorough
    s = st.setdefault("fresh", {})
    plan = [(ctx.seed * 10 + 1, 2, 0, tier_n(ctx, 30, 150)), (ctx.seed * 10 + 2, 3, 0, tier_n(ctx, 30, 300))]
    if ctx.tier == "thorough":
        plan += [(ctx.seed * 10 + 3, 3, 1, 150)]
    for seed, level, wide, n in plan:
        rows, shrunk = run_stream(ctx, f"fresh-{level}-{wide}", ["--seed", seed, "--n", n, "--cycles", tier_n(ctx, 8, 16), "--level", level,
                                                                  "--depth", 2, "--wide", wide], s)
        compare(ctx, f"fresh-{level}-{wide}", rows, shrunk, s)
    tot = sum(x.get("designs", 0) for x in st.values())
    uns = sum(x.get("unsupported", 0) for x in st.values())
    ctx.cov["unsupported_rate"] = round(uns / max(1, 8 * tot), 4)
    if not ok and not any(not ni for _, _, ni in ctx.violations):
        proof_broken(ctx, "VerylModel.Props.C01 no longer checks")
