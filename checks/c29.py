"""C29 — the cache store behaves like a versioned key-value map."""
import gen
from vlib import *

LEVEL = "proof"
THEOREMS = [
    # T5 invariant (all op sequences), association lists are maps
    "inv_preserved", "inv_reachable", "reachable_facts", "keys_unique", "skip_iff_same_map",
    # T1 refinement of the abstract versioned key-value map (Spec / astep)
    "refines", "refines_all", "disk_is_last_saved_build", "saved_unchanged", "spec_put", "spec_reopen",
    # T4 skip-write shortcut (+ the literal disk equality that does NOT hold)
    "skip_write_sound", "skip_write_disk_eq_false",
    # sentence 1: reopen with the same key
    "reopen_same_key", "reopen_same_key_payloads",
    # sentence 2: other key / other schema
    "other_key_empty", "other_schema_empty", "reopen_other_key", "reopen_other_schema",
    # sentence 3 (T3): GC
    "gc_keeps_referenced", "gc_removes_unreferenced", "save_keeps_next_blobs",
    # read_blob verifies the content hash (repo 7005a14): removal branch unreachable under Inv
    "read_blob_never_removes_under_inv", "loads_are_noops", "read_blob_rejects_foreign_bytes",
    "read_blob_sound",
]


def run(ctx):
    ctx.cov["generated"] = gen.gen(["StoreConsts"])
    ok = lean_check(ctx, "VerylModel.Props.C29", THEOREMS)
    ctx.cov["trusted_base"] = [
        "Lean 4.33 kernel; axioms ⊆ {propext, Classical.choice, Quot.sound}",
        "tools/gen.py (extracts SCHEMA_VERSION, BLOB_MAGIC)",
        "BLAKE3 = injective blob naming; toml round-trips a manifest; atomic_write/remove_file succeed",
        "harness/src/dom_store.rs + tools/vlib.py (correspondence and oracle comparison)"]
    ctx.cov["rule"] = ("random op sequences (open/put/keep/inval/deps/tests/setdiag/save/drop, identical re-scans, key changes) "
                       "on the real Store in a temp dir, each followed by reopening with every key and querying every path; "
                       "distinct = distinct (op,reply) sequences")
    if not harness_build(ctx):
        return
    n = tier_n(ctx, 400, 20000)
    sequence_differential(ctx, "store", ["--seed", ctx.seed, "--n", n, "--len", tier_n(ctx, 25, 60)])
    if not ok:
        # the differential above is the search for a failing input
        if not any(not ni for _, _, ni in ctx.violations):
            proof_broken(ctx, "VerylModel.Props.C29 (or its generated constants) no longer checks")
