"""C11 — analysis, emission and formatting never crash on parseable input."""
import re
import shutil

from vlib import *

LEVEL = "proof"
THEOREMS = []          # filled from Props/C11.lean when present (see run)


def panic_key(reply):
    """`panic /repo/crates/x/src/f.rs:123::message` -> key naming file, enclosing fn and message
    (robust against unrelated line shifts, still one key per call site)."""
    m = re.match(r"panic (\S+?):(\d+)::(.*)$", reply)
    if not m:
        return "panic:unknown-location:" + reply[:60]
    path, line, msg = m.group(1), int(m.group(2)), m.group(3)
    fn = "?"
    try:
        with open(path) as fh:
            lines = fh.read().split("\n")
        for i in range(min(line, len(lines)) - 1, -1, -1):
            mm = re.match(r"\s*(?:pub(?:\([^)]*\))?\s+)?(?:const\s+|async\s+|unsafe\s+)*fn\s+(\w+)", lines[i])
            if mm:
                fn = mm.group(1)
                break
    except OSError:
        pass
    rel = path.replace("/repo/", "")
    rel = re.sub(r"^.*/registry/src/[^/]+/", "registry/", rel)
    return f"panic:{rel}:{fn}:{msg[:40]}"


def huge_dimension(text):
    """True if the source declares a packed/unpacked dimension list whose product is >= 10^9 or a
    single dimension >= 10^7 (`logic<1000000, 1000000>`, `[100000000]`)."""
    for m in re.finditer(r"[<\[]\s*([0-9_,\s]+?)\s*[>\]]", text):
        prod = 1
        for part in m.group(1).split(","):
            part = part.strip().replace("_", "")
            if part.isdigit():
                prod *= max(int(part), 1)
        if prod >= 10 ** 7:
            return True
    return False


def huge_for_range(text):
    """True if the source has a `for <id> in <a>..<b>` (or `..=`) over literal bounds spanning
    >= 10^5 values."""
    for m in re.finditer(r"\bfor\s+\w+(?:\s*:\s*\w+)?\s+in\s+(?:rev\s+)?([0-9][0-9_]*)\s*\.\.=?\s*([0-9][0-9_]*)", text):
        a, b = int(m.group(1).replace("_", "")), int(m.group(2).replace("_", ""))
        if b - a >= 10 ** 5:
            return True
    return False


def recursive_type(text):
    """True if the struct/union declarations of the source reference each other in a cycle
    (member types naming another declared struct/union)."""
    decls = {}
    for m in re.finditer(r"\b(?:struct|union)\s+(\w+)\s*\{([^}]*)\}", text):
        decls[m.group(1)] = m.group(2)
    graph = {n: {t for t in re.findall(r":\s*(\w+)", body) if t in decls} for n, body in decls.items()}

    def reach(a, seen):
        for b in graph.get(a, ()):
            if b in seen:
                return True
            if reach(b, seen | {b}):
                return True
        return False
    return any(reach(n, {n}) for n in graph)


def run(ctx):
    prop_file = f"{LEAN}/VerylModel/Props/C11.lean"
    ok = True
    if os.path.exists(prop_file):
        ok = lean_check(ctx, "VerylModel.Props.C11", None)
    ctx.cov["trusted_base"] = [
        "Lean 4.33 kernel (theorems of Props/C11.lean: panic-freedom of the modelled arithmetic core in checked semantics)",
        "the run below is a SEARCH for a failing input and the validation of the model's caller assumptions, not a proof: "
        "walkers of analyzer/emitter/formatter are exercised, not modelled",
        "harness/src/dom_pipeline.rs (catch_unwind, 16 MiB thread stack = language server's, wall-clock limit)"]
    ctx.cov["rule"] = ("all testcases/veryl, testcases/error and std sources plus line-level mutants (delete/duplicate/transplant/"
                       "swap lines, swap tokens, rename identifiers, inflate numbers, change types); each parseable input runs "
                       "pass1, post-pass1, pass2, post-pass2, emit (error-free inputs only, as the CLI does) and format; "
                       "distinct = distinct (input, result) pairs")
    if not harness_build(ctx):
        return
    n = tier_n(ctx, 700, 30000)
    rc, out, d = run_hx(ctx, "pipeline", ["--seed", ctx.seed, "--n", n])
    ops = read_lines(f"{d}/ops.txt") or []
    imp = read_lines(f"{d}/impl.txt") or []
    stats = load_stats(d)
    if rc != 0 or len(imp) != len(ops) or not ops:
        # the harness itself died: stack overflow / abort = a crash the property forbids
        last = ops[len(imp)] if len(imp) < len(ops) else "(unknown)"
        ctx.violation(f"pipeline harness died (rc={rc}) — abort/stack overflow while processing {last}",
                      {"kind": "impl!=oracle", "rc": rc, "log": out[-3000:], "last_case": last}, kind="impl!=oracle")
        return
    ctx.cov["evaluations"] = len(ops)
    ctx.cov["distribution"] = {k: v for k, v in stats.items() if k != "samples"}
    for s in stats.get("samples", []):
        ctx.sample(s)
    seen = {}
    for i, (o, r) in enumerate(zip(ops, imp)):
        ctx.distinct((o.split(" ", 2)[-1], r))
        if r.startswith("ok") or r == "noparse":
            continue
        src = f"{d}/case_{i}.veryl"
        text = ""
        try:
            with open(src) as fh:
                text = fh.read()
        except OSError:
            pass
        if r.startswith("panic"):
            key = panic_key(r)
        elif huge_dimension(text):
            # signature verified on the input: it declares a vector/array dimension of >= 10^6
            # elements (or a product >= 10^9); elaboration then allocates per-bit state
            key = "elaboration:huge-vector-dimension:no-size-limit"
        elif r.startswith("slow") and re.search(r"\brepeat\s+[0-9_]{6,}", text):
            # signature verified on the input: a concatenation replicated >= 10^5 times
            key = "elaboration:huge-repeat-count:no-size-limit"
        elif not r.startswith("panic") and huge_for_range(text):
            # signature verified on the input: a `for` over a literal range of >= 10^5 values, which
            # elaboration unrolls (time and memory linear in the range, no limit)
            key = "elaboration:huge-for-range:no-size-limit"
        elif r.startswith("abort") and recursive_type(text):
            # signature verified on the input: struct/union declarations contain each other
            key = "elaboration:recursive-struct-union-type:stack-overflow"
        else:
            key = "slow-or-abort:" + hashlib.sha256(text.encode()).hexdigest()[:12]
        if key in seen:
            continue
        seen[key] = i
        body = {"kind": "impl!=oracle", "case": o, "result": r, "key": key, "seed": ctx.seed, "source": text}
        body["replay"] = f"{HX} pipeline --replay <file with the source>"
        ctx.violation(f"pipeline crashed on a parseable input: {r} ({o})", body, key=key)
    if not ok and not ctx.violations:
        proof_broken(ctx, "VerylModel.Props.C11 no longer checks")
