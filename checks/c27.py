"""C27 — check modes agree with write modes."""
import concurrent.futures
import hashlib
import random
import shutil
from vlib import *

LEVEL = "proof"
THEOREMS = ["fmt_check_iff", "fmt_check_pure", "build_unchanged_iff", "build_check_partial", "build_unchanged_imp_check",
            "C27_missing_map_witness", "C27_filelist_witness", "C27_std_witness", "C27_missing_empty_witness",
            "build_check_iff_false"]
KEY_MAP = "build--check:ignores-sourcemap"
KEY_LIST = "build--check:ignores-filelist"
KEY_STD = "build--check:ignores-std"
KEY_WSTD = "build--check:writes-std"

SRC = {
    "a.veryl": "package PkgA {\n    const W: u32 = 8;\n}\n",
    "b.veryl": "module ModB (\n    o: output logic<PkgA::W>,\n) {\n    assign o = 0;\n}\n",
    "c.veryl": "module ModC (\n    o: output logic<PkgA::W>,\n) {\n    inst u: ModB (\n        o,\n    );\n}\n",
}



_SEEN_KEYS = {}


def keyed(ctx, text, body, key, kind="impl!=oracle"):
    """Report a finding attributed to a call-site key once per run (further occurrences are only
    counted): the key either is a listed known finding or one VIOLATION line names it."""
    n = _SEEN_KEYS.get(key, 0)
    _SEEN_KEYS[key] = n + 1
    ctx.cov.setdefault("keyed_occurrences", {})[key] = n + 1
    if n == 0:
        ctx.violation(text, body, key=key, kind=kind)


def cli_env(scratch):
    e = dict(ENV)
    e["HOME"] = f"{scratch}/home"
    e["XDG_CACHE_HOME"] = f"{scratch}/home/.cache"
    e["XDG_CONFIG_HOME"] = f"{scratch}/home/.config"
    e["NO_COLOR"] = "1"
    os.makedirs(e["XDG_CACHE_HOME"], exist_ok=True)
    return e


def veryl(d, args, scratch):
    return sh([VERYL] + args, cwd=d, env=cli_env(scratch), timeout=900)


def write_project(d, cfg, sources=None):
    shutil.rmtree(d, ignore_errors=True)
    os.makedirs(f"{d}/src")
    tk, _, tp = cfg["target"].partition(":")
    mk, _, mp = cfg["map"].partition(":")
    toml = ("[project]\nname = \"prj\"\nversion = \"0.1.0\"\n[build]\nsources = [\"src\"]\n"
            + (f"target = {{type = \"{tk}\", path = \"{tp}\"}}\n" if tp else f"target = {{type = \"{tk}\"}}\n")
            + (f"sourcemap_target = {{type = \"{mk}\", path = \"{mp}\"}}\n" if mp else f"sourcemap_target = {{type = \"{mk}\"}}\n")
            # relative filelist: the write mode runs on a COPY of the state, whose absolute paths differ
            + "filelist_type = \"relative\"\n"
            + ("" if cfg.get("std") else "exclude_std = true\n"))
    sources = dict(sources or SRC)
    if cfg.get("dep"):
        # a (non-$std) path dependency: its outputs go to dependencies/dep1/src/*.sv of the main project
        toml += "[dependencies]\ndep1 = {path = \"../dep\"}\n"
        sources["e.veryl"] = "module ModE (\n    o: output logic,\n) {\n    inst u: dep1::ModD (\n        o,\n    );\n}\n"
        dd = os.path.join(os.path.dirname(d), "dep")
        shutil.rmtree(dd, ignore_errors=True)
        os.makedirs(f"{dd}/src")
        with open(f"{dd}/Veryl.toml", "w") as fh:
            fh.write("[project]\nname = \"deplib\"\nversion = \"0.1.0\"\n[build]\nsources = [\"src\"]\nexclude_std = true\n")
        with open(f"{dd}/src/d.veryl", "w") as fh:
            fh.write("pub module ModD (\n    o: output logic,\n) {\n    assign o = 0;\n}\n")
    with open(f"{d}/Veryl.toml", "w") as fh:
        fh.write(toml)
    for n, t in sources.items():
        with open(f"{d}/src/{n}", "w") as fh:
            fh.write(t)


def outputs(d, kind):
    """Emitted files of `veryl build` (.sv, .sv.map, filelist) or the sources (`fmt`) → content hash."""
    res = {}
    for dp, dn, fn in os.walk(d):
        rel = os.path.relpath(dp, d)
        if rel.split(os.sep)[0] in (".build", "home"):
            continue
        for x in fn:
            p = os.path.normpath(os.path.join(rel, x))
            if (kind == "build" and (x.endswith(".sv") or x.endswith(".sv.map") or x in ("prj.f", "prj.list.rb"))) or \
               (kind == "fmt" and x.endswith(".veryl")):
                with open(os.path.join(dp, x), "rb") as fh:
                    data = fh.read()
                res[p] = (hashlib.blake2b(data, digest_size=8).hexdigest(), len(data))
    return res


# ---- project states --------------------------------------------------------------------------------

def edit(path, fn):
    with open(path) as fh:
        t = fh.read()
    with open(path, "w") as fh:
        fh.write(fn(t))


def first_std(d, suffix):
    for dp, dn, fn in sorted(os.walk(f"{d}/dependencies/std")):
        for x in sorted(fn):
            if x.endswith(suffix):
                return os.path.join(dp, x)
    return None


MUTATIONS = {
    "built": lambda d, c: None,
    "stale-source": lambda d, c: edit(f"{d}/src/b.veryl", lambda t: t.replace("assign o = 0;", "assign o = 1;")),
    "missing-output": lambda d, c: os.remove(out_path(d, c, "b", ".sv")),
    "edited-output": lambda d, c: edit(out_path(d, c, "a", ".sv"), lambda t: t + "// hand edit\n"),
    "missing-map": lambda d, c: os.remove(map_path(d, c, "a")),
    "edited-map": lambda d, c: edit(map_path(d, c, "c"), lambda t: t + " "),
    "missing-filelist": lambda d, c: os.remove(f"{d}/prj.f"),
    "edited-filelist": lambda d, c: edit(f"{d}/prj.f", lambda t: t + "nonexistent/extra.sv\n"),
    "missing-bundle": lambda d, c: os.remove(f"{d}/all.sv"),
    "edited-bundle": lambda d, c: edit(f"{d}/all.sv", lambda t: t + "// hand edit\n"),
    "missing-std-output": lambda d, c: os.remove(first_std(d, ".sv")),
    "edited-std-output": lambda d, c: edit(first_std(d, ".sv"), lambda t: t + "// hand edit\n"),
    "missing-std-map": lambda d, c: os.remove(first_std(d, ".sv.map")),
    "missing-dep-output": lambda d, c: os.remove(f"{d}/dependencies/dep1/src/d.sv"),
    "edited-dep-output": lambda d, c: edit(f"{d}/dependencies/dep1/src/d.sv", lambda t: t + "// hand edit\n"),
    "stale-dep-source": lambda d, c: edit(f"{d}/../dep/src/d.veryl", lambda t: t.replace("assign o = 0;", "assign o = 1;")),
    "missing-dep-map": lambda d, c: os.remove(f"{d}/dependencies/dep1/src/d.sv.map"),
}


def out_path(d, c, stem, ext):
    tk, _, tp = c["target"].partition(":")
    return f"{d}/src/{stem}{ext}" if tk == "source" else f"{d}/{tp}/{stem}{ext}"


def map_path(d, c, stem):
    mk, _, mp = c["map"].partition(":")
    if mk == "directory":
        tk, _, tp = c["target"].partition(":")
        return f"{d}/{mp}/{stem}.sv.map" if tk == "directory" else f"{d}/{mp}/src/{stem}.sv.map"
    return out_path(d, c, stem, ".sv.map")


DIRT = {"target": "directory:target", "map": "target"}
SRCT = {"target": "source", "map": "target"}
NOMAP = {"target": "directory:target", "map": "none"}
MAPDIR = {"target": "directory:out", "map": "directory:maps"}
BUNDLE = {"target": "bundle:all.sv", "map": "none"}
STD = {"target": "directory:target", "map": "target", "std": True}
DEPC = {"target": "directory:target", "map": "target", "dep": True}

BUILD_SCENARIOS = (
    [("fresh", DIRT, None), ("fresh", BUNDLE, None)]
    + [(m, DIRT, m) for m in ("built", "stale-source", "missing-output", "edited-output", "missing-map", "edited-map",
                              "missing-filelist", "edited-filelist")]
    + [(m, SRCT, m) for m in ("built", "missing-output", "missing-map")]
    + [(m, NOMAP, m) for m in ("built", "missing-output", "missing-filelist")]
    + [(m, MAPDIR, m) for m in ("built", "missing-map", "edited-output")]
    + [(m, BUNDLE, m) for m in ("built", "stale-source", "missing-bundle", "edited-bundle", "missing-filelist", "edited-filelist")]
    + [(m, STD, m) for m in ("missing-std-output", "missing-std-map")]
    + [(m, DEPC, m) for m in ("built", "missing-dep-output", "edited-dep-output", "stale-dep-source", "missing-dep-map")]
)
# (each $std scenario emits the ~50 files of the standard library three times: more of them only in the thorough tier)
STD_THOROUGH = [(m, STD, m) for m in ("built", "edited-std-output", "missing-output")]


def st(before, after, p):
    if p not in before:
        return "e" if after[p][1] == 0 else "m"
    return "c" if before[p] == after[p] else "s"


def build_scenario(i, name, cfg, mut, root, scratch):
    base = f"{root}/b{i}"
    shutil.rmtree(base, ignore_errors=True)
    d = f"{base}/main"
    write_project(d, cfg)
    log = ""
    if mut is not None:
        rc, log = veryl(d, ["build"], scratch)
        if rc != 0:
            return {"name": name, "cfg": cfg, "error": f"initial build failed: {log[-400:]}"}
        MUTATIONS[mut](d, cfg)
    shutil.rmtree(f"{root}/b{i}-copy", ignore_errors=True)
    shutil.copytree(base, f"{root}/b{i}-copy")
    c = f"{root}/b{i}-copy/main"
    snap0 = outputs(d, "build")
    rc_check, log_check = veryl(d, ["build", "--check"], scratch)
    snap1 = outputs(d, "build")
    check_wrote = sorted(p for p in snap1 if snap0.get(p) != snap1[p])
    before = outputs(c, "build")
    rc_w, log_w = veryl(c, ["build"], scratch)
    after = outputs(c, "build")
    changed = sorted(p for p in after if before.get(p) != after[p]) + sorted(p for p in before if p not in after)
    bundle = cfg["target"].startswith("bundle")
    maps = cfg["map"] != "none"
    svs = sorted(p for p in after if p.endswith(".sv") and not (bundle and p == "all.sv"))
    mps = sorted(p for p in after if p.endswith(".sv.map"))
    files = []
    if bundle:
        files = ["0:m:m"]
    else:
        for k, p in enumerate(svs):
            std = 1 if p.startswith("dependencies/std/") else 0
            # pair the k-th map with the k-th output of the same class (the model treats files independently)
            cls = [q for q in mps if q.startswith("dependencies/std/") == bool(std)]
            own = [q for q in svs if q.startswith("dependencies/std/") == bool(std)]
            j = own.index(p)
            ms = st(before, after, cls[j]) if maps and j < len(cls) else "m"
            files.append(f"{std}:{st(before, after, p)}:{ms}")
    fl = st(before, after, "prj.f") if "prj.f" in after else "m"
    bs = st(before, after, "all.sv") if bundle and "all.sv" in after else "m"
    op = f"build {1 if bundle else 0} {1 if maps else 0} [{','.join(files)}] {fl} {bs}"
    return {"name": name, "cfg": cfg, "op": op, "rc_check": rc_check, "rc_write": rc_w, "changed": changed,
            "check_wrote": check_wrote, "log_check": log_check[-600:], "log_write": log_w[-600:],
            "impl": f"check={'pass' if rc_check == 0 else 'nopass'} cwrites={len(check_wrote):x} writes={len(changed):x}",
            "oracle": f"check={'pass' if (rc_w == 0 and not changed) else 'nopass'} cwrites={len(check_wrote):x} writes={len(changed):x}"}


UNFMT = {"a.veryl": lambda t: t.replace("package PkgA {", "package   PkgA {"),
         "b.veryl": lambda t: t.replace("    assign o = 0;", "  assign o=0;"),
         "c.veryl": lambda t: t.replace("module ModC (", "module ModC(")}
BROKEN = "module Broken ( {\n"


def fmt_scenario(i, states, formatted, root, scratch):
    d = f"{root}/f{i}"
    names = sorted(SRC)
    src = {}
    for n, s in zip(names, states):
        src[n] = formatted[n] if s == "f" else UNFMT[n](formatted[n]) if s == "u" else BROKEN
    write_project(d, NOMAP, src)
    c = f"{root}/f{i}-copy"
    shutil.rmtree(c, ignore_errors=True)
    shutil.copytree(d, c)
    snap0 = outputs(d, "fmt")
    rc_check, log_check = veryl(d, ["fmt", "--check"], scratch)
    snap1 = outputs(d, "fmt")
    check_wrote = sorted(p for p in snap1 if snap0.get(p) != snap1[p])
    before = outputs(c, "fmt")
    rc_w, log_w = veryl(c, ["fmt"], scratch)
    after = outputs(c, "fmt")
    changed = sorted(p for p in after if before.get(p) != after[p])
    return {"name": "fmt:" + "".join(states), "cfg": {}, "op": f"fmt [{','.join(states)}]", "rc_check": rc_check, "rc_write": rc_w,
            "changed": changed, "check_wrote": check_wrote, "log_check": log_check[-600:], "log_write": log_w[-600:],
            "sources": src,
            "impl": f"check={'pass' if rc_check == 0 else 'nopass'} cwrites={len(check_wrote):x} writes={len(changed):x}",
            "oracle": f"check={'pass' if (rc_w == 0 and not changed) else 'nopass'} cwrites={len(check_wrote):x} writes={len(changed):x}"}


def classify(p):
    if p.endswith(".sv.map"):
        return KEY_MAP if not p.startswith("dependencies/std/") else KEY_STD
    if p in ("prj.f", "prj.list.rb"):
        return KEY_LIST
    if p.startswith("dependencies/std/"):
        return KEY_STD
    return None


def run(ctx):
    ok = lean_check(ctx, "VerylModel.Props.C27", THEOREMS)
    ctx.cov["trusted_base"] = [
        "Lean 4.33 kernel; axioms ⊆ {propext, Classical.choice, Quot.sound}",
        "formatter, emitter, filelist and bundle assembly are parameters of the model (their outputs are whatever the CLI produces)",
        "analysis errors abort both modes before anything is compared or written; .build/, Veryl.lock are not emitted files",
        "checks/c27.py (states are classified from before/after hashes of a write-mode run on a copy)"]
    ctx.cov["rule"] = ("project states {fresh, built, stale source, missing / hand-edited output, map, filelist, bundle, $std output, output of a path dependency} × "
                       "target {directory, source, bundle} × sourcemap_target {target, directory, none} × std on/off; fmt: every "
                       "formatted/unformatted/unparsable assignment of three files → exit status of `--check` vs the set of files the "
                       "write mode changes on a copy (oracle) and vs M-CheckModes fed with the observed per-file states")
    if not cli_build(ctx):
        return
    scratch = f"{CACHE}/scratch/c27-{os.getpid()}"
    shutil.rmtree(scratch, ignore_errors=True)
    os.makedirs(scratch, exist_ok=True)
    try:
        # formatted versions of the sources (the formatter's own fixed point)
        write_project(f"{scratch}/norm", NOMAP)
        veryl(f"{scratch}/norm", ["fmt"], scratch)
        formatted = {n: open(f"{scratch}/norm/src/{n}").read() for n in SRC}
        # expand the standard library into the scratch cache ONCE before anything runs in parallel
        # (`veryl_std::expand` is not safe against a concurrent first use, C30 / DESIGN §5 #10)
        write_project(f"{scratch}/warm", STD)
        veryl(f"{scratch}/warm", ["build"], scratch)
        scen = list(BUILD_SCENARIOS)
        if ctx.tier == "thorough":
            scen += STD_THOROUGH
            rng = random.Random(ctx.seed)
            for _ in range(60):
                cfg = rng.choice([DIRT, SRCT, NOMAP, MAPDIR, BUNDLE, STD, DEPC])
                muts = [m for m in MUTATIONS
                        if ("bundle" in m) <= (cfg is BUNDLE) and ("std" in m) <= (cfg is STD) and ("dep" in m) <= (cfg is DEPC)
                        and not (cfg is BUNDLE and m in ("missing-output", "edited-output", "missing-map", "edited-map"))
                        and not (cfg["map"] == "none" and "map" in m)]
                m = rng.choice(muts)
                scen.append((m, cfg, m))
        fstates = [(a, b, c) for a in "fux" for b in "fux" for c in "fux"]
        if ctx.tier != "thorough":
            fstates = [s for s in fstates if s.count("x") <= 1 and s.count("u") <= 2][:10] + [("u", "x", "u"), ("x", "u", "f"), ("u", "u", "u")]
        with concurrent.futures.ThreadPoolExecutor(max_workers=8) as ex:
            futs = [ex.submit(build_scenario, i, n, c, m, scratch, scratch) for i, (n, c, m) in enumerate(scen)]
            futs += [ex.submit(fmt_scenario, i, s, formatted, scratch, scratch) for i, s in enumerate(fstates)]
            results = [f.result() for f in futs]
        d = f"{ctx.run_dir}/checkmodes"
        os.makedirs(d, exist_ok=True)
        good = [r for r in results if "op" in r]
        for r in results:
            if "error" in r:
                ctx.violation(f"c27: scenario {r['name']} {r['cfg']}: {r['error']}", {"kind": "check-machinery", **r}, no_input=True,
                              kind="model!=impl")
        for name, key in (("ops.txt", "op"), ("impl.txt", "impl"), ("oracle.txt", "oracle")):
            with open(f"{d}/{name}", "w") as fh:
                fh.write("".join(r[key] + "\n" for r in good))
        run_model("checkmodes", d)
        model = read_lines(f"{d}/model.txt") or []
        ctx.cov["evaluations"] += len(good)
        ctx.cov["traces_validated_against_impl"] += len(good)
        dist = ctx.cov.setdefault("distribution", {})
        for r, m in zip(good, model + ["(no reply)"] * len(good)):
            ctx.distinct((r["name"], str(r["cfg"]), r["op"], r["impl"]))
            dist[r["name"].split(":")[0]] = dist.get(r["name"].split(":")[0], 0) + 1
            body = {"kind": "impl!=oracle", "scenario": r["name"], "config": r["cfg"], "request": r["op"], "impl": r["impl"],
                    "oracle": r["oracle"], "model": m, "files_changed_by_write_mode": r["changed"], "sources": r.get("sources", SRC),
                    "check_output": r["log_check"], "replay": "create the project, bring it into the named state, run "
                    "`veryl build --check` (or `fmt --check`), then `veryl build` (`fmt`) on a copy and compare file hashes"}
            if m != r["impl"]:
                ctx.violation(f"c27: {r['name']} {r['cfg']}: model {m} ≠ implementation {r['impl']} on `{r['op']}`",
                              {**body, "kind": "model!=impl"}, no_input=(r["impl"] == r["oracle"]), kind="model!=impl")
                continue
            if r["check_wrote"]:
                # a check mode that writes: known only for `$std` outputs (they fall into the write arm of cmd_build.rs)
                sig = all(p.startswith("dependencies/std/") for p in r["check_wrote"])
                (keyed if sig else lambda c, t, b, k: c.violation(t, b, kind="impl!=oracle"))(
                    ctx, f"c27: {r['name']} {r['cfg']}: `--check` itself wrote {r['check_wrote'][:4]}",
                    {**body, "written_by_check_mode": r["check_wrote"], "signature_verified": sig}, KEY_WSTD)
            if r["impl"] != r["oracle"]:
                # the property fails here; attribute it to the call sites only if every changed file is of an ignored class
                keys = {classify(p) for p in r["changed"]}
                passed_wrongly = r["rc_check"] == 0 and r["rc_write"] == 0 and r["changed"]
                if passed_wrongly and None not in keys:
                    for k in sorted(keys):
                        keyed(ctx, f"c27: {r['name']} {r['cfg']}: `build --check` passes but `build` changes {r['changed'][:4]}",
                              {**body, "signature_verified": True}, k)
                else:
                    ctx.violation(f"c27: {r['name']} {r['cfg']}: check says {r['impl']}, write mode changes {r['changed'][:6]}",
                                  body, kind="impl!=oracle")
        ctx.sample({"scenario": good[2]["name"], "request": good[2]["op"], "impl": good[2]["impl"]} if len(good) > 2 else "none")
    finally:
        shutil.rmtree(scratch, ignore_errors=True)
    if not ok:
        if not any(not ni for _, _, ni in ctx.violations):
            proof_broken(ctx, "VerylModel.Props.C27 no longer checks")
