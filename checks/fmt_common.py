"""Helpers shared by checks/c08.py, c09.py, c13.py, c26.py (domains `fmt`, `smap`, `emitopts`: every request
line is self-contained, so the replay of a difference is that single line)."""
import os

from vlib import *


def run_lines(ctx, domain, args, label):
    """Run `hx <domain>` and `vmodel <domain>`; returns (dir, ops, impl, model, oracle) or None."""
    rc, out, d = run_hx(ctx, domain, args, out_dir=f"{ctx.run_dir}/{label}")
    if rc != 0:
        ctx.violation(f"harness domain {domain} ({label}) crashed (rc={rc})", {"kind": "harness-crash", "log": out[-4000:]},
                      no_input=True, kind="model!=impl")
        return None
    mrc, err = run_model(domain, d)
    if mrc != 0:
        ctx.log(f"vmodel {domain} rc={mrc}: {err[-500:]}")
    ops = read_lines(f"{d}/ops.txt") or []
    imp = read_lines(f"{d}/impl.txt") or []
    mod = read_lines(f"{d}/model.txt") or []
    ora = read_lines(f"{d}/oracle.txt") or ["?"] * len(ops)
    if not (len(ops) == len(imp) == len(mod) == len(ora)):
        ctx.violation(f"{domain}[{label}]: reply streams differ in length (ops={len(ops)} impl={len(imp)} model={len(mod)} "
                      f"oracle={len(ora)})", {"kind": "model!=impl", "dir": d}, no_input=True, kind="model!=impl")
        return None
    stats = load_stats(d)
    ctx.cov["evaluations"] += len(ops)
    for k, v in stats.items():
        if k != "samples":
            ctx.cov.setdefault("distribution", {})[f"{label}.{k}"] = v
    for s in stats.get("samples", []):
        ctx.sample(s[:400])
    return d, ops, imp, mod, ora


def replay_lines(ctx, domain, lines, tag):
    """Run request lines through `hx <domain> --replay` and the model. Returns (impl, model, oracle)."""
    d = f"{ctx.run_dir}/{tag}"
    os.makedirs(d, exist_ok=True)
    with open(f"{d}/replay.txt", "w") as fh:
        fh.write("\n".join(lines) + "\n")
    rc, out, _ = run_hx(ctx, domain, ["--replay", f"{d}/replay.txt"], out_dir=d)
    if rc != 0:
        return None, None, None, None
    run_model(domain, d)
    return (read_lines(f"{d}/ops.txt"), read_lines(f"{d}/impl.txt"), read_lines(f"{d}/model.txt"),
            read_lines(f"{d}/oracle.txt"))


def unhex(h):
    try:
        return bytes.fromhex(h).decode("utf-8", "replace")
    except ValueError:
        return None


def hexs(s):
    return s.encode("utf-8").hex()


def kind_of(op):
    return op.split(" ", 1)[0]


def model_mismatch(ctx, domain, label, op, imp, mod, budget):
    """Report one model-vs-implementation disagreement (the request line is the replay)."""
    if budget[0] <= 0:
        ctx.cov["failures"]["model!=impl"] = ctx.cov["failures"].get("model!=impl", 0) + 1
        return
    budget[0] -= 1
    k = kind_of(op)
    small = op
    if k == "align":
        # delta-debug the call trace
        toks = op.split(" ", 1)[1][1:-1].split(",")

        def fails(cand):
            o, i, m, _ = replay_lines(ctx, domain, ["align [" + ",".join(cand) + "]"], f"shrink-{label}")
            return bool(i) and bool(m) and i[0] != m[0] and "bad-op" not in (i[0], m[0])
        try:
            if fails(toks):
                toks = ddmin(toks, fails)
                small = "align [" + ",".join(toks) + "]"
        except Exception as e:  # best effort
            ctx.log(f"shrink failed: {e}")
    o, i, m, _ = replay_lines(ctx, domain, [small], f"final-{label}")
    body = {"kind": "model!=impl", "domain": domain, "ops": [small if len(small) < 20000 else small[:20000] + "…"],
            "impl": (i or [imp])[0][:4000], "model": (m or [mod])[0][:4000], "seed": ctx.seed,
            "correspondence": f"vmodel {domain} vs hx {domain}",
            "replay": f"{HX} {domain} --replay <file with the op> --out DIR ; {VMODEL} {domain} < DIR/ops.txt"}
    ctx.violation(f"{domain}[{label}]: model/implementation correspondence broken on a `{k}` request: "
                  f"impl={imp[:100]} model={mod[:100]} for `{small[:200]}`", body, no_input=True, kind="model!=impl")


def listed(ctx, key):
    return any(f.get("kind") == "known" and f.get("key") == key for f in ctx.findings)
