"""Shared by checks/c19.py and checks/c20.py: one run of `hx synth` + `vmodel netlist`, parsed.

Every request line carries the REAL GateModule the synthesizer returned for one (design, cell
library, RAM threshold); the three reply streams are
  impl.txt   independent Rust verdicts on that netlist + the real compute_area/compute_timing numbers
  model.txt  Lean: Netlist.wf, Netlist.run, Netlist.report, Netlist.area
  oracle.txt the real 4-state simulator on the RTL, independent area sums, longest path by DFS."""
import json
import os
from vlib import *

REL_TOL = 1e-9
DEPTH_KEY = "timing_report:depth-at-max-arrival-endpoint"


def kv(line):
    d = {}
    for t in line.split(" "):
        if "=" in t:
            k, v = t.split("=", 1)
            d.setdefault(k, v)
    return d


def plist(s):
    s = s[1:-1] if s.startswith("[") else s
    return [x for x in s.split(",") if x != ""] if s else []


def close(a, b):
    """scaled-integer strings equal up to the relative tolerance (floats accumulate, the model is exact)"""
    try:
        x, y = int(a), int(b)
    except (TypeError, ValueError):
        return a == b
    return abs(x - y) <= max(2, REL_TOL * max(abs(x), abs(y)))


class Row:
    def __init__(self, i, op, imp, mod, ora):
        self.i, self.op_line, self.imp_line, self.mod_line, self.ora_line = i, op, imp, mod, ora
        self.op, self.imp, self.mod, self.ora = kv(op), kv(imp), kv(mod or ""), kv(ora or "")
        self.id = self.op.get("id", "?")
        self.bad = not op.startswith("net ") or " PANIC " in op

    @property
    def witness(self):
        return self.id.startswith("witness14")


def run_domain(ctx, args, tag="synth"):
    """Run harness + model; returns rows (or None when the harness could not run)."""
    d = f"{ctx.run_dir}/{tag}"
    for attempt in range(3):        # deterministic generator: a killed harness process is simply started again
        rc, out, d = run_hx(ctx, "synth", args, out_dir=d, timeout=7200)
        if rc == 0:
            break
    if rc != 0:
        ctx.violation(f"harness domain synth crashed (rc={rc})", {"kind": "harness-crash", "log": out[-4000:]},
                      no_input=True, kind="model!=impl")
        return None, d
    ops = read_lines(f"{d}/ops.txt") or []
    imp = read_lines(f"{d}/impl.txt") or []
    ora = read_lines(f"{d}/oracle.txt") or []
    mod = []
    for attempt in range(3):        # the driver is a plain filter: a killed/short run is simply repeated
        mrc, err = run_model("netlist", d)
        mod = read_lines(f"{d}/model.txt") or []
        if mrc == 0 and len(mod) == len(ops):
            break
        ctx.log(f"vmodel netlist rc={mrc} ({len(mod)}/{len(ops)} replies), attempt {attempt + 1}: {err[-300:]}")
    if not (len(ops) == len(imp) == len(ora)) or len(mod) != len(ops):
        ctx.violation(f"reply streams differ in length: ops={len(ops)} impl={len(imp)} model={len(mod)} oracle={len(ora)}",
                      {"kind": "stream-length", "dir": d}, no_input=True, kind="model!=impl")
        return None, d
    rows = [Row(i, ops[i], imp[i], mod[i], ora[i]) for i in range(len(ops))]
    stats = load_stats(d)
    for k, v in stats.items():
        if k != "samples":
            ctx.cov.setdefault("distribution", {})[f"synth.{k}"] = v
    for s in stats.get("samples", []):
        ctx.sample(s)
    ctx.cov["traces_validated_against_impl"] += int(stats.get("sequences", 0))
    return rows, d


def replay_file(ctx, lines, tag):
    """Write request lines to a file under the run dir and return its path."""
    p = f"{ctx.run_dir}/{tag}.txt"
    with open(p, "w") as fh:
        fh.write("\n".join(lines) + "\n")
    return p


def replay_body(row, kind, what, extra=None):
    b = {"kind": kind, "domain": "synth", "what": what, "request": row.op_line[:20000],
         "impl": row.imp_line[:4000], "model": (row.mod_line or "")[:4000], "oracle": (row.ora_line or "")[:4000],
         "source": decode_src(row.op.get("src", "-")),
         "replay": f"{HX} synth --replay <file with the request line> ; {VMODEL} netlist < ops.txt"}
    if extra:
        b.update(extra)
    return b


def decode_src(h):
    try:
        return bytes.fromhex(h).decode()
    except ValueError:
        return h


def sizes(ctx):
    """(designs, cycles) per tier."""
    return tier_n(ctx, 200, 5000), tier_n(ctx, 5, 8)


CORPUS = f"{ROOT}/corpus/C19/regress.txt"


def corpus_rows(ctx):
    """The committed regression corpus (request lines of designs that pass on the unchanged tree), replayed
    before anything is generated."""
    if not os.path.exists(CORPUS):
        return []
    rows, _ = run_domain(ctx, ["--replay", CORPUS], tag="corpus")
    return rows or []
