"""C24 — build results do not depend on the file order or on the run."""
from vlib import *

LEVEL = "proof"
THEOREMS = ["register_all_inserted", "register_perm", "register_perm_needs_disjoint",
            "canon_order_independent", "output_order_independent", "error_free_perm",
            "register_exact", "exclusiveSets_symm", "duplicate_verdict_perm", "duplicate_verdict_needs_symm"]


def _replay_file(ctx):
    """A replay file is either request lines or a violation body (JSON with "ops")."""
    path = ctx.replay
    if path.endswith(".json"):
        import json
        with open(path) as fh:
            body = json.load(fh)
        path = f"{ctx.run_dir}/replay-ops.txt"
        with open(path, "w") as fh:
            fh.write("\n".join(body.get("ops", [])) + "\n")
    return path


def run(ctx):
    ok = lean_check(ctx, "VerylModel.Props.C24", THEOREMS)
    ctx.cov["trusted_base"] = [
        "Lean 4.33 kernel; axioms ⊆ {propext, Classical.choice, Quot.sound}",
        "M-Register abstracts DefineContext::exclusive as a parameter (its pos/neg formula `exclusiveSets` is compared with the real "
        "method on generated set pairs, `excl` lines) and name_table as one insertion-ordered list",
        "pass 2 / emitter read the symbol table through (namespace, name) lookups: validated by the permutation runs, not proved",
        "harness/src/dom_order.rs + vsets.rs and tools/vlib.py"]
    ctx.cov["rule"] = ("all permutations (≤ 4 files) / reverse + random permutations of pass-1+pass-2 order over generated "
                       "multi-file projects (packages, interfaces, generics, proto, imports, $sv, cdc) and the self-contained "
                       "testcase set: emitted SV, source maps and the diagnostic multiset vs the reference order; per-file "
                       "key lists through M-Register vs the real symbol table; same input in two child processes")
    if not harness_build(ctx):
        return
    args = ["--seed", ctx.seed, "--sets", tier_n(ctx, 10, 150), "--big", tier_n(ctx, 3, 40), "--rand", tier_n(ctx, 6, 30),
            "--excl", tier_n(ctx, 200, 20000)]
    if getattr(ctx, "replay", None):
        args = ["--replay", _replay_file(ctx)]
    rc, out, d = run_hx(ctx, "order", args)
    if rc != 0:
        ctx.violation(f"harness domain order crashed (rc={rc})", {"kind": "harness-crash", "log": out[-4000:]},
                      no_input=True, kind="model!=impl")
        return
    mrc, err = run_model("order", d)
    if mrc != 0:
        ctx.log(f"vmodel order rc={mrc}: {err[-500:]}")
    n, mism = diff3(d)
    ctx.cov["evaluations"] += n
    ops = read_lines(f"{d}/ops.txt") or []
    imp = read_lines(f"{d}/impl.txt") or []
    for o, r in zip(ops, imp):
        ctx.distinct((o, r))
    for m in mism[:4]:
        op = m["op"]
        body = {"kind": m["kind"], "domain": "order", "ops": [op], "first_difference": m, "seed": ctx.seed,
                "details_dir": d,
                "replay": f"{HX} order --replay <file with the ops, one per line> ; {VMODEL} order < ops.txt"}
        if m["kind"] == "impl!=oracle":
            key = "C24:" + " ".join(op.split(" ")[:2]) if op.startswith(("perm", "twice")) else None
            ctx.violation(f"order: output depends on the order/run at `{op[:160]}`: got={m['impl'][:300]} "
                          f"reference={str(m['oracle'])[:300]}", body, key=key, kind="impl!=oracle")
        else:
            ctx.violation(f"order: model/implementation correspondence broken at `{op[:120]}`: "
                          f"impl={m['impl'][:200]} model={str(m['model'])[:200]}", body, no_input=True, kind=m["kind"])
    stats = load_stats(d)
    for k, v in stats.items():
        if k != "samples":
            ctx.cov.setdefault("distribution", {})[f"order.{k}"] = v
    ctx.cov["traces_validated_against_impl"] += int(stats.get("perm.compared", 0))
    for o in ops:
        if o.startswith("perm "):
            ctx.sample(o[:200])
            break
    if int(stats.get("perm.compared", 0)) == 0 and not getattr(ctx, "replay", None):
        ctx.violation("no permutation comparison was executed (generator broke or no error-free set)",
                      {"kind": "correspondence-broken", "stats": stats}, no_input=True, kind="model!=impl")
    if not getattr(ctx, "replay", None):
        import sys
        sys.path.insert(0, "/verif/checks")
        import c24_cli
        c24_cli.run_cli(ctx)
    if not ok:
        if not any(not ni for _, _, ni in ctx.violations):
            proof_broken(ctx, "VerylModel.Props.C24 no longer checks")
