"""C22 — SystemVerilog translation preserves behaviour.

SystemVerilog modules (printed from the SV model AST of harness/src/svparse.rs in conventional
hand-written style) go through the REAL `veryl_translator::translate_str`.  When no unsupported
construct is reported the produced Veryl must parse and analyse without errors; its real-simulator
trace must equal SV.run(original) (oracle: Lean M-SV, the only SystemVerilog semantics available) and
its re-emitted SystemVerilog (C01 chain, real emitter) must give that trace too; correspondence:
re-emitted module = original module (`emit ∘ translate = id`, proved for the model) and the model of
the translated design (`translateModel`) simulates to the same trace.

Streams: witnesses (one minimal module per known translator finding, key = defect class), the text
rewriter probes (`--rewrite`, reported in the evidence), fresh modules of the stratum the translator
carries over completely (combinational: `assign`, `always_comb` with one if/else of single
assignments; operators without `< > ?: {n{}} casts`).  Everything else the translator silently
mistranslates on the unchanged tree — see the findings."""
import re

from vlib import *

LEVEL = "proof"
THEOREMS = ["C22_expr_roundtrip", "C22_stmt_roundtrip", "C22_emit_translate", "C22_reemit_run", "C22_translate_preserves",
            "C22_outside_domain", "C22_expr_injective", "C22_stmt_injective", "C22_module_injective"]


def fields(line):
    return dict(x.split("=", 1) for x in line.split(" ") if "=" in x)


def src_of(op):
    try:
        return bytes.fromhex(op.split(" ")[6]).decode()
    except Exception:
        return ""


def classify(src, imp):
    """Defect class of a failing module from its SystemVerilog text and the implementation reply."""
    body = src[src.index(");"):] if ");" in src else src
    if "always_ff" in body and "not_'clock'_type" in imp:
        return "translate:clock-port-typed-logic"
    if re.search(r"\d+'\(", body):
        return "translate:size-cast-to-logic-N"
    if re.search(r"\b(signed|unsigned|int|byte|shortint|longint)'\(", body):
        return "translate:type-cast-target-copied"
    if re.search(r"\?", body):
        return "translate:conditional-operator-copied"
    if re.search(r"\{\d+\{", body):
        return "translate:replication-copied"
    if re.search(r"[^<>]<[^<=]|[^<>=]>[^>=]", re.sub(r"<=", "", body)):
        return "translate:relational-operator-copied"
    if re.search(r"always_comb\s+[a-z_]\w*(\[[\d:]+\])?\s*=", body):
        return "translate:always_comb-single-statement-dropped"
    if re.search(r"begin\s+[^;]*;\s*[^e\s]", body) or re.search(r"begin(\s|\S)*?;(\s|\S)*?;(\s|\S)*?end", body):
        return "translate:seq-block-keeps-only-first-statement"
    return None


def run_stream(ctx, name, args, st, witness=False):
    d = f"{ctx.run_dir}/{name}"
    rc, out, d = run_hx(ctx, "translate", args, out_dir=d)
    if rc != 0:
        rc, out, d = run_hx(ctx, "translate", args, out_dir=d)
    if rc != 0:
        ctx.violation(f"harness domain translate crashed (rc={rc}, stream {name})", {"kind": "harness-crash", "log": out[-4000:]},
                      no_input=True, kind="model!=impl")
        return
    mrc, err = run_model("translate", d)
    ops, imp, mod = read_lines(f"{d}/ops.txt") or [], read_lines(f"{d}/impl.txt") or [], read_lines(f"{d}/model.txt") or []
    if not (len(ops) == len(imp) == len(mod)):
        ctx.violation(f"translate/{name}: reply streams differ in length ({len(ops)},{len(imp)},{len(mod)})", {"kind": "stream-length"},
                      no_input=True, kind="model!=impl")
        return
    stats = load_stats(d)
    dist = ctx.cov.setdefault("distribution", {})
    for k, v in stats.items():
        if k != "samples":
            dist[f"{name}.{k}"] = dist.get(f"{name}.{k}", 0) + v
    for s in stats.get("samples", [])[:1]:
        ctx.sample(s[:1200])
    for k in ("untranslatable", "sv-parse", "panic", "designs"):
        st[k] = st.get(k, 0) + stats.get(k, 0)
    if stats.get("panic"):
        ctx.violation(f"translate/{name}: translator / analyzer / simulator panicked on {stats.get('panic')} module(s)",
                      {"kind": "impl!=oracle", "samples": stats.get("samples", [])}, key="translate:panic", kind="impl!=oracle")
    seen = set()
    for op, i, m in zip(ops, imp, mod):
        t = op.split(" ")
        tag = t[7] if len(t) > 7 else "-"
        src = src_of(op)
        ctx.cov["evaluations"] += 1
        st["lines"] = st.get("lines", 0) + 1
        bad, what = None, None
        if i.startswith(("veryl-rejected", "sim-error")):
            bad, what = "rejected", f"translated without an unsupported report, but the produced Veryl is not accepted: {i[:160]}"
        elif i.startswith(("untranslatable", "sv-parse", "panic")):
            if witness:
                ctx.notes.append(f"witness of `{tag}`: {i[:100]} — the translator now reports it / it is outside the parser subset")
            continue
        elif m == "bad-op":
            ctx.violation(f"translate/{name}: driver rejects a request the harness produced", {"kind": "model!=impl", "ops": [op]},
                          no_input=True, kind="model!=impl")
            continue
        else:
            fi, fm = fields(i), fields(m)
            if fm.get("orig") == "dc":
                st["dont_care_x"] = st.get("dont_care_x", 0) + 1
                continue
            ctx.cov["traces_validated_against_impl"] += 1
            ctx.distinct((t[2], t[3], fi.get("orig")))
            if fm.get("orig") != fi.get("orig"):
                bad, what = "behaviour", (f"the translated Veryl simulates to {fi.get('orig')[:60]}, the original SystemVerilog means "
                                          f"{fm.get('orig')[:60]}")
            elif fm.get("re") not in ("na", "dc", fi.get("re")):
                bad, what = "reemit", f"re-emitted SystemVerilog means {fm.get('re')[:60]}, simulator {fi.get('re')[:60]}"
            else:
                # correspondence
                if fm.get("rt") == "ne" or (fm.get("tm") == "ok" and fm.get("vm") not in ("dc", "na", fi.get("orig"))) or fm.get("tm") == "none":
                    k = ("corr", src)
                    if k not in seen:
                        seen.add(k)
                        ctx.violation(f"translate/{name}: model/implementation correspondence broken (rt={fm.get('rt')} tm={fm.get('tm')} "
                                      f"vm={fm.get('vm')[:40]} impl={fi.get('orig')[:40]})",
                                      {"kind": "model!=impl", "systemverilog": src, "ops": [op]}, no_input=True, kind="model!=impl")
                if witness:
                    ctx.notes.append(f"witness of `{tag}` no longer fails: the known finding suppresses nothing")
                continue
        if src in seen:
            continue
        seen.add(src)
        key = tag if witness else classify(src, i)
        body = {"kind": "impl!=oracle", "systemverilog": src, "stimulus": t[2], "implementation": i, "model": m, "seed": ctx.seed,
                "replay": f"{HX} translate --replay <file with the request line> --out DIR ; {VMODEL} translate < DIR/ops.txt", "ops": [op]}
        st["failing"] = st.get("failing", 0) + 1
        ctx.violation(f"translate/{name}: {what} [{' '.join(src.split())[:220]}]" + (f" — defect class {key}" if key else " — unclassified"),
                      body, key=key, kind="impl!=oracle")


def run(ctx):
    ok = lean_check(ctx, "VerylModel.Props.C22", THEOREMS)
    ctx.cov["trusted_base"] = [
        "Lean 4.33 kernel; axioms ⊆ {propext, Classical.choice, Quot.sound}",
        "M-SV (Core/SV.lean) is MY reading of IEEE 1800-2017 and the ONLY SystemVerilog oracle available (no SV simulator in the "
        "sandbox); the originals are printed from the SV model AST and parsed back by harness/src/svparse.rs",
        "Core/Translate.lean: hand model of crates/translator (convert.rs, convert/expr.rs), defined only where the verbatim copy of the "
        "expression text is the same Veryl expression; sv-parser (third party) decides what the translator sees",
        "C01's trusted base for the chain translated Veryl → simulator / emitter (Core/EmitModel.lean, dom_emit.rs)",
        "`expr_text_to_veryl` is pub(crate): it is reached only through translate_str (probes in rewrite.txt)",
    ]
    ctx.cov["rule"] = ("SV module → real translate_str → (no unsupported report) → real parser+analyzer must accept → real simulator trace = "
                       "SV.run(original) and = SV.run(re-emitted SV); correspondence: re-emitted module = original, translateModel trace = "
                       "simulator trace; evaluation = one module; distinct = distinct (stimulus, module, trace)")
    if not harness_build(ctx):
        return
    st = ctx.cov.setdefault("streams", {})
    run_stream(ctx, "witness", ["--witness", 1], st.setdefault("witness", {}), witness=True)
    # the text rewriter, through translate_str (evidence only: each line = expression, produced text, accepted?)
    rc, out, d = run_hx(ctx, "translate", ["--rewrite", 1], out_dir=f"{ctx.run_dir}/rewrite")
    rw = read_lines(f"{d}/rewrite.txt") or []
    ctx.cov["rewriter_probes"] = rw
    ctx.cov["rewriter_probes_rejected"] = sum(1 for l in rw if "\trejected" in l)
    # fresh modules of the stratum the translator carries over completely
    for j, (level, n) in enumerate([(0, tier_n(ctx, 60, 300)), (1, tier_n(ctx, 120, 600))]):
        run_stream(ctx, f"fresh-{level}", ["--seed", ctx.seed * 10 + j, "--n", n, "--cycles", 8, "--level", level, "--depth", 2, "--shape", 0],
                   st.setdefault("fresh", {}))
    if ctx.tier == "thorough":
        # beyond the stratum: multi-statement blocks, registers — every failure must carry a known defect class
        run_stream(ctx, "beyond", ["--seed", ctx.seed * 10 + 7, "--n", 100, "--cycles", 8, "--level", 1, "--depth", 2, "--shape", 2],
                   st.setdefault("beyond", {}))
    if not ok and not any(not ni for _, _, ni in ctx.violations):
        proof_broken(ctx, "VerylModel.Props.C22 no longer checks")
