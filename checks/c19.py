"""C19 — synthesized netlists behave like the RTL (translation validation per netlist + proved rules)."""
import gen
from vlib import *
from checks.net_common import *

LEVEL = "proof"
THEOREMS = [
    "full_adder_compresses", "half_adder_compresses", "kogge_stone_eq_ripple", "ripple_is_addition", "add_correct",
    "sub_correct", "less_unsigned_correct",
    "sklansky_correct", "tree_reassociation", "tree_reassociation_cells", "chain_is_a_tree",
    "const_propagation_sound", "algebraic_fuse_rules", "algebraic_fuse_not",
    "fuse_not", "fuse_pivot", "fuse_two_pivot", "mux_to_primitive", "mux_same_select", "mux_of_mux", "factoring",
    "absorb_complement",
    "increment_stage_correct", "counter_chain_is_popcount", "add_mod_correct",
    "settle_fixpoint",
]


def cycles_differ(a, b, skip):
    """first cycle (>= skip) where the netlist output differs from an X-free reference value"""
    ca, cb = plist(a), plist(b)
    if len(ca) != len(cb):
        return 0
    for i in range(skip, len(ca)):
        for x, y in zip(ca[i].split(":"), cb[i].split(":")):
            if y != "x" and x != y:
                return i
    return None


def run(ctx):
    ctx.cov["generated"] = gen.gen(["Cells", "CellLibs", "FuseTables"])
    ok = lean_check(ctx, "VerylModel.Props.C19", THEOREMS)
    ctx.cov["trusted_base"] = [
        "Lean 4.33 kernel; axioms ⊆ {propext, Classical.choice, Quot.sound}",
        "the converter itself (conv.rs, conv/*.rs) is VALIDATED per netlist, not verified: every real netlist is evaluated by "
        "Netlist.run (Lean) and by an independent Rust evaluator and compared with the real simulator; the rewrite RULES are proved",
        "tools/gen.py Cells (Boolean functions from tests/integration.rs eval_cell) and FuseTables (postpass::try_complex_fuse, "
        "worklist::algebraic_fuse tables)",
        "Core/SynthRules.lean: my transcription of arith.rs / prefix.rs / worklist.rs::simplify / counter.rs at the value level",
        "the real 4-state interpreter (Config{use_4state:true}) is the reference; cycles where it shows X (uninitialised "
        "registers/memory, division by zero) and the reset cycle are not compared; single clock, reset asserted in cycle 0 only",
        "harness/src/dom_synth.rs + checks/net_common.py",
    ]
    ctx.cov["rule"] = ("recorded witnesses + committed regression corpus (corpus/C19/regress.txt, must pass) + generated "
                       "synthesizable designs (S0: unsigned <=64 bit no / %; S1 +signed; S2 + / %; S3 +65..300 bit; registers "
                       "with if_reset (5 reset types, 3 clock types), counters, case decode, arrays/RAM, hierarchy, interface) x "
                       "4 libraries x RamConfig {default, min_bits 0, huge}; random + boundary stimuli; netlist outputs (Lean "
                       "Netlist.run = independent Rust evaluator) vs the 2-state INTERPRETER on the RTL, cycle by cycle, on "
                       "cycles where the 4-state interpreter is X-free and no divisor is 0. A failing design is attributed to a "
                       "recorded DEFECT CLASS only if its predicate is verified on that design: combinational -> shrunk "
                       "expression still fails AND the twin with the mechanism rewritten away agrees with the simulator; "
                       "template -> the template's twin agrees. distinct = distinct netlists")
    if not harness_build(ctx):
        return
    # 1. witnesses of the recorded findings first: an entry whose witness no longer fails suppresses nothing
    live = set()
    wit_lines = [f["witness"] for f in ctx.findings if f.get("kind") == "known" and f.get("witness")]
    if wit_lines:
        p = replay_file(ctx, wit_lines, "witnesses")
        wrows, _ = run_domain(ctx, ["--replay", p], tag="witnesses")
        for r in wrows or []:
            if r.bad or r.imp.get("wf") != "1":
                continue
            if r.ora.get("out", "?") != "?" and cycles_differ(r.imp.get("out", "[]"), r.ora["out"], 0) is not None:
                live.add(r.op.get("sig"))
        dead = [f["key"] for f in ctx.findings if f.get("kind") == "known" and f.get("witness") and f["key"] not in live]
        if dead:
            ctx.notes.append(f"known findings whose witness no longer fails (they suppress nothing): {dead}")
    listed = {f["key"] for f in ctx.findings if f.get("kind") == "known"}
    ctx.cov["known_witnesses_live"] = sorted(live)
    # 2. the regression corpus: every design in it agrees with the simulator on the unchanged tree
    for r in corpus_rows(ctx):
        ctx.cov["evaluations"] += 1
        if r.bad or r.imp.get("wf") != "1" or r.ora.get("out", "?") == "?":
            ctx.violation(f"corpus design {r.id} is no longer accepted / synthesizable / simulable: {r.imp_line[:120]}",
                          replay_body(r, "impl!=oracle", "regression corpus"), kind="impl!=oracle")
            continue
        cyc = cycles_differ(r.imp.get("out", "[]"), r.ora["out"], 0)
        if r.mod.get("out") != r.imp.get("out"):
            ctx.violation(f"corpus design {r.id}: Netlist.run and the independent evaluator disagree",
                          replay_body(r, "model!=impl", "regression corpus"), no_input=True, kind="model!=impl")
        elif cyc is not None:
            ctx.violation(f"corpus design {r.id} ({r.op.get('kind')}): netlist != RTL simulation at cycle {cyc}: netlist "
                          f"{plist(r.imp.get('out'))[cyc]} simulator {plist(r.ora.get('out'))[cyc]}",
                          replay_body(r, "impl!=oracle", "regression corpus"), kind="impl!=oracle")
    ctx.cov["corpus_designs"] = ctx.cov["evaluations"]
    # 3. generated designs
    n, cycles = sizes(ctx)
    args = ["--seed", ctx.seed, "--n", n, "--cycles", cycles, "--shrinks", 100000]
    if getattr(ctx, "replay", None):
        args = ["--replay", ctx.replay]
    rows, d = run_domain(ctx, args)
    if rows is None:
        return
    shrunk = {r.id[:-len(".shrunk")]: r for r in rows if r.id.endswith(".shrunk")}
    twins = {r.id[:-len(".twin")]: r for r in rows if r.id.endswith(".twin")}
    failing = {}       # design id -> first failing row
    reported = {"model": 0}
    compared = xfree = 0
    for r in rows:
        if r.bad or r.witness:
            continue
        ctx.cov["evaluations"] += 1
        ctx.distinct(r.op_line.split(" drv=", 1)[-1].split(" src=", 1)[0])
        if r.imp.get("wf") != "1" or r.mod.get("wf") != "1":
            continue        # C20's business; an ill-formed netlist has no defined behaviour here
        # correspondence: Lean evaluation vs independent Rust evaluation of the same netlist
        if r.mod.get("out") != r.imp.get("out"):
            if reported["model"] < 3:
                reported["model"] += 1
                ctx.violation(f"Netlist.run and the independent evaluator disagree on the netlist of design {r.id} "
                              f"(lib {r.op.get('lib')}): model {r.mod.get('out')[:120]} impl {r.imp.get('out')[:120]}",
                              replay_body(r, "model!=impl", "netlist evaluation"), no_input=True, kind="model!=impl")
            continue
        if r.ora.get("out", "?") == "?":
            ctx.cov["no_reference"] = ctx.cov.get("no_reference", 0) + 1
            continue
        compared += 1
        xfree += sum(1 for c in plist(r.ora["out"]) if "x" not in c)
        cyc = cycles_differ(r.imp.get("out", "[]"), r.ora["out"], 0)
        if cyc is not None and not r.id.endswith(".shrunk") and not r.id.endswith(".twin"):
            failing.setdefault(r.id, (r, cyc))
    ctx.cov["netlists_compared_with_simulator"] = compared
    ctx.cov["xfree_cycles_compared"] = xfree
    ctx.cov["designs_netlist_ne_simulator"] = len(failing)
    ndesigns = len({r.id for r in rows if not r.bad and not r.witness and "." not in r.id})
    ctx.cov["designs_generated_and_compared"] = ndesigns
    ctx.cov["residual_rate_netlist_ne_simulator"] = round(len(failing) / ndesigns, 4) if ndesigns else 0
    ctx.cov["failing_by_stratum_kind"] = {}
    for did, (r, _) in failing.items():
        k = f"{r.op.get('S')}/{r.op.get('kind')}"
        ctx.cov["failing_by_stratum_kind"][k] = ctx.cov["failing_by_stratum_kind"].get(k, 0) + 1
    for did, (r, cyc) in sorted(failing.items()):
        s = shrunk.get(did)
        t = twins.get(did)
        key, extra = None, {"first_failing_cycle": cyc}
        if s is not None and s.ora.get("out", "?") != "?" and not s.bad:
            # combinational design: (1) the shrunk design must itself fail; (2) its neutralised twin (the
            # suspected mechanism rewritten away, see dom_synth.rs classify_comb) must AGREE with the simulator on
            # the same stimulus. Only then is the defect-class key of the shrunk line established.
            st = twins.get(did + ".shrunk")
            fails = cycles_differ(s.imp.get("out", "[]"), s.ora["out"], 0) is not None
            twin_ok = (st is not None and not st.bad and st.imp.get("wf") == "1" and st.ora.get("out", "?") != "?"
                       and st.mod.get("out") == st.imp.get("out") and st.op.get("sig") == s.op.get("sig")
                       and cycles_differ(st.imp.get("out", "[]"), st.ora["out"], 0) is None
                       and any("x" not in c.split(":")[0] for c in plist(st.ora["out"])))
            extra.update({"shrunk_source": decode_src(s.op.get("src", "-")), "shrunk_stimulus": s.op.get("stim"),
                          "shrunk_netlist_out": s.imp.get("out"), "shrunk_simulator_out": s.ora.get("out"),
                          "shrunk_fails": fails, "twin_agrees": twin_ok})
            if fails and twin_ok:
                sig = s.op.get("sig")
                # a listed signature counts only while its recorded witness still fails
                key = sig if (sig not in listed or sig in live) else None
                extra.update({"signature": sig, "twin_source": decode_src(st.op.get("src", "-"))})
        elif t is not None and t.ora.get("out", "?") != "?" and not t.bad and t.imp.get("wf") == "1":
            # template design: the twin (suspected construct written differently) must AGREE with the simulator
            # on the same stimulus, on at least as many X-free cycles
            same_xfree = sum(1 for c in plist(t.ora["out"]) if "x" not in c) >= sum(1 for c in plist(r.ora["out"]) if "x" not in c)
            if cycles_differ(t.imp.get("out", "[]"), t.ora["out"], 0) is None and t.mod.get("out") == t.imp.get("out") and same_xfree:
                sig = t.op.get("sig")
                key = sig if (sig not in listed or sig in live) else None
                extra.update({"signature": sig, "twin_source": decode_src(t.op.get("src", "-")),
                              "twin_netlist_out": t.imp.get("out"), "twin_simulator_out": t.ora.get("out")})
        ctx.violation(f"netlist != RTL simulation for design {did} (stratum {r.op.get('S')}, kind {r.op.get('kind')}, "
                      f"lib {r.op.get('lib')}) at cycle {cyc}: netlist {plist(r.imp.get('out'))[cyc]} simulator "
                      f"{plist(r.ora.get('out'))[cyc]}" + (f" signature {extra.get('signature')}" if "signature" in extra else ""),
                      replay_body(r, "impl!=oracle", "netlist outputs vs RTL simulation", extra), key=key, kind="impl!=oracle")
    if not ok:
        if not any(not ni for _, _, ni in ctx.violations):
            proof_broken(ctx, "VerylModel.Props.C19 (or its generated tables) no longer checks")
