"""C09 — formatting only changes layout.

Proof: Props/C09.lean (corollaries of C28 for formatter Docs: content_preserved, only_trailing_ws_trimmed,
ifbreak_only_separator under the decidable side condition "Line separators blank, every IfBreak text is ','").
Correspondence: every real formatter Doc is rendered by M-Pretty (render lines) and tested for the side
condition by the Lean driver and, independently, by the harness (dflags lines; expected linews=1 ifbcomma=1).
Oracle (`layout` lines, real tools only): the formatted text re-parses; its TokenCollector stream equals the
original's modulo optional trailing separators; the comments are the same, in order, modulo trailing
whitespace; the Emitter output of original and formatted text has the same SV token stream (mini SV lexer).
"""
from checks.fmt_common import *

LEVEL = "proof"
THEOREMS = ["content_preserved", "only_trailing_ws_trimmed", "ifbreak_only_separator", "output_eq_leaves_mod_commas",
            "ifbreak_only_separator_needs_side_condition", "output_opts_invariant"]
LAYOUT_OK = "reparse=ok tokens=ok comments=ok"
# `Formatter::format` renders with strip_trailing_whitespace over the WHOLE text, so blanks at line ends inside
# embedded foreign code (`embed (…) lang{{{ … }}}`: one multi-line token) are trimmed too — a token text changes.
# Verified per case by the harness: every differing token is multi-line and equal once line ends are trimmed.
KEY_EMBED = "render:strip_trailing_whitespace:inside-embed-content"
# The lexer reports the token after an embed-content token that ENDS in a newline at (line-1, beyond the end of that
# line) instead of (line, 1); `Formatter::unformat_embed_items` rebuilds gaps from token positions and writes blanks
# there. Verified per case: the content token grew by blanks after its last newline only, and some token of the
# source has (line, column) != the position recomputed from its byte offset.
KEY_EMBED_POS = "lexer:position-after-embed-content-ending-in-newline"
SIGS = {"embed-trailing-ws": KEY_EMBED, "embed-token-position": KEY_EMBED_POS}


def keys_of(v):
    """'reparse=ok tokens=BAD:embed-trailing-ws+embed-token-position comments=ok' -> the keys explaining it."""
    f = v.split(" ")
    if len(f) != 3 or f[0] != "reparse=ok" or f[2] != "comments=ok" or not f[1].startswith("tokens=BAD:"):
        return None
    kinds = f[1][len("tokens=BAD:"):].split("+")
    return [SIGS[k] for k in kinds] if all(k in SIGS for k in kinds) else None


def process(ctx, res, label, budget):
    d, ops, imp, mod, ora = res
    for op, i, m, o in zip(ops, imp, mod, ora):
        k = kind_of(op)
        if k == "render":
            ctx.cov["traces_validated_against_impl"] += 1
            if i != m:
                model_mismatch(ctx, "fmt", label, op, i, m, budget)
        elif k == "dflags":
            ctx.cov["traces_validated_against_impl"] += 1
            if i != m:
                model_mismatch(ctx, "fmt", label, op, i, m, budget)
            elif i != o:
                if budget[1] > 0:
                    budget[1] -= 1
                    ctx.violation(f"fmt[{label}]: a real formatter Doc violates the side condition of ifbreak_only_separator: {i} "
                                  f"(expected {o})", {"kind": "impl!=oracle", "ops": [op[:20000]], "impl": i, "oracle": o},
                                  kind="impl!=oracle")
        elif k == "layout":
            ctx.distinct(op)
            if i != o:
                ks = keys_of(i)
                if ks and all(listed(ctx, k) for k in ks):
                    for k in ks:
                        ctx.violation("", "", key=k, kind="impl!=oracle")
                    continue
                key = next((k for k in (ks or []) if not listed(ctx, k)), None)
                if budget[1] > 0:
                    budget[1] -= 1
                    parts = op.split(" ")
                    src = unhex(parts[3])
                    ctx.violation(f"fmt[{label}]: formatting changed more than layout: {i} (case {parts[1]}, options {parts[2]}, "
                                  f"source {len(src or '')} chars)",
                                  {"kind": "impl!=oracle", "domain": "fmt", "ops": [op], "impl": i, "oracle": o,
                                   "source_text": src, "seed": ctx.seed,
                                   "replay": f"{HX} fmt --replay <file with the op> --out DIR"}, key=key, kind="impl!=oracle")
                else:
                    ctx.cov["failures"]["impl!=oracle"] += 1


def run(ctx):
    ok = lean_check(ctx, "VerylModel.Props.C09", THEOREMS)
    ctx.cov["trusted_base"] = [
        "Lean 4.33 kernel; axioms ⊆ {propext, Classical.choice, Quot.sound}",
        "Core/Pretty.lean (model of render.rs, tied to the code by C28's differential and by the render lines here)",
        "the formatter's walker is NOT modelled: its Docs are validated one by one (M-Pretty rendering, side condition)",
        "veryl_parser::TokenCollector and the parser (C12/C10) for the token/comment streams; Emitter + harness/src/svlex.rs "
        "(mini SV lexer) for the SV comparison",
        "harness/src/dom_fmt.rs, emitctx.rs + checks/c09.py, fmt_common.py + tools/vlib.py; verif_tap hook (cfg veryl_verif)"]
    ctx.cov["rule"] = ("one evaluation = one request line: layout (re-parse, token stream modulo trailing separators, comment stream "
                       "modulo trailing whitespace; sv:* lines: SV token stream of original vs formatted text, all self-contained "
                       "testcases analysed as one project), dflags (side condition on the real Doc, harness vs Lean vs expected), "
                       "render (real Doc: real text vs M-Pretty); inputs as C08; distinct = distinct layout requests")
    if not harness_build(ctx):
        return
    budget = [3, 4]
    res = run_lines(ctx, "fmt", ["--seed", ctx.seed + 9, "--n", tier_n(ctx, 120, 6000), "--optsets", tier_n(ctx, 2, 4),
                                 "--render-every", tier_n(ctx, 25, 10), "--align-every", 1000000, "--sv", 1], "fmt")
    if res:
        process(ctx, res, "fmt", budget)
    if not ok:
        if not any(not ni for _, _, ni in ctx.violations):
            proof_broken(ctx, "VerylModel.Props.C09 no longer checks")
