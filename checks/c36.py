"""C36 — value encodings at external boundaries (DPI svLogicVecVal, VCD/FST characters)."""
from vlib import *
from checks.enc_common import line_differential, replay_lines

LEVEL = "proof"
THEOREMS = ["svlv_shape", "svlv_encoding", "svlv_padding", "svlv_roundtrip", "svlv_roundtrip_words",
            "svlv_fromWords_canon", "svlv_arm_independent", "vcd_bit", "vcd_bits_msb_first",
            "cosim_window_partial", "cosim_window_full_false", "svlv_injective", "svlv_fromWords_injective"]


def run(ctx):
    ok = lean_check(ctx, "VerylModel.Props.C36", THEOREMS)
    ctx.cov["trusted_base"] = [
        "Lean 4.33 kernel; axioms ⊆ {propext, Classical.choice, Quot.sound}",
        "num-bigint: to_u32_digits = little-endian base-2^32 digits, `<<=`/`|=`/`bit` as on naturals",
        "the Rust type `SvLogicVecVal {aval: u32, bval: u32}` (hypothesis WordsOk), C layout of the DPI buffer",
        "vcd / fst-writer crates write the character sequence they are handed; simulator storage -> Value "
        "(`read_native_value`) is compared by the `vcd` domain only on the designs it generates",
        "harness/src/dom_svlv.rs, dom_vcd.rs + tools/vlib.py (correspondence and oracle comparison)"]
    ctx.cov["rule"] = ("svlv: every 4-state value of width <= 3 plus boundary-biased random values (widths 0..300, "
                       "both Value arms, canonical and non-canonical, X/Z density none/sparse/dense) through the real "
                       "From<&Value> for Vec<SvLogicVecVal>, From<&[SvLogicVecVal]> for Value, VcdValueIter, "
                       "to_vcd_value, to_fst_bits vs the Lean model and vs a per-bit Annex H table; cosim: the real "
                       "libveryl_cosim.so (cosim_open/cosim_set/cosim_get) on generated pass-through designs of width 1..300 in 2- and "
                       "4-state vs model and vs 'the same words with bits >= width cleared'; vcd: generated designs simulated on all 8 "
                       "interpreter/Cranelift configurations with an in-memory VCD dumper, every dumped value at every timestamp vs "
                       "Simulator::get_var; "
                       "distinct = distinct (request, reply) pairs")
    ctx.notes.append("cosim_get / cosim_set use a fixed [SvLogicVecVal; 4] buffer (DPI prototype logic [127:0]): ports wider "
                     "than 128 bits are truncated on read (theorem cosim_window_full_false); within 128 bits the window is exact "
                     "(cosim_window_partial).")
    if not harness_build(ctx):
        return
    if ctx.replay:
        for dom in ("svlv", "cosim", "vcd"):
            f = replay_lines(ctx, dom)
            if f:
                line_differential(ctx, dom, ["--replay", f])
        return
    line_differential(ctx, "svlv", ["--seed", ctx.seed, "--n", tier_n(ctx, 6000, 200000)])
    run_cosim(ctx)
    run_vcd(ctx)
    if not ok:
        if not any(not ni for _, _, ni in ctx.violations):
            proof_broken(ctx, "VerylModel.Props.C36 no longer checks")


def run_cosim(ctx):
    """DPI half on the real cdylib: cosim_open / cosim_set / cosim_get through libloading."""
    import os
    if not os.path.exists(f"{HARNESS}/src/dom_cosim.rs"):
        return
    n = line_differential(ctx, "cosim", ["--seed", ctx.seed, "--n", tier_n(ctx, 300, 6000)])
    if ctx.cov.get("distribution", {}).get("cosim.library_missing"):
        ctx.notes.append("libveryl_cosim.so was not found next to hx: the DPI entry points themselves were not exercised in this run "
                         "(the conversion functions they call were, by the svlv domain)")


def run_vcd(ctx):
    """Waveform half: oracle-only domain (simulated designs, VCD text parsed back)."""
    import os
    if not os.path.exists(f"{HARNESS}/src/dom_vcd.rs"):
        ctx.notes.append("vcd domain absent: waveform half covered by the value-formatting functions only")
        return
    rc, out, d = run_hx(ctx, "vcd", ["--seed", ctx.seed, "--n", tier_n(ctx, 64, 1200)])
    if rc != 0:
        ctx.violation(f"harness domain vcd crashed (rc={rc})", {"kind": "harness-crash", "log": out[-4000:]},
                      no_input=True, kind="model!=impl")
        return
    n, mism = diff3(d)
    stats = load_stats(d)
    ctx.cov["evaluations"] += n
    for k, v in stats.items():
        if k != "samples":
            ctx.cov.setdefault("distribution", {})[f"vcd.{k}"] = v
    for s in stats.get("samples", []):
        ctx.sample(s)
    ops = read_lines(f"{d}/ops.txt") or []
    imp = read_lines(f"{d}/impl.txt") or []
    for o, r in zip(ops, imp):
        ctx.distinct(("vcd", o, r))
    for m in mism[:3]:
        body = {"kind": m["kind"], "domain": "vcd", "ops": [m["op"]], "first_difference": m,
                "replay": f"{HX} vcd --replay <file with the op line>", "seed": ctx.seed}
        ctx.violation(f"vcd: dumped value differs from the simulator's value at `{m['op'][:200]}`: "
                      f"dump={m['impl'][:200]} simulator={m['oracle'][:200]}", body, kind="impl!=oracle")
