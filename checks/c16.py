"""C16 — clock-domain crossings are always caught (and nothing else is)."""
from vlib import *
from checks.c15c16_shrink import shrink as structural_shrink

LEVEL = "proof"
THEOREMS = ["root_is_merge_of_leaves", "expr_check_exact", "expr_no_launder", "explicit_inferred_alike",
            "explicit_inferred_same_verdict", "assign_exact", "assign_crossing_exact", "assign_alike",
            "single_domain_clean", "single_domain_design_clean", "unsafe_design_clean",
            "C16_none_destination_launders", "C16_inference_order_false_negative",
            "C16_inference_order_false_positive", "C16_else_if_gating_unchecked",
            "C16_switch_gating_unchecked", "C16_inst_constant_first_launders",
            "C16_default_clock_reset_not_unsafeable"]

# Witnesses of the negated theorems of Props/C16.lean, replayed on the real analyzer on every run.
# (key, request line, items that truly contain a crossing = what the property demands)
WITNESSES = [
    ("cdc:block-local-variable-launders",
     "f [e1,n,e2] k0{A(1,v0)A(2,v1)}", "[0000]",
     "`always_comb { var t: logic; t = i_a; o_b = t; }` ('a -> 'b through a variable declared inside the always "
     "block, whose domain is None) is accepted; theorem C16_none_destination_launders"),
    ("cdc:inference-order-false-negative",
     "f [e1,e2,m,m,m,m,m] a0(3,v2);a0(2,v0);a0(5,v4);a0(4,v1);a0(6,B(v3,v5))", "[0004]",
     "`assign y = x; assign x = i_a; assign y2 = x2; assign x2 = i_b; assign o = y & y2;` (un-annotated x, y, x2, y2, o) "
     "is accepted although it mixes 'a and 'b; in data-flow order it is rejected; theorem C16_inference_order_false_negative"),
    ("cdc:inference-order-false-positive",
     "f [e1,m,m,e1] a0(2,v1);a0(1,v0);a0(3,v2)", "[]",
     "`assign y = x; assign x = i_a; assign o_a = y;` (everything in 'a) is rejected, `assign x = i_a; assign y = x; …` "
     "is accepted; theorem C16_inference_order_false_positive"),
    ("cdc:else-if-gating-unchecked",
     "f [e1,e2,e2] k0{I(v0){}<(v1){A(2,c)}>{}}", "[0000]",
     "`if i_a {} else if i_b { o_b = 1; }`: the 'a condition gates the 'b write but only the branch's own condition "
     "is on the condition stack; the nested form is rejected; theorem C16_else_if_gating_unchecked"),
    ("cdc:switch-gating-unchecked",
     "f [e1,e2,e2] k0{S<(v0){}(v1){A(2,c)}>{}}", "[0000]",
     "`switch { i_a: {} i_b: { o_b = 1; } }`: same as else-if; theorem C16_switch_gating_unchecked"),
    ("cdc:inst-constant-first-launders",
     "f [e1,e2] i0(0:c,0:v0,0:v1)", "[0000]",
     "`inst u: Sub (s0: 1'b1, s1: i_a, s2: o_b)`: connections are compared with the first one only; a constant "
     "first connection disables the check; theorem C16_inst_constant_first_launders"),
]


def run_model_retry(domain, out_dir, dst="model.txt", tries=3):
    for _ in range(tries):
        rc, err = run_model(domain, out_dir, dst=dst)
        if rc >= 0:
            break
    return rc, err


def run_hx_retry(ctx, domain, args, out_dir=None, timeout=3600, tries=3):
    """`run_hx`, repeated if the process was killed by a signal (the machine is shared: other jobs
    occasionally `pkill hx`); a deterministic failure fails every time."""
    for k in range(tries):
        rc, out, d = run_hx(ctx, domain, args, out_dir=out_dir, timeout=timeout)
        if rc >= 0 and rc != 143 and rc != 137:
            return rc, out, d
        ctx.log(f"hx {domain} was killed by a signal (rc={rc}); retry {k + 1}")
    return rc, out, d


def shrink_items(ctx, line, fails):
    """Structural shrinking (items, statements, branches, sub-expressions) while the mismatch persists."""
    return structural_shrink(line, fails, "cdc")


def replay_lines(ctx, lines, tag):
    d = f"{ctx.run_dir}/{tag}"
    os.makedirs(d, exist_ok=True)
    with open(f"{d}/replay.txt", "w") as fh:
        fh.write("\n".join(lines) + "\n")
    rc, out, _ = run_hx_retry(ctx, "cdc", ["--replay", f"{d}/replay.txt"], out_dir=d, timeout=600)
    if rc != 0:
        return None
    run_model_retry("cdc", d)
    return d


def line_fails(ctx, line):
    d = replay_lines(ctx, [line], "shrink")
    if d is None:
        return True
    n, mism = diff3(d)
    return bool(mism)


def run(ctx):
    ok = lean_check(ctx, "VerylModel.Props.C16", THEOREMS)
    ctx.cov["trusted_base"] = [
        "Lean 4.33 kernel; axioms ⊆ {propext, Classical.choice, Quot.sound}",
        "modelled, not verified: where a declaration's domain comes from (symbol table: annotation, Implicit for "
        "module-level items, None inside always blocks/functions), `unsafe_table::contains` (one flag per "
        "module item), the order in which the converter visits declarations",
        "harness/src/dom_cdc.rs (rendering of the model language to Veryl, line -> item mapping of diagnostics, "
        "S0 oracle) + tools/vlib.py",
        "not covered by the model: function calls, struct constructors / array literals (same fold as concatenation), "
        "`<>` connect operations, SystemVerilog instances, generate blocks"]
    ctx.cov["rule"] = ("random multi-domain modules (explicit 'a/'b/'c, un-annotated and block-local variables, interface "
                       "members, assign / always_comb / always_ff with if/else-if/case/switch, instances with annotated and "
                       "un-annotated sub-module ports, unsafe (cdc) blocks) analysed by the real analyzer; every "
                       "MismatchClockDomain diagnostic (item, lhs class, rhs class; as a multiset) compared with the Lean "
                       "model; on the clean stratum S0 the set of rejected items compared with the declared crossings; "
                       "distinct = distinct (design, diagnostics)")
    if not harness_build(ctx):
        return
    # 1. witnesses of the negated theorems
    d = replay_lines(ctx, [w[1] for w in WITNESSES], "witness")
    if d is None:
        ctx.violation("hx cdc crashed on the witness designs", {"kind": "harness-crash"}, no_input=True, kind="model!=impl")
    else:
        imp = read_lines(f"{d}/impl.txt") or []
        mod = read_lines(f"{d}/model.txt") or []
        for i, (key, line, truth, what) in enumerate(WITNESSES):
            got = imp[i] if i < len(imp) else "(missing)"
            m = mod[i] if i < len(mod) else "(missing)"
            ctx.cov["evaluations"] += 1
            if got != m:
                ctx.violation(f"cdc witness {key}: model says {m}, implementation {got}",
                              {"kind": "model!=impl", "op": line, "impl": got, "model": m,
                               "replay": f"{HX} cdc --replay <file with the line>"}, no_input=(got == truth),
                              key=None, kind="model!=impl")
            if got != truth:
                ctx.violation(f"cdc: {what}: rejected items {got}, demanded {truth}",
                              {"kind": "impl!=oracle", "op": line, "impl": got, "oracle": truth, "what": what,
                               "replay": f"{HX} cdc --replay <file with the line>"}, key=key, kind="impl!=oracle")
            else:
                ctx.notes.append(f"witness {key} no longer fails on the implementation")
    # 2. generated designs
    n = tier_n(ctx, 1500, 40000)
    rc, out, d = run_hx_retry(ctx, "cdc", ["--seed", ctx.seed, "--n", n], timeout=7200)
    if rc != 0:
        ctx.violation(f"harness domain cdc crashed (rc={rc})", {"kind": "harness-crash", "log": out[-4000:]},
                      no_input=True, kind="model!=impl")
        return
    mrc, err = run_model_retry("cdc", d)
    if mrc != 0:
        ctx.log(f"vmodel cdc rc={mrc}: {err[-500:]}")
    nlines, mism = diff3(d)
    stats = load_stats(d)
    ctx.cov["evaluations"] += nlines
    ctx.cov["traces_validated_against_impl"] += int(stats.get("analyzed", 0))
    for k, v in stats.items():
        if k != "samples":
            ctx.cov.setdefault("distribution", {})[f"cdc.{k}"] = v
    for s in stats.get("samples", []):
        ctx.sample(s[:400])
    ops = read_lines(f"{d}/ops.txt") or []
    imp = read_lines(f"{d}/impl.txt") or []
    for o, r in zip(ops, imp):
        if o.startswith("d "):
            ctx.distinct((o, r))
    reported_designs = set()
    for m in mism:
        if len(reported_designs) >= 3:
            break
        line = m["op"]
        design = line.split(" ", 1)[1] if " " in line else line
        if design in reported_designs:      # the `d` and the `f` line of one design
            continue
        reported_designs.add(design)
        try:
            small = shrink_items(ctx, line, lambda l: line_fails(ctx, l))
        except Exception as e:
            ctx.log(f"shrink failed: {e}")
            small = line
        dd = replay_lines(ctx, [small], "final")
        first = m
        if dd is not None:
            _, mm = diff3(dd)
            if mm:
                first = mm[0]
        body = {"kind": first["kind"], "domain": "cdc", "ops": [small], "first_difference": first,
                "replay": f"{HX} cdc --replay <file with the ops> ; {VMODEL} cdc < ops.txt", "seed": ctx.seed}
        if first["kind"] == "impl!=oracle":
            ctx.violation(f"cdc: rejected items differ from the declared crossings at `{small}`: "
                          f"impl={first['impl']} oracle={first['oracle']}", body, kind="impl!=oracle")
        else:
            ctx.violation(f"cdc: model/implementation correspondence broken at `{small}`: "
                          f"impl={first['impl']} model={first['model']}", body, no_input=True, kind=first["kind"])
    if not ok:
        if not any(not ni for _, _, ni in ctx.violations):
            proof_broken(ctx, "VerylModel.Props.C16 no longer checks")
