"""C24, CLI level: running the same build twice (separate processes = different hash seeds, separate
trees) gives byte-identical outputs; and the order of FILE arguments does not matter."""
import os
import random
import shutil

import proj
from vlib import *


def run_cli(ctx):
    if not cli_build(ctx):
        return
    base = proj.scratch_dir("c24")
    rng = random.Random(ctx.seed)
    n = tier_n(ctx, 3, 20)
    for i in range(n):
        files = proj.base_files()
        opts = {"build": {"incremental": "false"}}
        for _ in range(rng.randrange(0, 4)):          # a few error-free variations
            name, fn = rng.choice([e for e in proj.EDITS if e[0] in ("const", "ws", "add", "move", "toml", "use_z")])
            fn(files, opts, rng)
        snaps = []
        for rep in range(3):
            root = f"{base}/p{i}/r{rep}/prj"
            os.makedirs(root, exist_ok=True)
            proj.sync_tree(root, files, opts)
            args = ["build"]
            if rep == 2:                              # explicit file arguments in a shuffled order
                srcs = sorted(k for k in files)
                rng.shuffle(srcs)
                args += srcs
            rc, out = proj.run_veryl(root, args, f"{base}/xdg")
            ctx.cov["evaluations"] += 1
            snap = proj.snapshot(root)
            if rep == 2:
                snap = {k: v for k, v in snap.items() if not k.endswith(".f")}   # the filelist names what was asked
            snaps.append((rc, proj.diagnostics(out, root), snap, args))
        ctx.distinct(("cli", i, tuple(sorted(snaps[0][2].items()))))
        ref = snaps[0]
        for rep, s in enumerate(snaps[1:], 1):
            r2 = ref[2] if rep == 1 else {k: v for k, v in ref[2].items() if not k.endswith(".f")}
            if (s[0] == 0) != (ref[0] == 0) or s[1] != ref[1] or s[2] != r2:
                diff = sorted(k for k in set(r2) | set(s[2]) if r2.get(k) != s[2].get(k))
                ctx.violation(f"two runs of the same build differ (run {rep}: {' '.join(s[3])}): files {diff}, "
                              f"rc {ref[0]}/{s[0]}",
                              {"kind": "impl!=oracle", "files": files, "opts": opts, "args_run0": ref[3], "args_other": s[3],
                               "differing_outputs": diff, "diags_run0": ref[1], "diags_other": s[1]})
        if i == 0:
            ctx.sample({"cli_project_files": sorted(files), "outputs": len(ref[2]), "rc": ref[0]})
    shutil.rmtree(base, ignore_errors=True)
