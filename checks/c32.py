"""C32 — test results do not depend on scheduling; $tb random values reproducible and in range."""
import sys
sys.path.insert(0, "/verif/checks")
import gen
from vlib import *
from checks.enc_common import line_differential, replay_lines

LEVEL = "proof"
THEOREMS = ["range_call_wellformed", "range_in_bounds", "get_in_range", "derive_seed_fn", "stream_reproducible", "instance_seed_fn",
            "pool_reports", "schedule_invariant", "schedule_complete"]


def key_of(seq, m):
    return None


def run(ctx):
    ctx.cov["generated"] = gen.gen(["Fnv"])
    ok = lean_check(ctx, "VerylModel.Props.C32", THEOREMS)
    ctx.cov["trusted_base"] = [
        "Lean 4.33 kernel; axioms ⊆ {propext, Classical.choice, Quot.sound}",
        "tools/gen.py gen_fnv (extracts offset basis, prime, xor-before-multiply and the order of `eat` calls of "
        "derive_seed and instance_seed)",
        "rand 0.10 `random_range(lo..=hi)` returns a value of the closed range when lo <= hi (hypotheses SamplerU/SamplerI); "
        "Pcg64::seed_from_u64 is a function of the seed (the harness replica relies on the same crate)",
        "schedule_invariant's hypothesis `hf` (a test's report does not depend on the worker's thread-local state): "
        "random_table::reset per test (exercised by the `par` requests), output_buffer::enable/take, C34; "
        "the CLI-level run under different CPU counts is a separate part of this check (not in this slice)",
        "harness/src/dom_random.rs + tools/vlib.py (correspondence and oracle comparison)"]
    ctx.cov["rule"] = ("random: operation sequences (base/setseed/seedof/get/range/par) on the real random_table; every width 0..64 x "
                       "signedness x boundary bound pairs once, then random sequences with boundary-biased bounds (0, 1, all-ones, "
                       "msb, msb-1, garbage above width, reversed and equal bounds); each draw compared with the Lean model fed the "
                       "replica generator's sample and with the oracle payload; distinct = distinct (request, reply) pairs")
    ctx.notes.append("instance_seed (component/runtime.rs) is private: its constants/byte order are regenerated and checked "
                     "(instance_seed_fn), its value is observed only through a component's BuildCtx::seed (C35 host domain).")
    if not harness_build(ctx):
        return
    if ctx.replay:
        f = replay_lines(ctx, "random")
        if f:
            line_differential(ctx, "random", ["--replay", f], stateless=False)
        return
    line_differential(ctx, "random", ["--seed", ctx.seed, "--n", tier_n(ctx, 400, 20000), "--len", tier_n(ctx, 30, 60)],
                      stateless=False)
    # CLI level: `veryl test --seed S --format json` under different CPU sets and dispatch orders
    import c32_cli
    c32_cli.run_cli(ctx)
    if not ok:
        if not any(not ni for _, _, ni in ctx.violations):
            proof_broken(ctx, "VerylModel.Props.C32 (or its generated FNV constants) no longer checks")
