"""C26 — presentation-only build options never change behaviour.

Proof: Props/C26.lean: nonws_opts_invariant / output_is_leaves / newline_only for emitter Docs (no IfBreak
text: decidable side condition), strip_comments_removes_only_comments, inside_expanded_equiv (+ its
negation without the side condition 0 < b).
Correspondence: real emitter Docs rendered by M-Pretty (render); the real stripped output vs M-Pretty applied
to the real unstripped Doc with its Comments nodes deleted (rstrip); side conditions (dflags).
Oracle (`opts` lines, mini SV lexer, real Emitter only): strip_comments / newline_style / indent_width /
max_width / vertical_align leave the SV token stream unchanged (comments only removed by strip_comments,
CRLF only in line ends); expand_inside_operation changes it exactly by the proved rewriting.
"""
from checks.fmt_common import *

LEVEL = "proof"
THEOREMS = ["emitDoc_neutral", "nonws_opts_invariant", "output_is_leaves", "newline_only",
            "strip_comments_removes_only_comments", "item_equiv", "expanded_eq_any", "inside_expanded_equiv",
            "inside_expanded_equiv_false"]


def classify(op, v):
    """No known finding is left for C26: the two emitter defects found by this check (panic under strip_comments
    without vertical_align — fix 954ed37; comment after a moved import surviving strip_comments — fix ce94f55) are
    repaired in /repo, a recurrence is a VIOLATION."""
    return None


def process(ctx, res, label, budget):
    d, ops, imp, mod, ora = res
    for op, i, m, o in zip(ops, imp, mod, ora):
        k = kind_of(op)
        if k in ("render", "dflags", "rstrip"):
            ctx.cov["traces_validated_against_impl"] += 1
            if i != m:
                model_mismatch(ctx, "emitopts", label, op, i, m, budget)
            elif o != "?" and i != o and budget[1] > 0:
                budget[1] -= 1
                ctx.violation(f"emitopts[{label}]: a real emitter Doc violates a side condition of the C26 theorems: {i} (expected {o})",
                              {"kind": "impl!=oracle", "ops": [op[:20000]], "impl": i, "oracle": o}, kind="impl!=oracle")
        elif k == "opts":
            ctx.distinct(op)
            if i != o:
                key = classify(op, i)
                if key and listed(ctx, key):
                    ctx.violation("", "", key=key, kind="impl!=oracle")
                    continue
                if budget[1] > 0:
                    budget[1] -= 1
                    parts = op.split(" ")
                    src = unhex(parts[5])
                    ctx.violation(f"emitopts[{label}]: option family `{parts[2]}` changed the emitted SystemVerilog of {parts[1]} beyond "
                                  f"presentation: {i} (options {parts[3]} vs {parts[4]})",
                                  {"kind": "impl!=oracle", "domain": "emitopts", "ops": [op], "impl": i, "oracle": o,
                                   "source_text": src, "seed": ctx.seed,
                                   "replay": f"{HX} emitopts --replay <file with the op> --out DIR"}, key=key, kind="impl!=oracle")
                else:
                    ctx.cov["failures"]["impl!=oracle"] += 1
    st = load_stats(d)
    if st.get("selftest_expand_ok") != 1 or st.get("selftest_expand_rejects_wrong") != 1:
        ctx.violation("emitopts: the structural comparison for expand_inside_operation failed its self-test",
                      {"kind": "model!=impl", "stats": {k: st.get(k) for k in ("selftest_expand_ok", "selftest_expand_rejects_wrong")}},
                      no_input=True, kind="model!=impl")


def run(ctx):
    ok = lean_check(ctx, "VerylModel.Props.C26", THEOREMS)
    ctx.cov["trusted_base"] = [
        "Lean 4.33 kernel; axioms ⊆ {propext, Classical.choice, Quot.sound}",
        "Core/Pretty.lean (model of render.rs), Core/DocOps.lean (stripComments), Core/Inside.lean (2-state unsigned w-bit reading "
        "of the emitted `inside` forms; IEEE 1800-2017 §11.4.13)",
        "the emitter's walker is NOT modelled: its Docs are validated one by one; `behaviour` of the SV is approximated by its "
        "token stream (harness/src/svlex.rs)",
        "harness/src/dom_emitopts.rs, emitctx.rs, svlex.rs + checks/c26.py, fmt_common.py + tools/vlib.py; verif_tap hook"]
    ctx.cov["rule"] = ("one evaluation = one request line: opts (two real emissions of one file under two option sets, compared by "
                       "the mini SV lexer), rstrip (real stripped output vs M-Pretty on the real Doc minus Comments), render, dflags; "
                       "inputs = the self-contained testcases as one project + rounds of token-gap mutants; families strip_comments, "
                       "newline_style, {indent 2/4/8 x max_width 20/40/80/120 x vertical_align}, expand_inside_operation; "
                       "distinct = distinct opts requests")
    if not harness_build(ctx):
        return
    budget = [3, 4]
    res = run_lines(ctx, "emitopts", ["--seed", ctx.seed, "--rounds", tier_n(ctx, 1, 12), "--layouts", tier_n(ctx, 2, 6),
                                      "--render-every", tier_n(ctx, 12, 4)], "emitopts")
    if res:
        process(ctx, res, "emitopts", budget)
    if not ok:
        if not any(not ni for _, _, ni in ctx.violations):
            proof_broken(ctx, "VerylModel.Props.C26 no longer checks")
