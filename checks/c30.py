"""C30 — concurrent veryl processes never corrupt each other.

Proof side: lean/VerylModel/Props/C30.lean (all interleavings of the M-FS process programs).
Tie: every real process run below is traced with strace, abstracted to M-FS events
(tools/strace_fs.py) and must be a word of the modelled programs (`vmodel fs`).
Oracle: every finished build exits 0 and leaves the outputs of a clean build; the language server
answers while a build (or this check) holds the project locks."""
import fcntl
import json
import os
import select
import shutil
import subprocess
import threading
import time
from concurrent.futures import ThreadPoolExecutor

import proj
import strace_fs
from vlib import *

LEVEL = "proof"
THEOREMS = ["build_lock_serialises", "serial_order_unique", "serial_order_run", "store_reads_whole",
            "blob_read_miss_or_own", "blocked_only_on", "never_blocks", "ls_try_open_no_blocking_step",
            "ls_never_blocks", "ls_blocking_locks", "ls_can_wait_on_std_lock", "deps_checkout_safe", "std_expand_race",
            "std_expand_race_partial_file", "std_expander_reads_partial", "std_expand_unsafe",
            "std_expand_partial", "resolve_read_after_unlock_race", "output_locked_reader_sees_whole",
            "output_unlocked_reader_sees_truncated", "cli_prelude_reads_partial_info", "cli_body_bracketed",
            "model_cli_words_accepted", "model_ls_words_accepted", "model_dep_words_accepted",
            "accepted_trunc_not_atomic_file", "accepted_mutation_guarded", "inBuild_cli_project",
            "accepted_ls_blocking_lock", "accepted_std_test_unlocked", "accepted_std_present_no_write"]

KEY_STD = "std::expand:exists-before-lock"
KEY_RESOLVE = "lockfile::resolve_version_from_latest:read-after-unlock"
GIT_ENV = {"GIT_AUTHOR_NAME": "veryl", "GIT_AUTHOR_EMAIL": "veryl@example.org",
           "GIT_COMMITTER_NAME": "veryl", "GIT_COMMITTER_EMAIL": "veryl@example.org"}


# ---------------------------------------------------------------------------------------------
# helpers
# ---------------------------------------------------------------------------------------------

class Run:
    """One traced process: start(), wait(); then .rc .out .trace .t0 .t1"""

    def __init__(self, tag, cmd, root, xdg, base, inject=None, role="cli", stdin=None, extra=()):
        self.tag, self.cmd, self.root, self.xdg, self.role = tag, cmd, root, xdg, role
        self.extra = list(extra)
        self.trace = f"{base}/{tag}.strace"
        self.inject = inject
        self.stdin = stdin
        self.p = None

    def start(self):
        env = proj.veryl_env(self.xdg)
        env.update(GIT_ENV)
        self.t0 = time.time()
        self.p = strace_fs.popen_traced(self.cmd, self.root, env, self.trace, inject=self.inject, extra=self.extra,
                                        stdin=self.stdin, stdout=subprocess.PIPE, stderr=subprocess.STDOUT)
        return self

    def wait(self, timeout=300):
        try:
            out = self.p.communicate(timeout=timeout)[0]
            self.rc = self.p.returncode
        except subprocess.TimeoutExpired:
            self.p.kill()
            out = self.p.communicate()[0]
            self.rc = -999
        self.t1 = time.time()
        self.out = proj.ANSI.sub("", (out or b"").decode("utf-8", "replace"))
        return self


def wait_trace(run, pattern, timeout=90):
    """Block until the strace output of a running process contains a line matching `pattern`
    (used to steer a second process into a window); returns the match or None."""
    import re
    rx = re.compile(pattern)
    end = time.time() + timeout
    while time.time() < end:
        try:
            with open(run.trace, errors="replace") as fh:
                for ln in fh:
                    m = rx.search(ln)
                    if m:
                        return m
        except OSError:
            pass
        if run.p.poll() is not None:
            return None
        time.sleep(0.05)
    return None


def tracee_pid(run):
    """pid of the traced veryl process (first column of the first trace line)"""
    try:
        with open(run.trace) as fh:
            return int(fh.readline().split()[0])
    except Exception:
        return None


def freeze(run):
    import signal
    pid = tracee_pid(run)
    if pid:
        try:
            os.kill(pid, signal.SIGSTOP)
            return True
        except OSError:
            return False
    return False


def thaw(run):
    import signal
    pid = tracee_pid(run)
    if pid:
        try:
            os.kill(pid, signal.SIGCONT)
        except OSError:
            pass


def word_of(run, other_roots=()):
    ev, info = strace_fs.abstract(run.trace, run.root, f"{run.xdg}/veryl", 1, other_roots)
    run.events, run.info = ev, info
    return ev


def shape(ev):
    """run-length compressed sequence of event kinds (what a word looks like)"""
    res, last, n = [], None, 0
    for e in ev:
        f = e.split(":")
        k = f[0] + ":" + (f[1].split(".")[0] if f[0] in ("lk", "ul", "tl") else f[1] if f[0] in ("mk", "tr", "wr", "rd", "un", "ex") else "")
        if f[0] == "tl":
            k += ":" + f[2]
        if f[0] == "ex":
            k += ":" + f[4]
        if k == last:
            n += 1
        else:
            if last is not None:
                res.append(f"{last}*{n}" if n > 1 else last)
            last, n = k, 1
    if last is not None:
        res.append(f"{last}*{n}" if n > 1 else last)
    return res


def check_inclusion(ctx, runs, what):
    """Trace inclusion for finished runs; reports the first non-fitting event of each."""
    words = [(r.role, 1, r.events) for r in runs]
    res = strace_fs.check_words(VMODEL, words)
    for r, x in zip(runs, res):
        ctx.cov["evaluations"] += x["n"]
        sh = shape(r.events)
        ctx.distinct(tuple(s.split("*")[0] for s in sh if not s.startswith("ex:")))
        for k, v in r.info["kinds"].items():
            d = ctx.cov.setdefault("distribution", {}).setdefault("event_kinds", {})
            d[k] = d.get(k, 0) + v
        if x["ok"]:
            ctx.cov["traces_validated_against_impl"] += 1
            ctx.sample({"process": f"{what}/{r.tag}", "events": x["n"],
                        "word": " ".join(s for s in sh if not s.startswith("ex:"))[:700]})
        else:
            i = x["index"]
            lo = max(0, i - 12)
            ctx.violation(
                f"{what}/{r.tag}: the real process's syscall trace is not a word of the modelled {r.role} program: "
                f"event #{i} `{x['event']}` ({x['reply']})",
                {"kind": "model!=impl", "process": r.tag, "cmd": r.cmd, "first_non_fitting_event": x["event"], "index": i,
                 "context": [{"i": k, "event": r.events[k], "syscall": r.info["lines"][k]} for k in range(lo, min(len(r.events), i + 2))],
                 "replay": f"strace -f -y -ttt -s 0 -e trace=... {' '.join(r.cmd)} ; python3 tools/strace_fs.py <trace> <root> <xdg>/veryl {r.role}"},
                no_input=True, kind="model!=impl")
    return res


def clean_reference(base, tag, files, opts, leaf="prj"):
    """outputs of a clean build of the same sources (own tree, own cache)"""
    root = f"{base}/ref-{tag}/{leaf}"
    os.makedirs(root, exist_ok=True)
    proj.sync_tree(root, files, opts)
    rc, out = proj.run_veryl(root, ["build"], f"{base}/ref-{tag}/xdg")
    return rc, proj.snapshot(root), out


# ---------------------------------------------------------------------------------------------
# (a) N concurrent builds of one project
# ---------------------------------------------------------------------------------------------

def scenario_same_project(ctx, base, n=4, rounds=2):
    """Each round: edit the sources, then run n commands at once on the warm tree `same/prj`.
    Oracle 1 (T1 on the real thing): same exit codes and same outputs as a *serial twin* — a second
    warm tree with its own cache that went through the same history with the commands run one after
    the other.  Oracle 2: same outputs as a clean build of the same sources, whenever the clean build
    succeeds.  (If twin and concurrent tree agree with each other but not with the clean build, the
    deviation is not caused by concurrency: it is C04's subject — incremental vs clean — and is
    recorded as a note, not as a C30 violation.)"""
    root = f"{base}/same/prj"
    xdg = f"{base}/same/xdg"
    twin, twin_xdg = f"{base}/twin/prj", f"{base}/twin/xdg"
    for d in (root, xdg, twin, twin_xdg):
        os.makedirs(d, exist_ok=True)
    rng = __import__("random").Random(ctx.seed)
    files, opts = proj.base_files(), {}
    all_runs = []
    for rnd in range(rounds):
        if rnd > 0:
            for _ in range(2):
                name, fn = rng.choice([e for e in proj.EDITS if e[0] in ("const", "ws", "add", "warn+", "rename_leaf", "fix_mid", "move", "toml")])
                fn(files, opts, rng)
            if rnd % 2 == 1:      # something to garbage-collect / regenerate
                files.pop("src/alone.veryl", None)
        proj.sync_tree(root, files, opts)
        proj.sync_tree(twin, files, opts)
        cmds = ["build"] * n if rnd == 0 else ["build", "check", "build", "build"][:n] + ["build"] * max(0, n - 4)
        runs = [Run(f"r{rnd}p{i}", [VERYL, c], root, xdg, f"{base}/same") for i, c in enumerate(cmds)]

        def serial_twin():
            return [proj.run_veryl(twin, [c], twin_xdg) for c in cmds]
        with ThreadPoolExecutor(max_workers=2) as ex:
            fref = ex.submit(clean_reference, base, f"same{rnd}", dict(files), json.loads(json.dumps(opts)))
            ftwin = ex.submit(serial_twin)
            for r in runs:
                r.start()
            for r in runs:
                r.wait()
            rc_ref, ref, ref_out = fref.result()
            twin_res = ftwin.result()
        orphans = set(proj.orphan_outputs(root, files))
        got = {k: v for k, v in proj.snapshot(root).items() if k not in orphans}
        got_twin = {k: v for k, v in proj.snapshot(twin).items() if k not in orphans}
        body = {"kind": "impl!=oracle", "files": dict(files), "opts": json.loads(json.dumps(opts)), "commands": cmds,
                "replay": f"tools/proj.py sync_tree of `files`/`opts` into a warm tree (round {rnd} of the history of seed {ctx.seed}), "
                          f"then start {cmds} simultaneously in that directory; twin: the same commands one after the other"}
        for r, (trc, tout) in zip(runs, twin_res):
            word_of(r)
            if proj.panicked(r.out) or r.rc != trc:
                ctx.violation(f"same-project round {rnd}: `{' '.join(r.cmd[1:])}` #{r.tag} exited {r.rc} while {n - 1} other commands ran on "
                              f"the project; the same command in the serial twin exited {trc}",
                              dict(body, output=r.out[-3000:], twin_output=tout[-1500:]))
            elif set(proj.diagnostics(r.out, root)) != set(proj.diagnostics(tout, twin)):
                # which command of a round runs first (cold) differs between the two trees; a difference
                # here is a cold-vs-warm difference of the printed diagnostics (C04), not a corruption
                ctx.notes.append(f"same-project round {rnd}: #{r.tag} printed a different set of diagnostics than its serial twin "
                                 "(cold vs warm run of the same command: C04's subject)")
        if got != got_twin:
            diff = sorted(set(got.items()) ^ set(got_twin.items()))[:10]
            ctx.violation(f"same-project round {rnd}: outputs after {n} concurrent commands differ from the serial twin: {diff}", dict(body, diff=diff))
        elif rc_ref == 0 and got != ref:
            diff = sorted(set(got.items()) ^ set(ref.items()))[:10]
            ctx.notes.append(f"same-project round {rnd}: concurrent tree and serial twin agree but differ from a clean build in "
                             f"{sorted({k for k, _ in diff})} — not a concurrency effect (incremental vs clean: C04)")
        # T1 on the real processes: the intervals [lock, unlock] of .build/lock must not overlap
        spans = []
        for r in runs:
            # lock: time the flock call returned; unlock: time the LOCK_UN call was entered (the lock is
            # released at some point during that call, the next holder's flock may return before it does)
            t, te = r.info["times"], r.info["entry"]
            lk = [t[i] for i, e in enumerate(r.events) if e == "lk:build.1"]
            ul = [te[i] for i, e in enumerate(r.events) if e == "ul:build.1"]
            if lk and ul:
                spans.append((lk[0], ul[-1], r.tag))
        spans.sort()
        for (a0, a1, ta), (b0, b1, tb) in zip(spans, spans[1:]):
            if b0 < a1:
                ctx.violation(f"same-project round {rnd}: {ta} and {tb} held .build/lock at the same time ({a0:.3f}-{a1:.3f} / {b0:.3f}-{b1:.3f})",
                              {"kind": "impl!=oracle", "spans": spans})
        ctx.cov.setdefault("distribution", {}).setdefault("same_project", []).append(
            {"round": rnd, "commands": cmds, "rcs": [r.rc for r in runs], "twin_rcs": [x[0] for x in twin_res], "clean_build_rc": rc_ref,
             "outputs": len(got), "equals_twin": got == got_twin, "equals_clean": (got == ref) if rc_ref == 0 else None})
        all_runs += runs
    check_inclusion(ctx, all_runs, "same-project")
    return all_runs


# ---------------------------------------------------------------------------------------------
# (b) two projects sharing a fresh user cache, standard library enabled
# ---------------------------------------------------------------------------------------------

def std_signature(a, b):
    """Is b's failure the recorded std::expand race (existence test outside the lock, library files
    written in place)?  Facts, each taken from the order of events inside ONE process's own trace,
    plus one sound timing veto:
    (1) a expanded the library: inside its own lock … unlock of std/<hash>/lock it truncated and
        wrote library files in place;
    (2) b used the library without holding the std lock: either it found the directory present and
        never locked or wrote std (variant "skipped"), or it expanded itself and read the files
        after its own unlock while a — who had also passed the test — expanded again (variant
        "both expanded");
    (3) timing veto (sound inequalities only: an operation takes effect between its entry and its
        completion as seen by strace; 0.5 s slack): some std access of b made after its test / own
        unlock overlaps a's span [first std modification entered, unlock of std completed];
    (4) all of b's errors are unresolved identifiers / errors located in the shared std directory;
    (5) (checked by the caller) b succeeds when run again alone on the completed cache."""
    ea, eb = a.events, b.events
    a_in, a_out, b_in, b_out = a.info["entry"], a.info["times"], b.info["entry"], b.info["times"]
    facts = {}
    tests = [i for i, e in enumerate(eb) if e.startswith("ex:stdDir:0:0:")]
    facts["b_saw_dir_present"] = bool(tests) and eb[tests[0]].endswith(":1")
    facts["b_locked_std"] = "lk:std" in eb
    facts["b_variant"] = ("skipped" if facts["b_saw_dir_present"] and not facts["b_locked_std"] and
                          not any(e.startswith("tr:stdFile") for e in eb)
                          else "both expanded" if facts["b_locked_std"] and "ul:std" in eb else None)
    a_lk = ea.index("lk:std") if "lk:std" in ea else None
    a_ul = ea.index("ul:std", a_lk) if a_lk is not None and "ul:std" in ea[a_lk:] else None
    a_writes = [i for i, e in enumerate(ea) if e.startswith("tr:stdFile") and a_lk is not None and i > a_lk and (a_ul is None or i < a_ul)]
    facts["a_expanded"] = bool(a_writes)
    facts["a_wrote"] = len({ea[i] for i in a_writes})
    facts["b_read"] = len({e for e in eb if e.startswith("rd:stdFile")})
    facts["b_read_fewer_or_missing"] = facts["b_read"] < facts["a_wrote"] or any(e.startswith("ex:stdFile") and e.endswith(":0") for e in eb)
    overlap = False
    if facts["a_expanded"] and facts["b_variant"]:
        start_b = eb.index("ul:std") if facts["b_variant"] == "both expanded" else tests[0]
        acc = [(b_in[i], b_out[i]) for i in range(start_b, len(eb))
               if eb[i].startswith(("rd:stdFile", "ex:stdFile", "ex:stdDir"))]
        muts = [i for i, e in enumerate(ea) if e.startswith(("mk:stdDir", "tr:stdFile"))]
        if facts["b_variant"] == "both expanded":
            muts = a_writes
        span0 = a_in[muts[0]] if muts else None
        span1 = a_out[a_ul] if a_ul is not None else float("inf")
        overlap = span0 is not None and any(t_in <= span1 + 0.5 and t_out + 0.5 >= span0 for t_in, t_out in acc)
    facts["b_std_access_overlaps_a_expansion"] = overlap
    diags = proj.diagnostics(b.out, b.root)
    stdroot = f"{b.xdg}/veryl/std/"
    located = [d for d in diags if d[0] == "Error"]
    facts["b_errors"] = len(located)
    facts["b_errors_all_in_std_or_unresolved"] = bool(located) and all(
        (stdroot in d[3]) or d[1] in ("undefined_identifier", "unknown_member", "unresolvable_generic_argument") for d in located)
    if not located:      # I/O or parse error instead of diagnostics (file vanished / truncated between listing and read)
        facts["b_errors_all_in_std_or_unresolved"] = stdroot in b.out
    ok = (facts["a_expanded"] and facts["b_variant"] is not None and overlap and facts["b_errors_all_in_std_or_unresolved"])
    return ok, facts


def scenario_shared_std(ctx, base, trials):
    """trials: list of (inject spec for process a or None, start delay of b in seconds).  With an
    inject spec, b is started as soon as a's trace shows a holding the std lock."""
    files, opts = proj.base_files(), {"build": {"exclude_std": "false"}}
    lock = threading.Lock()
    all_runs, summary = [], []
    with ThreadPoolExecutor(max_workers=len(trials) + 1) as ex:
        fref = ex.submit(clean_reference, base, "std", files, opts, "pa")
        futs = [ex.submit(std_trial, ctx, base, k, t, files, opts, fref, lock, all_runs, summary) for k, t in enumerate(trials)]
        for f in futs:
            f.result()
    summary.sort(key=lambda r: r["trial"])
    ctx.cov.setdefault("distribution", {})["shared_std_trials"] = summary
    check_inclusion(ctx, all_runs, "shared-std")
    return summary


def std_trial(ctx, base, k, trial, files, opts, fref, lock, all_runs, summary):
    if True:
        inject, delay = trial
        d = f"{base}/std{k}"
        xdg = f"{d}/xdg"
        os.makedirs(xdg, exist_ok=True)
        roots = []
        for nm in ("pa", "pb"):
            r = f"{d}/{nm}"
            os.makedirs(r, exist_ok=True)
            proj.sync_tree(r, files, opts)
            roots.append(r)
        a = Run(f"t{k}a", [VERYL, "build"], roots[0], xdg, d, inject=inject).start()
        frozen = False
        if inject:
            # steer: once a holds the std lock and has written a few library files, stop it (SIGSTOP),
            # let b run to completion, then continue a.  (The injected write delay only gives the
            # check time to see that point in a's trace.)
            wait_trace(a, r"/std/[0-9a-f]+/lock>, LOCK_EX\) = 0")
            wait_trace(a, r"write\(\d+<[^>]*/std/[0-9a-f]+/[^>]*binary_enc_dec[^>]*\.veryl>")
            frozen = freeze(a)
        else:
            time.sleep(delay)
        try:
            b = Run(f"t{k}b", [VERYL, "build"], roots[1], xdg, d).start()
            b.wait()
        finally:
            if frozen:
                thaw(a)
        a.wait()
        rc_ref, ref, _ = fref.result()
        word_of(a)
        word_of(b)
        rec = {"trial": k, "inject_on_a": inject, "a_stopped_mid_expansion_while_b_ran": frozen, "b_start_delay_s": delay, "rc_a": a.rc, "rc_b": b.rc}
        for r, other in ((a, b), (b, a)):
            snap = proj.snapshot(r.root)
            if r.rc == 0 and not proj.panicked(r.out):
                if snap != ref:
                    diff = sorted(set(snap.items()) ^ set(ref.items()))[:10]
                    ctx.violation(f"shared-cache trial {k}: {r.tag} exited 0 but its outputs differ from a clean build: {diff}",
                                  {"kind": "impl!=oracle", "trial": rec, "diff": diff})
                continue
            ok, facts = std_signature(other, r)
            rec[f"signature_{r.tag}"] = facts
            first = proj.diagnostics(r.out, r.root)[:3]
            body = {"kind": "impl!=oracle", "trial": rec, "signature_verified": ok, "facts": facts,
                    "first_diagnostics": first, "output_tail": r.out[-1500:],
                    "replay": ("two copies of the generated project (tools/proj.py base_files, exclude_std=false) in pa/ and pb/, one fresh "
                               f"XDG_CACHE_HOME; start `strace -f -o a.trace -e trace=write,flock -e {inject} veryl build` in pa; when a.trace shows the "
                               "write to <cache>/veryl/std/<hash>/binary_enc_dec/*.veryl: `kill -STOP <pid of that veryl>`, run `veryl build` in pb "
                               "(fails), `kill -CONT <pid>`.  Without signals (quiet machine): `-e inject=write:delay_exit=30000` on pa and "
                               "start pb 0.35 s later."
                               if inject else "two projects with std enabled started simultaneously on a fresh XDG_CACHE_HOME")}
            ctx.violation(f"shared-cache trial {k}: {r.tag} (`veryl build`, std enabled) exited {r.rc} with {facts.get('b_errors')} errors "
                          f"while {other.tag} was still expanding the standard library into the shared cache "
                          f"(read {facts.get('b_read')} of {facts.get('a_wrote')} library files; signature verified: {ok})",
                          body, key=KEY_STD if ok else None)
            # alone, on the now complete cache, it succeeds (the failure is the race, not the project)
            rc2, out2 = proj.run_veryl(r.root, ["build"], xdg)
            rec[f"rerun_{r.tag}"] = rc2
            if rc2 != 0:
                ctx.violation(f"shared-cache trial {k}: {r.tag} still fails (rc={rc2}) when rerun alone on the completed cache",
                              {"kind": "impl!=oracle", "trial": rec, "output_tail": out2[-1500:]})
        with lock:
            summary.append(rec)
            all_runs.extend([a, b])

# ---------------------------------------------------------------------------------------------
# (b') two projects sharing a git dependency (resolve + checkout in the user cache)
# ---------------------------------------------------------------------------------------------

def make_dep_repo(base):
    d = f"{base}/deps/depa"
    os.makedirs(f"{d}/src", exist_ok=True)
    with open(f"{d}/Veryl.toml", "w") as fh:
        fh.write('[project]\nname = "depa"\nversion = "0.1.0"\n\n[build]\nexclude_std = true\nsources = ["src"]\n')
    with open(f"{d}/src/dep_mod.veryl", "w") as fh:
        fh.write("pub module DepMod (\n    i: input  logic<8>,\n    o: output logic<8>,\n) {\n    assign o = i + 1;\n}\n")
    with open(f"{d}/.gitignore", "w") as fh:
        fh.write(".build/\ndependencies/\n*.sv\n*.f\n*.map\n")
    env = proj.veryl_env(f"{base}/deps/xdg0")
    env.update(GIT_ENV)
    os.makedirs(f"{base}/deps/xdg0", exist_ok=True)

    def git(*a):
        return subprocess.run(["git"] + list(a), cwd=d, env=env, stdout=subprocess.PIPE, stderr=subprocess.STDOUT).returncode
    git("init", "-q", ".")
    git("add", "-A")
    git("commit", "-q", "-m", "init")
    proj.run_veryl(d, ["check"], f"{base}/deps/xdg0", extra_env=GIT_ENV)     # creates Veryl.lock
    git("add", "-A")
    git("commit", "-q", "-m", "lock")
    rc, out = proj.run_veryl(d, ["publish"], f"{base}/deps/xdg0", extra_env=GIT_ENV)
    git("add", "-A")
    git("commit", "-q", "-m", "publish")
    return d, rc, out


def dep_project(root, name, dep):
    os.makedirs(f"{root}/src", exist_ok=True)
    with open(f"{root}/Veryl.toml", "w") as fh:
        fh.write(f'[project]\nname = "{name}"\nversion = "0.1.0"\n\n[build]\nexclude_std = true\nsources = ["src"]\n\n'
                 f'[dependencies]\ndepa = {{git = "file://{dep}", version = "0.1.0"}}\n')
    with open(f"{root}/src/top.veryl", "w") as fh:
        fh.write("module Top (\n    i: input  logic<8>,\n    o: output logic<8>,\n) {\n    inst u: depa::DepMod ( i, o );\n}\n")


def resolve_signature(a, b):
    """Is b's failure the recorded read-after-unlock race?  Decided from facts that do not depend
    on the observer winning a race:
    (1) in b's own trace, b reads Veryl.toml / Veryl.pub of the shared resolve checkout AFTER its own
        unlock of resolve/lock (order of events within one trace);
    (2) in a's own trace, a opens one of those same files with O_TRUNC between its lock and its
        unlock of resolve/lock (again order within one trace) — the in-place rewrite by `checkout`;
    (3) b's error is ProjectNotFound / VersionNotFound / an unreadable Veryl.pub;
    (4) the timestamps do not contradict an overlap.  Only sound inequalities are used: a syscall
        takes effect between its entry and its completion as seen by strace, so the read cannot
        have seen the truncated file if it completed before the truncating open was even entered,
        or was entered after the rewrite had completed (0.5 s slack for clock granularity);
    (5) (checked by the caller) b succeeds when run again alone."""
    import re
    ea, eb = a.events, b.events
    la, lb = a.info["lines"], b.info["lines"]
    a_in, a_out, b_in, b_out = a.info["entry"], a.info["times"], b.info["entry"], b.info["times"]
    facts = {"b_reads_after_own_unlock": [], "a_truncated_inside_its_lock": [], "files_in_common": [], "timing_contradicts": None}

    def path_of(line):
        m = re.search(r'"(/[^"]*/resolve/[^"]*)"', line) or re.search(r"<(/[^>]*/resolve/[^>]*)>", line)
        p = m.group(1) if m else None
        return p if p and os.path.basename(p) in ("Veryl.toml", "Veryl.pub") else None
    reads = []         # (path, entry, done)
    if "ul:resolve" in eb:
        i_ul = eb.index("ul:resolve")
        for i in range(i_ul + 1, len(eb)):
            if eb[i].startswith(("rd:resFile", "ex:resFile")) and lb[i].startswith(("openat(", "open(")):
                p = path_of(lb[i])
                if p:
                    reads.append((p, b_in[i], b_out[i]))
    windows = []       # (path, trunc entry, rewrite done or None)
    if "lk:resolve" in ea:
        i_lk = ea.index("lk:resolve")
        i_ul = ea.index("ul:resolve", i_lk) if "ul:resolve" in ea[i_lk:] else len(ea)
        for i in range(i_lk + 1, i_ul):
            if ea[i].startswith("tr:resFile"):
                p = path_of(la[i])
                if p is None:
                    continue
                if la[i].startswith(("openat(", "open(", "creat(")) and "O_TRUNC" in la[i]:
                    windows.append([p, a_in[i], None])
                elif la[i].startswith(("write(", "pwrite64(", "writev(")):
                    for w in reversed(windows):
                        if w[0] == p and w[2] is None:
                            w[2] = a_out[i]
                            break
    facts["b_reads_after_own_unlock"] = sorted({os.path.basename(p) for p, _, _ in reads})
    facts["a_truncated_inside_its_lock"] = sorted({os.path.basename(w[0]) for w in windows})
    common = sorted({p for p, _, _ in reads} & {w[0] for w in windows})
    facts["files_in_common"] = [os.path.basename(p) for p in common]
    possible = False
    for p, r_in, r_out in reads:
        for q, t_in, w_out in windows:
            if p == q and t_in <= r_out + 0.5 and (w_out is None or r_in <= w_out + 0.5):
                possible = True
    facts["timing_contradicts"] = bool(common) and not possible
    low = b.out.lower()
    facts["b_error"] = next((w for w in ("ProjectNotFound", "VersionNotFound", "UnpublishedDependency", "TomlDe", "Toml") if w in b.out), None)
    if facts["b_error"] is None and "is not found" in low:
        facts["b_error"] = "is not found"
    ok = bool(common) and possible and facts["b_error"] is not None
    return ok, facts


def scenario_shared_deps(ctx, base, trials):
    """trials: (inject for a, inject for b, start delay of b).  With injections b's strace is
    restricted (-P) to the resolve checkout's Veryl.toml / Veryl.pub and the resolve lock, and b is
    started as soon as a holds the resolve lock and the checkout's name is known."""
    dep, rc, out = make_dep_repo(base)
    if rc != 0:
        ctx.notes.append(f"dependency scenario skipped: `veryl publish` of the local dependency failed: {out[-300:]}")
        return
    lock = threading.Lock()
    all_runs, summary = [], []

    def reference():
        ref_root = f"{base}/deps/ref/a/m"          # same depth as the trial projects (paths inside .sv.map are relative)
        dep_project(ref_root, "m", dep)
        rc_ref, _ = proj.run_veryl(ref_root, ["build"], f"{base}/deps/ref/xdg", extra_env=GIT_ENV)
        return rc_ref, proj.snapshot(ref_root)

    def trial(k, t, fref, attempt=0):
        inj_a, inj_b, delay = t
        d = f"{base}/deps/t{k}_{attempt}"
        xdg = f"{d}/xdg"
        os.makedirs(xdg, exist_ok=True)
        ra, rb = f"{d}/a/m", f"{d}/b/m"
        dep_project(ra, "m", dep)
        dep_project(rb, "m", dep)
        extra = []
        a = Run(f"d{k}a", [VERYL, "build"], ra, xdg, d, inject=inj_a).start()
        if inj_b:
            rd = f"{xdg}/veryl/resolve"
            wait_trace(a, r"/resolve/lock>, LOCK_EX\) = 0")
            m = wait_trace(a, r"/veryl/resolve/([0-9a-f]{16,})/")
            if m:
                h = m.group(1)
                extra = ["-P", f"{rd}/{h}/Veryl.toml", "-P", f"{rd}/{h}/Veryl.pub", "-P", f"{rd}/lock"]
        else:
            time.sleep(delay)
        b = Run(f"d{k}b", [VERYL, "build"], rb, xdg, d, inject=inj_b if extra else None, extra=extra).start()
        steered = False
        if extra:
            # a stops itself right after unlocking `resolve` (injected SIGSTOP at its 3rd flock call); b then gets
            # the lock, and as soon as its checkout has truncated Veryl.toml or Veryl.pub (its write is delayed to
            # give the check time to see that) b is stopped, a continued: a now reads the truncated file.
            try:
                m = wait_trace(b, r'/Veryl\.(toml|pub)", O_WRONLY\|O_CREAT\|O_TRUNC', timeout=120)
                if m:
                    steered = freeze(b)
            finally:
                thaw(a)
            try:
                a.wait()
            finally:
                thaw(b)
        if a.p.returncode is None:
            a.wait()
        b.wait()
        word_of(a)
        word_of(b)
        rc_ref, ref = fref.result()
        rec = {"trial": k, "attempt": attempt, "b_stopped_after_truncating": steered, "inject_a": inj_a, "inject_b": inj_b if extra else None, "delay": delay, "rc_a": a.rc, "rc_b": b.rc}
        for r, other in ((a, b), (b, a)):
            if r.rc == rc_ref and not proj.panicked(r.out):
                snap = proj.snapshot(r.root)
                if snap != ref:
                    diff = sorted(set(snap.items()) ^ set(ref.items()))[:10]
                    ctx.violation(f"shared-dependency trial {k}: {r.tag} exited {r.rc} but outputs differ from a build alone: {diff}",
                                  {"kind": "impl!=oracle", "trial": rec, "diff": diff})
                continue
            ok, facts = resolve_signature(other, r)
            # alone, on the same (now quiescent) cache, the same command succeeds
            rc2, out2 = proj.run_veryl(r.root, ["build"], xdg, extra_env=GIT_ENV)
            facts["rerun_alone_rc"] = rc2
            ok = ok and rc2 == rc_ref
            rec[f"signature_{r.tag}"] = facts
            ctx.violation(f"shared-dependency trial {k}: {r.tag} exited {r.rc} (alone: {rc_ref}) while {other.tag} resolved the same "
                          f"dependency in the shared cache (signature verified: {ok}): {facts.get('b_error')}",
                          {"kind": "impl!=oracle", "trial": rec, "facts": facts, "output_tail": r.out[-1500:],
                           "replay": "two fresh projects (no Veryl.lock) depending on the same published git dependency (file:// URL), one fresh "
                                     f"XDG_CACHE_HOME; `strace -f -e trace=flock -e {inj_a} veryl build` in a; as soon as a holds <cache>/resolve/lock "
                                     f"`strace -f -e trace=write {' '.join(extra)} -e {inj_b} veryl build` in b "
                                     "(a's return from unlocking `resolve` is delayed; b's rewrite of the checkout's Veryl.toml/Veryl.pub is stretched)"},
                          key=KEY_RESOLVE if ok else None)
        with lock:
            summary.append(rec)
            all_runs.extend([a] + ([b] if not extra else []))      # a path-filtered trace is not a whole word
        if inj_b and attempt == 0 and a.rc == rc_ref and b.rc == rc_ref:
            trial(k, t, fref, 1)                                   # steer once more (timing dependent)

    with ThreadPoolExecutor(max_workers=len(trials) + 1) as ex:
        fref = ex.submit(reference)
        futs = [ex.submit(trial, k, t, fref) for k, t in enumerate(trials)]
        for f in futs:
            f.result()
    summary.sort(key=lambda r: (r["trial"], r["attempt"]))
    ctx.cov.setdefault("distribution", {})["shared_dependency_trials"] = summary
    check_inclusion(ctx, all_runs, "shared-deps")


# ---------------------------------------------------------------------------------------------
# (c) build || language server
# ---------------------------------------------------------------------------------------------

class Lsp:
    """Minimal LSP client over a Popen's stdio (Content-Length framing)."""

    def __init__(self, popen):
        self.p, self.buf, self.msgs = popen, b"", []

    def send(self, obj):
        b = json.dumps(obj).encode()
        self.p.stdin.write(b"Content-Length: %d\r\n\r\n" % len(b) + b)
        self.p.stdin.flush()

    def recv(self, timeout):
        end = time.time() + timeout
        fd = self.p.stdout.fileno()
        while True:
            i = self.buf.find(b"\r\n\r\n")
            if i >= 0:
                n = 0
                for h in self.buf[:i].decode().split("\r\n"):
                    if h.lower().startswith("content-length"):
                        n = int(h.split(":")[1])
                if len(self.buf) >= i + 4 + n:
                    body = self.buf[i + 4:i + 4 + n]
                    self.buf = self.buf[i + 4 + n:]
                    return json.loads(body)
            left = end - time.time()
            if left <= 0:
                return None
            r, _, _ = select.select([fd], [], [], left)
            if not r:
                return None
            d = os.read(fd, 65536)
            if not d:
                return None
            self.buf += d

    def wait_for(self, pred, timeout):
        end = time.time() + timeout
        while time.time() < end:
            m = self.recv(end - time.time())
            if m is None:
                return None
            self.msgs.append(m)
            if "id" in m and "method" in m:
                self.send({"jsonrpc": "2.0", "id": m["id"], "result": None})
            if pred(m):
                return m
        return None


def ls_session(ctx, tag, root, xdg, base, doc, limit):
    """start veryl-ls (traced), initialize, open `doc`, wait for its diagnostics, shut down.
    Returns (run, timings)"""
    r = Run(tag, [VERYL_LS], root, xdg, base, role="ls", stdin=subprocess.PIPE)
    env = proj.veryl_env(xdg)
    r.t0 = time.time()
    r.p = strace_fs.popen_traced(r.cmd, root, env, r.trace, stdin=subprocess.PIPE, stdout=subprocess.PIPE, stderr=subprocess.DEVNULL)
    c = Lsp(r.p)
    tm = {}
    c.send({"jsonrpc": "2.0", "id": 1, "method": "initialize",
            "params": {"processId": None, "rootUri": "file://" + root, "capabilities": {"window": {"workDoneProgress": True}}}})
    m = c.wait_for(lambda m: m.get("id") == 1 and "result" in m, limit)
    tm["initialize_s"] = round(time.time() - r.t0, 2) if m else None
    c.send({"jsonrpc": "2.0", "method": "initialized", "params": {}})
    with open(doc) as fh:
        text = fh.read()
    t1 = time.time()
    c.send({"jsonrpc": "2.0", "method": "textDocument/didOpen",
            "params": {"textDocument": {"uri": "file://" + doc, "languageId": "veryl", "version": 1, "text": text}}})
    m = c.wait_for(lambda m: m.get("method") == "textDocument/publishDiagnostics", limit)
    tm["first_diagnostics_s"] = round(time.time() - t1, 2) if m else None
    m = c.wait_for(lambda m: m.get("method") == "$/progress" and m["params"].get("value", {}).get("kind") == "end", min(limit, 25))
    tm["background_done_s"] = round(time.time() - t1, 2) if m else None
    c.send({"jsonrpc": "2.0", "id": 2, "method": "shutdown", "params": None})
    m = c.wait_for(lambda m: m.get("id") == 2, limit)
    tm["shutdown_s"] = round(time.time() - t1, 2) if m else None
    try:
        c.send({"jsonrpc": "2.0", "method": "exit", "params": None})
        r.p.stdin.close()
    except Exception:
        pass
    try:
        r.p.wait(10)
    except Exception:
        r.p.kill()
        r.p.wait()
    r.rc, r.out, r.t1 = r.p.returncode, "", time.time()
    return r, tm


def scenario_ls(ctx, base, limit):
    d = f"{base}/ls"
    root, xdg = f"{d}/prj", f"{d}/xdg"
    os.makedirs(root, exist_ok=True)
    os.makedirs(xdg, exist_ok=True)
    files, opts = proj.base_files(), {}
    proj.sync_tree(root, files, opts)
    rc0, out0 = proj.run_veryl(root, ["build"], xdg)          # creates .build, locks exist
    doc = f"{root}/src/top.veryl"
    runs, rec = [], {}
    # 1. this check holds .build/lock, .build/cache/lock (a build that never ends) — and in a second
    #    session also .build/cache-ls/lock (another server): the server must do all its work meanwhile
    for name, locks in (("held-build-locks", [".build/lock", ".build/cache/lock"]),
                        ("held-all-locks", [".build/lock", ".build/cache/lock", ".build/cache-ls/lock"])):
        fds = []
        for l in locks:
            os.makedirs(os.path.dirname(f"{root}/{l}"), exist_ok=True)
            fd = os.open(f"{root}/{l}", os.O_WRONLY | os.O_CREAT, 0o644)
            fcntl.flock(fd, fcntl.LOCK_EX)
            fds.append(fd)
        try:
            r, tm = ls_session(ctx, f"ls-{name}", root, xdg, d, doc, limit)
        finally:
            for fd in fds:
                fcntl.flock(fd, fcntl.LOCK_UN)
                os.close(fd)
        rec[name] = tm
        runs.append(r)
        for k in ("initialize_s", "first_diagnostics_s", "shutdown_s"):
            if tm[k] is None:
                ctx.violation(f"language server did not complete `{k[:-2]}` within {limit}s while another process held {locks}",
                              {"kind": "impl!=oracle", "locks_held_by_other_process": locks, "timings": tm,
                               "replay": f"flock {locks} of a built project from another process, start veryl-ls, initialize, didOpen src/top.veryl"})
    # 2. a real build (slowed down: every write delayed) next to the server
    proj.sync_tree(root, {**files, "src/top.veryl": files["src/top.veryl"] + "\n// edited\n"}, opts)
    b = Run("build-beside-ls", [VERYL, "build"], root, xdg, d, inject="inject=write:delay_exit=50000").start()
    time.sleep(0.4)
    r, tm = ls_session(ctx, "ls-beside-build", root, xdg, d, doc, limit)
    build_running_at_ls_end = b.p.poll() is None
    b.wait()
    rec["beside-build"] = dict(tm, build_still_running_when_ls_finished=build_running_at_ls_end, build_rc=b.rc)
    runs += [r, b]
    for k in ("initialize_s", "first_diagnostics_s", "shutdown_s"):
        if tm[k] is None:
            ctx.violation(f"language server did not complete `{k[:-2]}` within {limit}s next to a running build",
                          {"kind": "impl!=oracle", "timings": tm})
    rc_ref, ref, _ = clean_reference(base, "ls", {**files, "src/top.veryl": files["src/top.veryl"] + "\n// edited\n"}, opts)
    snap = proj.snapshot(root)
    if b.rc != rc_ref or snap != ref:
        ctx.violation(f"build next to the language server: rc={b.rc} (clean {rc_ref}), outputs equal clean build: {snap == ref}",
                      {"kind": "impl!=oracle", "output_tail": b.out[-1500:]})
    for r in runs:
        word_of(r)
    # the server's word must not contain a blocking lock on a project lock — the acceptor checks it;
    # additionally: did it see cache-ls busy in the held-all-locks session?
    rec["ls_trylock_results"] = {r.tag: [e for e in r.events if e.startswith("tl:")] for r in runs if r.role == "ls"}
    ctx.cov.setdefault("distribution", {})["language_server"] = rec
    check_inclusion(ctx, runs, "build||ls")


# ---------------------------------------------------------------------------------------------
# negative controls: the acceptor must reject words that break the protocol
# ---------------------------------------------------------------------------------------------

def negative_controls(ctx, run_cli, run_ls, run_std):
    ev = run_cli.events
    muts = []

    def without(pred, name):
        i = next((k for k, e in enumerate(ev) if pred(e)), None)
        if i is not None:
            muts.append((name, "cli", ev[:i] + ev[i + 1:]))
    without(lambda e: e == "lk:build.1", "build lock never taken")
    without(lambda e: e == "lk:cache.1", "cache lock never taken")
    i = next((k for k, e in enumerate(ev) if e.startswith("rn:") and ":manifest:" in e), None)
    if i is not None:
        muts.append(("manifest written in place instead of temp+rename", "cli",
                     ev[:i] + ["tr:manifest:1:0", "wr:manifest:1:0"] + ev[i + 1:]))
    i = next((k for k, e in enumerate(ev) if e == "ul:build.1"), None)
    if i is not None:
        muts.append(("output written after unlock", "cli", ev[:i + 1] + ["tr:out:1:1", "wr:out:1:1"] + ev[i + 1:]))
        muts.append(("info.toml written before the build lock", "cli", ["tr:info:1:0", "wr:info:1:0"] + ev))
    i = next((k for k, e in enumerate(ev) if e.startswith("tc:")), None)
    if i is not None:
        muts.append(("temp file renamed before anything was written to it", "cli", [e for k, e in enumerate(ev) if k != i + 1 or not e.startswith("tw:")]))
    if run_std is not None:
        es = run_std.events
        if "ex:stdDir:0:0:0" in es and "lk:std" in es:
            a, b = es.index("ex:stdDir:0:0:0"), es.index("lk:std")
            fixed = es[:a] + [x for x in es[a + 1:b] if x.startswith("mk:")] + ["lk:std", "ex:stdDir:0:0:0"] + es[b + 1:]
            muts.append(("std: lock taken before the existence test (i.e. a repaired expand)", "cli", fixed))
            k = next((n for n, e in enumerate(es) if e.startswith("tr:stdFile")), None)
            muts.append(("std: file written without the std lock", "cli", es[:b] + es[b + 1:]))
    if run_ls is not None:
        el = run_ls.events
        k = next((n for n, e in enumerate(el) if e.startswith("tl:cacheLs")), None)
        if k is not None:
            muts.append(("server blocks on .build/lock", "ls", el[:k] + ["lk:build.1"] + el[k:]))
            muts.append(("server takes cache-ls with a blocking lock", "ls", el[:k] + ["lk:cacheLs.1"] + el[k + 1:]))
    res = strace_fs.check_words(VMODEL, [(role, 1, w) for _, role, w in muts])
    rec = []
    for (name, role, w), x in zip(muts, res):
        rec.append({"mutation": name, "rejected_at": x["index"], "event": x["event"]})
        if x["ok"]:
            ctx.violation(f"acceptor sanity: a trace mutated to `{name}` is still accepted — the trace-inclusion check has no teeth",
                          {"kind": "model!=impl", "mutation": name}, no_input=True, kind="model!=impl")
    ctx.cov.setdefault("distribution", {})["acceptor_negative_controls"] = rec
    return rec


# ---------------------------------------------------------------------------------------------

def run(ctx):
    vlock, vraw = threading.Lock(), ctx.violation

    def violation(*a, **kw):          # scenarios run in threads
        with vlock:
            return vraw(*a, **kw)
    ctx.violation = violation
    ok = lean_check(ctx, "VerylModel.Props.C30", THEOREMS)
    ctx.cov["trusted_base"] = [
        "Lean 4.33 kernel; axioms ⊆ {propext, Classical.choice, Quot.sound}",
        "M-FS abstraction (Core/FS.lean): atomic read of a whole file, flock = advisory exclusive lock table, "
        "rename = atomic replacement, temp names private; programs are not data dependent except on existence tests",
        "strace (-f -y) and tools/strace_fs.py (path classification, syscall → event abstraction)",
        "tools/proj.py (generated projects, clean-build reference), this check's LSP client"]
    ctx.cov["rule"] = ("every veryl / veryl-ls process started by the scenarios (N concurrent commands on one project over an edit history; "
                       "two projects on a fresh shared user cache with std, natural and with injected write delays; two projects sharing a git "
                       "dependency; server beside held locks and beside a slowed build) is traced; its event word must be accepted by "
                       "`vmodel fs`; distinct = distinct event-kind sequences (existence tests dropped)")
    if not cli_build(ctx, ls=True):
        return
    # the acceptor contains the model programs (also proved: model_*_words_accepted)
    p = subprocess.run([VMODEL, "fs"], input="model cli\nmodel ls\nmodel dep\n", stdout=subprocess.PIPE, text=True)
    ctx.cov["model_words_accepted"] = p.stdout.strip().split("\n")
    if not all(x.startswith("ok") for x in p.stdout.strip().split("\n")) or len(p.stdout.strip().split("\n")) != 3:
        ctx.violation(f"vmodel fs: words of the model programs are not accepted by the acceptor: {p.stdout!r}",
                      {"kind": "model!=impl", "reply": p.stdout}, no_input=True, kind="model!=impl")
    base = f"{proj.SCRATCH}/c30-{os.getpid()}"
    shutil.rmtree(base, ignore_errors=True)
    os.makedirs(base, exist_ok=True)
    thorough = ctx.tier == "thorough"
    inj = "inject=write:delay_exit=50000:when=1..40"       # a's first 40 writes (library files) take 50 ms each: time to see them
    std_trials = [(None, 0.0), (inj, 0.35)] + ([(inj, 0.25), (inj, 0.5), (None, 0.05), (None, 0.0)] if thorough else [])
    # a's return from unlocking `resolve` (its 3rd flock call) is delayed by 4 s; b (started when a holds the lock)
    # has its rewrite of the checkout's Veryl.toml / Veryl.pub (truncate … write) stretched to 5 s
    steer = ("inject=flock:signal=SIGSTOP:when=3", "inject=write:delay_enter=3000000", 0.0)
    dep_trials = [(None, None, 0.0), steer] + ([(None, None, 0.02), steer, (None, None, 0.0)] if thorough else [])
    results = {}
    try:
        with ThreadPoolExecutor(max_workers=4) as ex:
            fa = ex.submit(scenario_same_project, ctx, base, 4, tier_n(ctx, 2, 5))
            fb = ex.submit(scenario_shared_std, ctx, base, std_trials)
            fc = ex.submit(scenario_ls, ctx, base, tier_n(ctx, 150, 240))
            fd = ex.submit(scenario_shared_deps, ctx, base, dep_trials)
            same_runs = fa.result()
            std_summary = fb.result()
            fc.result()
            fd.result()
        # negative controls on real words
        cli_word = next((r for r in same_runs if r.cmd[-1] == "build" and any(e.startswith("rn:") and ":manifest:" in e for e in r.events)), None)
        std_run = ls_run = None
        import glob

        class _R:  # re-abstract two stored traces for the controls
            pass
        cand = sorted(glob.glob(f"{base}/std*/t*a.strace"))
        for c in cand:
            r = _R()
            r.trace, r.root, r.xdg = c, os.path.dirname(c) + "/pa", os.path.dirname(c) + "/xdg"
            word_of(r)
            if "lk:std" in r.events:
                std_run = r
                break
        c = f"{base}/ls/ls-held-build-locks.strace"
        if os.path.exists(c):
            ls_run = _R()
            ls_run.trace, ls_run.root, ls_run.xdg = c, f"{base}/ls/prj", f"{base}/ls/xdg"
            word_of(ls_run)
        if cli_word is not None:
            negative_controls(ctx, cli_word, ls_run, std_run)
        else:
            ctx.notes.append("negative controls skipped: no build word with a manifest rename")
        repro = [t for t in std_summary if t["inject_on_a"] and (t["rc_a"] != 0 or t["rc_b"] != 0)]
        ctx.cov["std_race_reproduced"] = f"{len(repro)} of {len([t for t in std_summary if t['inject_on_a']])} injected trials"
        dt = ctx.cov.get("distribution", {}).get("shared_dependency_trials", [])
        steered = [t for t in dt if t.get("inject_a") and t.get("inject_b")]
        hit = [t for t in steered if t["rc_a"] != 0 or t["rc_b"] != 0]
        ctx.cov["resolve_race_reproduced"] = f"{len(hit)} of {len(steered)} steered trials"
        if steered and not hit:
            ctx.notes.append("the resolve read-after-unlock witness did not reproduce in this run: a known_findings entry for "
                             + KEY_RESOLVE + " would currently suppress nothing")
        if not repro:
            ctx.notes.append("the std::expand race witness (strace write-delay recipe) did not reproduce in this run: "
                             "a known_findings entry for " + KEY_STD + " would currently suppress nothing")
    finally:
        shutil.rmtree(base, ignore_errors=True)
    ctx.assumptions += [
        "T1 (build_lock_serialises) covers everything a command does after Metadata::load; Veryl.toml and .build/info.toml are read "
        "before lock_dir(.build) (cli_prelude_reads_partial_info) — benign: a missing/partial info.toml only makes outputs look stale",
        "readers of outputs that are covered: veryl commands on the same project (all take .build/lock); not covered: any reader that does "
        "not take the lock (editor, simulator, veryl-ls does not read outputs) — outputs are rewritten in place "
        "(output_unlocked_reader_sees_truncated)",
        "the language server never takes .build/lock or .build/cache/lock and only try-locks .build/cache-ls/lock (T3); inside "
        "Metadata::paths it can wait on the user-level std / dependencies / resolve locks like any other process (ls_can_wait_on_std_lock)"]
    if not ok and not any(not ni for _, _, ni in ctx.violations):
        proof_broken(ctx, "VerylModel.Props.C30 no longer checks")
