"""C15 — driver, latch and read-before-assign checks are exact."""
from vlib import *
from checks.c15c16_shrink import shrink as structural_shrink

LEVEL = "proof"
THEOREMS = ["multi_eq_reference", "multi_assign_exact", "uncovered_local_exact", "uncovered_local_exact_case",
            "uncovered_complete", "uncovered_exact_partial", "C15_later_write_false_positive",
            "C15_exhaustive_case_false_positive", "unassigned_exact", "unassigned_reported_has_unassigned_bit",
            "unassigned_read_bit_reported", "C15_unread_unassigned_reported", "C15_condition_read_not_counted",
            "C15_instance_input_read_not_counted", "read_before_assign_sound",
            "C15_read_before_assign_false_negative"]

# class (as verified by hx assign, see `classify_*` in harness/src/dom_assign.rs) -> known-finding key
CLASS_KEY = {
    "later-unconditional-write": "uncovered_branch:later-unconditional-write",
    "later-write": "uncovered_branch:later-write",
    "exhaustive-case": "uncovered_branch:exhaustive-case-without-default",
    "exhaustive-case-without-default": "uncovered_branch:exhaustive-case-without-default",
    "hidden-read-not-counted": "unassigned:hidden-read-not-counted",
    "unread-never-assigned": "unassigned:unread-never-assigned",
    "partially-assigned-mask": "read_before_assign:partially-assigned-mask",
}

WHAT = {
    "uncovered_branch:later-unconditional-write":
        "`always_comb { if c { a = 1; } a = 0; }`: uncovered_branch although every path assigns `a` (an `if` is compared "
        "with what was written *before* it only); DESIGN §5 #9; theorem C15_later_write_false_positive",
    "uncovered_branch:later-write":
        "same mechanism with a later *conditional* but complete write: `if c { a = 1; } if d { a = 0; } else { a = 2; }`",
    "uncovered_branch:exhaustive-case-without-default":
        "`case s { 1'b0: a = 0; 1'b1: a = 1; }`: a case whose arms are exhaustive is still compared with an empty default "
        "branch; theorem C15_exhaustive_case_false_positive",
    "unassigned:hidden-read-not-counted":
        "reads in if conditions / case targets / instance inputs are not recorded, so a partially driven variable whose "
        "undriven bits are read only there is not reported; theorems C15_condition_read_not_counted, "
        "C15_instance_input_read_not_counted",
    "unassigned:unread-never-assigned":
        "a variable that nothing reads and nothing assigns is reported unassigned (the property's wording asks for a read); "
        "theorem C15_unread_unassigned_reported",
    "read_before_assign:partially-assigned-mask":
        "`a[0] = 0; b = a; a[1:0] = 3;`: check_refered tests `ref & mask & assign == 0`, so one already assigned bit under "
        "the mask hides the others; theorem C15_read_before_assign_false_negative",
}

# (expected class, request line): witnesses of the negated theorems, replayed on every run
WITNESSES = [
    ("later-unconditional-write", "U [i:8:0,v:1:0] k{I(){A(;1,1,0)}{}A(;1,1,0)}"),
    ("later-write", "U [i:8:0,v:1:0] k{I(){A(;1,1,0)}{}I(){A(;1,1,0)}{A(;1,1,0)}}"),
    ("exhaustive-case-without-default", "U [i:8:0,v:1:0] k{C(;1)[{A(;1,1,0)}{A(;1,1,0)}]{}}"),
    ("unread-never-assigned", "X [i:8:0,v:8:0] -"),
    ("hidden-read-not-counted", "X [i:8:0,v:8:0,o:1:0] k{A(;1,f,0)};k{I(1:80){A(;2,1,0)}{A(;2,1,0)}}"),
    ("hidden-read-not-counted", "X [i:8:0,v:8:0] k{A(;1,f,0)};i(|1:ff)"),
    ("partially-assigned-mask", "R [i:8:0,v:2:0,o:2:0] k{A(;1,1,0)A(1:3;2,3,0)A(;1,3,0)}"),
]


def run_model_retry(domain, out_dir, dst="model.txt", tries=3):
    for _ in range(tries):
        rc, err = run_model(domain, out_dir, dst=dst)
        if rc >= 0:
            break
    return rc, err


def run_hx_retry(ctx, domain, args, out_dir=None, timeout=3600, tries=3):
    """`run_hx`, repeated if the process was killed by a signal (the machine is shared: other jobs
    occasionally `pkill hx`); a deterministic failure fails every time."""
    for k in range(tries):
        rc, out, d = run_hx(ctx, domain, args, out_dir=out_dir, timeout=timeout)
        if rc >= 0 and rc != 143 and rc != 137:
            return rc, out, d
        ctx.log(f"hx {domain} was killed by a signal (rc={rc}); retry {k + 1}")
    return rc, out, d

# Fixed designs replayed on every run: implementation = model = oracle is demanded (they pin down the
# individual terms of the mask tests, whatever the seed generates).
SENTINELS = [
    # check_refered: partial write, read of another (unassigned) bit, wider write covering both -> reported
    "R [i:8:0,v:2:0,o:1:0] k{A(;1,1,0)A(1:2;2,1,0)A(;1,3,0)}",
    # … the same inside a branch
    "R [i:8:0,v:2:0,o:1:0] k{A(;1,1,0)I(){A(1:2;2,1,0)A(;1,3,0)}{A(;2,1,0)}}",
    # read of an already assigned bit, then a covering write -> not reported
    "R [i:8:0,v:2:0,o:1:0] k{A(;1,1,0)A(1:1;2,1,0)A(;1,3,0)}",
    # plain read-before-assign / self read
    "R [i:8:0,v:2:0,o:2:0] k{A(1:3;2,3,0)A(;1,3,0)}",
    "R [i:8:0,v:2:0] k{A(1:3;1,3,0)}",
    # read and write of disjoint bits -> not reported
    "R [i:8:0,v:2:0,o:1:0] k{A(1:2;2,1,0)A(;1,1,0)}",
    # uncovered: base from an enclosing block, n-way
    "U [i:8:0,v:2:0] k{A(;1,1,0)I(){C(;0)[{A(;1,3,0)}]{A(;1,2,0)}}{A(;1,2,0)}}",
    "U [i:8:0,v:2:0] k{A(;1,2,0)I(){C(;0)[{A(;1,1,0)}]{}}{}}",
    # multiple assignment: disjoint part-selects from two processes are fine, overlapping are not
    "M [i:8:0,v:8:0] k{A(;1,f,0)};k{A(;1,f0,0)}",
    "M [i:8:0,v:8:0] k{A(;1,1f,0)};k{A(;1,f0,0)}",
]


def parse_set(s):
    s = s.strip()
    if not (s.startswith("[") and s.endswith("]")):
        return None
    inner = s[1:-1]
    return set(x for x in inner.split(",") if x)


def load_notes(d):
    """(vars, procs) -> {"U3": "fp:later-write", …}"""
    notes = {}
    for line in read_lines(f"{d}/notes.txt") or []:
        t = line.split(" ")
        if len(t) != 3:
            continue
        m = {}
        for item in t[2].split(","):
            k, _, c = item.partition("=")
            m[k] = c
        notes[(t[0], t[1])] = m
    return notes


def run_lines(ctx, lines, tag):
    d = f"{ctx.run_dir}/{tag}"
    os.makedirs(d, exist_ok=True)
    with open(f"{d}/replay.txt", "w") as fh:
        fh.write("\n".join(lines) + "\n")
    rc, out, _ = run_hx_retry(ctx, "assign", ["--replay", f"{d}/replay.txt"], out_dir=d, timeout=600)
    if rc != 0:
        return None
    run_model_retry("assign", d)
    run_model_retry("assignref", d, dst="ref.txt")
    return d


def classes_of(notes, op):
    """Deviation classes recorded by the harness for the diagnostic kind of this op line."""
    kind, vars_, procs = op.split(" ")
    m = notes.get((vars_, procs), {})
    return {k: c for k, c in m.items() if k.startswith(kind)}


def keys_of_class(c):
    """`fp:later-write+exhaustive-case` -> keys, or None if some part is not a recorded class."""
    _, _, names = c.partition(":")
    keys = []
    for n in names.split("+"):
        if n not in CLASS_KEY:
            return None
        keys.append(CLASS_KEY[n])
    return keys


def shrink_procs(ctx, line, fails):
    """Structural shrinking (processes, statements, branches, reads) while the failure persists."""
    return structural_shrink(line, fails, "assign")


def line_state(ctx, line):
    """(impl, model, oracle, ref, classes) of one request line."""
    d = run_lines(ctx, [line], "one")
    if d is None:
        return None
    g = lambda f: (read_lines(f"{d}/{f}") or ["(missing)"])[0]
    return g("impl.txt"), g("model.txt"), g("oracle.txt"), g("ref.txt"), classes_of(load_notes(d), line)


def run(ctx):
    ok = lean_check(ctx, "VerylModel.Props.C15", THEOREMS)
    ctx.cov["trusted_base"] = [
        "Lean 4.33 kernel; axioms ⊆ {propext, Classical.choice, Quot.sound}",
        "modelled, not verified: the converter's lowering (constant `for` loops unrolled, `switch`/`else if` as if-chains, "
        "constant conditions folded), `VarSelect::eval_value` (part-select -> mask), which factors reach "
        "`insert_reference`; arrays (one element per variable), functions, if_reset, SystemVerilog instances are outside the model",
        "harness/src/dom_assign.rs (rendering of the model language to Veryl, attribution of diagnostics to variables, the "
        "independent oracle: per-bit driver sets, path enumeration, read/assign sets; structural classification of the "
        "known deviation classes) + tools/vlib.py"]
    ctx.cov["rule"] = ("random modules (logic<1..65> ports/variables incl. block-local ones; assign / always_comb / always_ff / "
                       "instance outputs; part-select and single-bit writes, dynamic-index writes, if / else-if / switch / "
                       "case with and without default and exhaustive, constant `for` loops, shared and disjoint drivers) "
                       "analysed by the real analyzer; per variable the four diagnostics (multiple_assignment, "
                       "uncovered_branch, unassign_variable at the declaration / at an assignment) compared with the Lean "
                       "detector (correspondence), with the harness' independent oracle (property) and the oracle with the "
                       "Lean reference semantics; distinct = distinct (design, diagnostics)")
    if not harness_build(ctx):
        return
    # 1. witnesses of the negated theorems --------------------------------------------------------
    d = run_lines(ctx, [w[1] for w in WITNESSES], "witness")
    if d is None:
        ctx.violation("hx assign crashed on the witness designs", {"kind": "harness-crash"}, no_input=True, kind="model!=impl")
    else:
        imp = read_lines(f"{d}/impl.txt") or []
        mod = read_lines(f"{d}/model.txt") or []
        ora = read_lines(f"{d}/oracle.txt") or []
        notes = load_notes(d)
        for i, (cls, line) in enumerate(WITNESSES):
            got, m, o = (x[i] if i < len(x) else "(missing)" for x in (imp, mod, ora))
            ctx.cov["evaluations"] += 1
            key = CLASS_KEY[cls]
            if got != m:
                ctx.violation(f"assign witness {key}: model says {m}, implementation {got}",
                              {"kind": "model!=impl", "op": line, "impl": got, "model": m,
                               "replay": f"{HX} assign --replay <file with the line>"}, no_input=(got == o), kind="model!=impl")
            if got == o:
                ctx.notes.append(f"witness {key} no longer fails on the implementation")
                continue
            found = set()
            for c in classes_of(notes, line).values():
                found |= set(keys_of_class(c) or ["?"])
            if found != {key}:
                ctx.violation(f"assign witness for {key} fails with signature {sorted(found)}",
                              {"kind": "impl!=oracle", "op": line, "impl": got, "oracle": o}, kind="impl!=oracle")
            else:
                ctx.violation(f"assign: {WHAT[key]}: reported {got}, demanded {o}",
                              {"kind": "impl!=oracle", "op": line, "impl": got, "oracle": o, "what": WHAT[key],
                               "replay": f"{HX} assign --replay <file with the line>"}, key=key, kind="impl!=oracle")
    # 1b. sentinels: no deviation allowed -----------------------------------------------------------
    d = run_lines(ctx, SENTINELS, "sentinel")
    if d is None:
        ctx.violation("hx assign crashed on the sentinel designs", {"kind": "harness-crash"}, no_input=True, kind="model!=impl")
    else:
        imp = read_lines(f"{d}/impl.txt") or []
        mod = read_lines(f"{d}/model.txt") or []
        ora = read_lines(f"{d}/oracle.txt") or []
        for i, line in enumerate(SENTINELS):
            got, m, o = (x[i] if i < len(x) else "(missing)" for x in (imp, mod, ora))
            ctx.cov["evaluations"] += 1
            if got != m:
                ctx.violation(f"assign sentinel `{line}`: implementation {got}, model {m}",
                              {"kind": "model!=impl", "op": line, "impl": got, "model": m, "oracle": o,
                               "replay": f"{HX} assign --replay <file with the line>"},
                              no_input=(o == "?" or got == o), kind="model!=impl")
            if o != "?" and got != o:
                ctx.violation(f"assign sentinel `{line}`: implementation {got}, reference semantics {o}",
                              {"kind": "impl!=oracle", "op": line, "impl": got, "oracle": o,
                               "replay": f"{HX} assign --replay <file with the line>"}, kind="impl!=oracle")
    # 2. generated designs ------------------------------------------------------------------------
    n = tier_n(ctx, 2500, 60000)
    rc, out, d = run_hx_retry(ctx, "assign", ["--seed", ctx.seed, "--n", n], timeout=7200)
    if rc != 0:
        ctx.violation(f"harness domain assign crashed (rc={rc})", {"kind": "harness-crash", "log": out[-4000:]},
                      no_input=True, kind="model!=impl")
        return
    run_model_retry("assign", d)
    run_model_retry("assignref", d, dst="ref.txt")
    stats = load_stats(d)
    ops = read_lines(f"{d}/ops.txt") or []
    imp = read_lines(f"{d}/impl.txt") or []
    mod = read_lines(f"{d}/model.txt") or []
    ora = read_lines(f"{d}/oracle.txt") or []
    ref = read_lines(f"{d}/ref.txt") or []
    notes = load_notes(d)
    ctx.cov["evaluations"] += len(ops)
    ctx.cov["traces_validated_against_impl"] += int(stats.get("analyzed", 0))
    for k, v in stats.items():
        if k != "samples":
            ctx.cov.setdefault("distribution", {})[f"assign.{k}"] = v
    for s in stats.get("samples", []):
        ctx.sample(s[:400])
    if not (len(ops) == len(imp) == len(mod) == len(ora) == len(ref)):
        ctx.violation("assign: reply streams have different lengths",
                      {"kind": "model!=impl", "lengths": [len(ops), len(imp), len(mod), len(ora), len(ref)]},
                      no_input=True, kind="model!=impl")
        return
    corr, gap, unclassified = [], [], []
    by_key = {}
    for i, op in enumerate(ops):
        ctx.distinct((op, imp[i]))
        if imp[i] != mod[i]:
            corr.append(i)
        if ora[i] != "?" and ref[i] != "?" and ora[i] != ref[i]:
            gap.append(i)
        if ora[i] != "?" and imp[i] != ora[i]:
            a, b = parse_set(imp[i]), parse_set(ora[i])
            cls = classes_of(notes, op)
            keys = set()
            bad = a is None or b is None
            if not bad:
                for v in a ^ b:
                    c = cls.get(f"{op[0]}{v}")
                    ks = keys_of_class(c) if c else None
                    if ks is None:
                        bad = True
                    else:
                        keys |= set(ks)
            if bad:
                unclassified.append(i)
            else:
                for k in keys:
                    if k not in by_key or len(op) < len(ops[by_key[k]]):
                        by_key[k] = i
                ctx.cov["failures"]["impl!=oracle"] = ctx.cov["failures"].get("impl!=oracle", 0)
    ctx.cov["classified_deviations"] = {k: ops[i] for k, i in by_key.items()}
    # known classes: one (shortest) representative per key
    for k, i in sorted(by_key.items()):
        ctx.violation(f"assign: {WHAT[k]}: reported {imp[i]}, demanded {ora[i]} at `{ops[i]}`",
                      {"kind": "impl!=oracle", "op": ops[i], "impl": imp[i], "oracle": ora[i], "class": k, "what": WHAT[k],
                       "replay": f"{HX} assign --replay <file with the line>", "seed": ctx.seed}, key=k, kind="impl!=oracle")
    # anything else is new
    for i in unclassified[:3]:
        def fails(l):
            s = line_state(ctx, l)
            if s is None:
                return True
            im, _, o, _, cls = s
            if o == "?" or im == o:
                return False
            return any(keys_of_class(c) is None for c in cls.values()) or not cls
        try:
            small = shrink_procs(ctx, ops[i], fails)
        except Exception as e:
            ctx.log(f"shrink failed: {e}")
            small = ops[i]
        s = line_state(ctx, small) or (imp[i], mod[i], ora[i], ref[i], {})
        ctx.violation(f"assign: diagnostics differ from the reference semantics at `{small}`: impl={s[0]} oracle={s[2]} "
                      f"(no recorded deviation class explains it: {s[4]})",
                      {"kind": "impl!=oracle", "op": small, "impl": s[0], "model": s[1], "oracle": s[2], "classes": s[4],
                       "replay": f"{HX} assign --replay <file with the line>", "seed": ctx.seed}, kind="impl!=oracle")
    for i in corr[:3]:
        def fails(l):
            s = line_state(ctx, l)
            return s is None or s[0] != s[1]
        try:
            small = shrink_procs(ctx, ops[i], fails)
        except Exception as e:
            ctx.log(f"shrink failed: {e}")
            small = ops[i]
        s = line_state(ctx, small) or (imp[i], mod[i], ora[i], ref[i], {})
        ctx.violation(f"assign: model/implementation correspondence broken at `{small}`: impl={s[0]} model={s[1]}",
                      {"kind": "model!=impl", "op": small, "impl": s[0], "model": s[1], "oracle": s[2],
                       "replay": f"{HX} assign --replay <file> ; {VMODEL} assign < ops.txt", "seed": ctx.seed},
                      no_input=(s[2] == "?" or s[0] == s[2]), kind="model!=impl")
    for i in gap[:3]:
        ctx.violation(f"assign: the harness oracle and the Lean reference semantics disagree at `{ops[i]}`: "
                      f"oracle={ora[i]} reference={ref[i]}",
                      {"kind": "model!=oracle", "op": ops[i], "oracle": ora[i], "reference": ref[i], "seed": ctx.seed},
                      no_input=True, kind="model!=oracle")
    if not ok:
        if not any(not ni for _, _, ni in ctx.violations):
            proof_broken(ctx, "VerylModel.Props.C15 no longer checks")
