"""C21 — AIG rewriting preserves every output function (cargo feature `aig` of veryl-synthesizer).

The feature changes the default synthesis pipeline, so this property has its own harness crate
(`/verif/harness-aig`, binary `hxaig`, same conventions as `hx`)."""
import concurrent.futures
import re
import gen
from vlib import *

LEVEL = "proof"
THEOREMS = [
    # sentence 1
    "npn_canonical_spec", "perms_are_all24", "transforms_form_group", "npn_canonical_least_in_class", "npn_class_invariant",
    # sentence 2
    "transform_pattern_spec", "library_entry_spec", "transform_pattern_wf",
    # sentence 3
    "mk_and_sound", "extends_preserves", "instantiate_pattern_sound", "cut_replace_sound", "cut_replace_sound_canonical",
    "enumerate_cuts_are_cuts", "rewrite_sound",
    "lower_cell_sound", "cell_kinds_covered", "techmap_cell_tables", "try_match_sound", "eval_words_pointwise",
]

HARNESS_AIG = f"{ROOT}/harness-aig"


def _target_dir():
    with open(f"{HARNESS_AIG}/.cargo/config.toml") as fh:
        m = re.search(r'target-dir\s*=\s*"([^"]+)"', fh.read())
    return m.group(1) if m else f"{CACHE}/target"


def hxaig_build(ctx):
    """Build `hxaig` against /repo's working tree. Returns True / False (violation reported)."""
    lock = f"{HARNESS_AIG}/Cargo.lock"
    if not os.path.exists(lock):
        shutil.copy(f"{REPO}/Cargo.lock", lock)
    t = time.time()
    rc, out = sh(["cargo", "build", "--offline", "--quiet"], cwd=HARNESS_AIG)
    ctx.cov["harness_aig_build_s"] = round(time.time() - t, 1)
    if rc == 0:
        return True
    errs = re.findall(r"^(error[^\n]*)\n\s*--> ([^\n]*)", out, flags=re.M)
    in_aig = [f"{e} @ {loc}" for e, loc in errs if "/crates/synthesizer/src/aig/" in loc]
    ctx.log("hxaig build FAILED:\n" + out[-3000:])
    if in_aig and len(in_aig) == len(errs):
        # the implementation itself does not compile with the feature this property is about
        ctx.violation("veryl-synthesizer does not compile with `--features aig`: " + " | ".join(in_aig),
                      {"kind": "impl!=oracle", "what": "cargo build of veryl-synthesizer with feature `aig` fails",
                       "replay": f"cd {HARNESS_AIG} && cargo build --offline   (or: cargo check --offline -p veryl-synthesizer "
                                 "--features aig  in /repo)",
                       "errors": in_aig, "log": out[-6000:]},
                      key="aig-feature-does-not-compile", kind="impl!=oracle")
    else:
        ctx.violation("the C21 harness no longer builds against /repo (correspondence cannot be run)",
                      {"kind": "correspondence-broken", "what": "cargo build of /verif/harness-aig failed", "log": out[-6000:]},
                      no_input=True, kind="model!=impl")
    return False


def run_hxaig(ctx, domain, args, out_dir=None, timeout=3600):
    out_dir = out_dir or f"{ctx.run_dir}/{domain}"
    os.makedirs(out_dir, exist_ok=True)
    cmd = [f"{_target_dir()}/debug/hxaig", domain, "--out", out_dir] + [str(a) for a in args]
    rc, out = sh(cmd, timeout=timeout)
    if rc != 0:
        ctx.log(f"hxaig {domain} exited {rc}:\n{out[-3000:]}")
    return rc, out, out_dir


def run_model_parallel(domain, out_dir, parts=4):
    """`vmodel <domain>` on ops.txt, split into `parts` independent chunks (stateless domains only)."""
    ops = read_lines(f"{out_dir}/ops.txt") or []
    n = len(ops)
    size = max(1, (n + parts - 1) // parts)
    chunks = [ops[i:i + size] for i in range(0, n, size)]

    def one(ch):
        p = subprocess.run([VMODEL, domain], input="\n".join(ch) + "\n", stdout=subprocess.PIPE, stderr=subprocess.PIPE, text=True)
        return p.stdout
    with concurrent.futures.ThreadPoolExecutor(max_workers=parts) as ex:
        outs = list(ex.map(one, chunks))
    with open(f"{out_dir}/model.txt", "w") as fh:
        fh.write("".join(outs))


def absorb_stats(ctx, domain, d):
    stats = load_stats(d)
    for k, v in stats.items():
        if k != "samples":
            ctx.cov.setdefault("distribution", {})[f"{domain}.{k}"] = v
    for s in stats.get("samples", []):
        ctx.sample(f"{domain}: {s}"[:400])
    return stats


def line_differential(ctx, domain, d, replay_of, key_of=None, max_report=4, sequence=False):
    """3-way diff of one domain; `replay_of(i, ops)` → replay body for request i."""
    n, mism = diff3(d)
    ctx.cov["evaluations"] += n
    ops = read_lines(f"{d}/ops.txt") or []
    imp = read_lines(f"{d}/impl.txt") or []
    if sequence:
        cur = []
        for o, r in zip(ops, imp):
            if o == "reset":
                if cur:
                    ctx.distinct(tuple(cur))
                cur = []
            else:
                cur.append((o, r))
        if cur:
            ctx.distinct(tuple(cur))
    else:
        for o, r in zip(ops, imp):
            ctx.distinct((domain, o[:200], r))
    reported = {}
    for m in mism:
        key = key_of(m) if key_of else None
        bucket = (m["kind"], key)
        reported[bucket] = reported.get(bucket, 0) + 1
        if reported[bucket] > max_report:
            continue
        body = {"kind": m["kind"], "domain": domain, "first_difference": m, "seed": ctx.seed}
        body.update(replay_of(m["i"], ops))
        if m["kind"] == "impl!=oracle":
            ctx.violation(f"{domain}: implementation violates the property at `{m['op'][:160]}`: impl={m['impl']} oracle={m['oracle']}",
                          body, key=key, kind=m["kind"])
        else:
            ctx.violation(f"{domain}: {m['kind']} at `{m['op'][:160]}`: impl={m['impl']} model={m['model']} oracle={m['oracle']}",
                          body, no_input=(m["kind"] == "model!=impl"), key=key, kind=m["kind"])
    return n, mism


def run(ctx):
    ctx.cov["generated"] = gen.gen(["Npn"])
    ok = lean_check(ctx, "VerylModel.Props.C21", THEOREMS)
    ctx.cov["trusted_base"] = [
        "Lean 4.33 kernel; axioms ⊆ {propext, Classical.choice, Quot.sound}",
        "tools/gen.py `Npn` (ALL_PERMS, VAR_TT, MAX_ANDS, IDENTITY, loop bounds, cut limits, CellKind enum + arity, "
        "the lower_cell expression table)",
        "model ↔ Rust: perm_table()[pi*65536+tt] is perm_tt(tt, ALL_PERMS[pi]); hash_cons/net_edge are functions of the node list; "
        "eval_tt's memoised recursion = forward pass over topologically ordered nodes; u32 overflow of node<<1 not modelled",
        "rewrite.rs is modelled completely (Core/AigRewrite.lean; stable sort = List.mergeSort, HashSet/HashMap used for "
        "membership/lookup only) and `vmodel aig` reproduces the real pass node for node; the pattern library is an input of "
        "the model (dumped from the running process)",
        "NOT modelled: the role pass / net allocation / inverter materialisation / sink wiring of aig_to_cells_techmap and "
        "aig_to_cells, aigify's traversal, and the passes of conv.rs around the AIG block — covered by the differential only "
        "(Lean and Rust evaluators on every produced graph/netlist)",
        "harness-aig/src/*.rs (generators, serialisation, Rust oracle) + this script",
    ]
    ctx.cov["rule"] = ("npn: all 65536 tables through the real npn_canonical (model: exact reply; oracle: own apply + class minimum by "
                       "union-find over generator moves) + sampled perm_tt/flip_inputs/apply/eval/transform_pattern; "
                       "lib: every library entry re-evaluated; aig: random constructor sequences + every CellKind through aigify "
                       "+ the real rewrite pass on the constructed graph, exact node lists; rewrite: generated designs (comb/seq, derived reset, RAM) through build_gate_ir with and "
                       "without VERYL_AIG_ROUNDTRIP and stage by stage, random AIGs through rewrite+techmap, all 2^k vectors for "
                       "support ≤ 16 else 512 random vectors; one mutant per netlist as checker self-test. "
                       "distinct = distinct (request, reply) pairs")
    if not hxaig_build(ctx):
        return
    line_replay = lambda i, ops: {"request": ops[i] if i < len(ops) else "", "replay":
                                  "hxaig <domain> --replay <file with this line> ; vmodel <domain> < file"}
    # ---- npn (exhaustive in both tiers) ---------------------------------------------------------
    rc, out, d = run_hxaig(ctx, "npn", ["--seed", ctx.seed, "--n", tier_n(ctx, 3000, 60000)])
    if rc != 0:
        ctx.violation("hxaig npn crashed", {"kind": "harness-crash", "log": out[-4000:]}, no_input=True, kind="model!=impl")
    else:
        run_model_parallel("npn", d, parts=4)
        n, mism = line_differential(ctx, "npn", d, line_replay)
        st = absorb_stats(ctx, "npn", d)
        ctx.cov["npn_classes_seen"] = st.get("npn.classes")
        if st.get("op.npn", 0) < 65536:
            ctx.violation("npn domain did not cover all 65536 tables", {"kind": "coverage", "stats": st}, no_input=True, kind="model!=impl")
        ctx.cov["traces_validated_against_impl"] += n
    # ---- lib ------------------------------------------------------------------------------------
    rc, out, d = run_hxaig(ctx, "lib", [])
    if rc != 0:
        ctx.violation("hxaig lib crashed", {"kind": "harness-crash", "log": out[-4000:]}, no_input=True, kind="model!=impl")
    else:
        run_model("lib", d)
        n, _ = line_differential(ctx, "lib", d, line_replay)
        st = absorb_stats(ctx, "lib", d)
        ctx.cov["library_entries"] = st.get("lib.entries")
        if not st.get("lib.entries"):
            ctx.violation("the pattern library is empty", {"kind": "coverage", "stats": st}, no_input=True, kind="model!=impl")
    # ---- aig (constructor sequences, aigify of every kind) ---------------------------------------
    rc, out, d = run_hxaig(ctx, "aig", ["--seed", ctx.seed, "--n", tier_n(ctx, 400, 8000), "--len", tier_n(ctx, 30, 60)])
    if rc != 0:
        ctx.violation("hxaig aig crashed", {"kind": "harness-crash", "log": out[-4000:]}, no_input=True, kind="model!=impl")
    else:
        run_model("aig", d)
        seq_replay = lambda i, ops: {"ops": [o for o in ops if o.startswith("libentry ")] + enclosing_sequence(ops, i), "replay":
                                     "hxaig aig --replay <file with the ops> ; vmodel aig < file"}
        line_differential(ctx, "aig", d, seq_replay, sequence=True)
        st = absorb_stats(ctx, "aig", d)
        ctx.cov["traces_validated_against_impl"] += int(st.get("sequences", 0))
        if not st.get("rewrite.reduced-and-count"):
            ctx.violation("aig domain: no run of the real rewrite pass replaced anything (generator too weak)",
                          {"kind": "coverage", "stats": st}, no_input=True, kind="model!=impl")
    # ---- rewrite --------------------------------------------------------------------------------
    rc, out, d = run_hxaig(ctx, "rewrite", ["--seed", ctx.seed, "--n", tier_n(ctx, 150, 3000), "--naig", tier_n(ctx, 300, 6000),
                                            "--nrand", tier_n(ctx, 512, 2048)])
    if rc != 0:
        ctx.violation("hxaig rewrite crashed", {"kind": "harness-crash", "log": out[-4000:]}, no_input=True, kind="model!=impl")
    else:
        run_model_parallel("rewrite", d, parts=4)

        def rw_replay(i, ops):
            j = i
            while j >= 0 and not (ops[j].startswith("design ") or ops[j].startswith("randaig ")):
                j -= 1
            body = {"request": ops[i][:20000] if i < len(ops) else ""}
            if j >= 0 and ops[j].startswith("design "):
                num = ops[j].split()[1]
                try:
                    with open(f"{d}/designs/d{num}.veryl") as fh:
                        body["design"] = fh.read()
                except OSError:
                    pass
                body["replay"] = ("save `design` as d.veryl ; hxaig rewrite --design d.veryl --out DIR  (real build_gate_ir with "
                                  "and without VERYL_AIG_ROUNDTRIP=1, then the stages); or re-judge the request line alone: "
                                  "hxaig rewrite --replay <file> ; vmodel rewrite < file")
            else:
                body["replay"] = (f"hxaig rewrite --seed {ctx.seed} … (random AIG #{ops[j].split()[1] if j >= 0 else '?'}); the request "
                                  "line contains both graphs: hxaig rewrite --replay <file> ; vmodel rewrite < file")
            return body

        def rw_key(m):
            # two root causes are known (both: aigify seeds sinks only from output ports and FF D pins):
            #  * the design has inferred RAM blocks  → logic feeding RAM pins is deleted, RAM read data left undriven
            #  * an FF clock/reset pin is driven by logic → that logic is deleted, the pin is left undriven
            op = m["op"].split()
            if op and op[0] == "dangling":
                if len(op) > 2 and op[2] != "rams=0":
                    return "aig-drops-ram-pin-logic"
                return "aig-drops-ff-control-logic"
            return None
        line_differential(ctx, "rewrite", d, rw_replay, key_of=rw_key, max_report=3)
        st = absorb_stats(ctx, "rewrite", d)
        ctx.cov["traces_validated_against_impl"] += int(st.get("designs.accepted", 0)) + int(st.get("randaigs", 0))
        if st.get("mutant.detected", 0) == 0:
            ctx.violation("checker self-test: no mutated netlist was told apart (the equivalence check would be vacuous)",
                          {"kind": "self-test", "stats": st}, no_input=True, kind="model!=oracle")
    if not ok:
        if not any(not ni for _, _, ni in ctx.violations):
            proof_broken(ctx, "VerylModel.Props.C21 (or its generated tables) no longer checks")
