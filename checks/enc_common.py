"""Helpers shared by checks/c36.py, c35.py, c32.py (stateless line domains: every request line is
its own replay)."""
from vlib import *


def line_differential(ctx, domain, args, key_of=None, max_report=4, stateless=True, tag=None):
    """Run `hx <domain>` and `vmodel <domain>` on the same request lines and compare
    impl / model / oracle line by line.  For a stateless domain the replay of a difference is the
    single request line; otherwise the lines since the last `reset`."""
    rc, out, d = run_hx(ctx, domain, args, out_dir=f"{ctx.run_dir}/{tag or domain}")
    if rc != 0:
        ctx.violation(f"harness domain {domain} crashed (rc={rc})", {"kind": "harness-crash", "log": out[-4000:]},
                      no_input=True, kind="model!=impl")
        return 0
    mrc, err = run_model(domain, d)
    if mrc != 0:
        ctx.log(f"vmodel {domain} rc={mrc}: {err[-500:]}")
    n, mism = diff3(d)
    stats = load_stats(d)
    ctx.cov["evaluations"] += n
    ctx.cov["traces_validated_against_impl"] += int(stats.get("sequences", 0))
    for k, v in stats.items():
        if k != "samples":
            ctx.cov.setdefault("distribution", {})[f"{tag or domain}.{k}"] = v
    for s in stats.get("samples", []):
        ctx.sample(s)
    ops = read_lines(f"{d}/ops.txt") or []
    imp = read_lines(f"{d}/impl.txt") or []
    ora = read_lines(f"{d}/oracle.txt")
    ctx.cov["oracle_lines"] = ctx.cov.get("oracle_lines", 0) + (sum(1 for x in ora if x != "?") if ora else 0)
    for o, r in zip(ops, imp):
        if o != "reset" and r not in ("bad-op",):
            ctx.distinct((domain, o, r))
    reported = 0
    seen = set()
    for m in mism:
        if reported >= max_report:
            break
        if stateless or m["i"] >= len(ops):
            seq = [m["op"]]
        else:
            seq = enclosing_sequence(ops, m["i"])
        sig = (m["kind"], seq[-1].split(" ")[0] if seq else "")
        if sig in seen:
            continue
        seen.add(sig)
        reported += 1
        key = key_of(seq, m) if key_of else None
        body = {"kind": m["kind"], "domain": domain, "ops": seq, "first_difference": m,
                "replay": f"{HX} {domain} --replay <file with the ops, one per line> ; {VMODEL} {domain} < ops.txt",
                "seed": ctx.seed, "total_differences": len(mism)}
        if m["kind"] == "impl!=oracle":
            ctx.violation(f"{domain}: implementation differs from the property oracle at `{m['op']}`: "
                          f"impl={m['impl']} oracle={m['oracle']}", body, key=key, kind=m["kind"])
        else:
            body["correspondence"] = f"vmodel {domain} vs hx {domain}"
            ctx.violation(f"{domain}: model/implementation correspondence broken at `{m['op']}`: "
                          f"impl={m['impl']} model={m['model']} oracle={m['oracle']}", body, no_input=True, key=key,
                          kind=m["kind"])
    return n


def replay_lines(ctx, domain):
    """`--replay FILE` support: FILE is either a JSON replay body written by a previous run (uses
    its `ops`) or a plain file of request lines."""
    import json
    path = ctx.replay
    try:
        with open(path) as fh:
            body = json.load(fh)
        if body.get("domain") not in (None, domain):
            return None
        ops = body.get("ops", [])
    except ValueError:
        with open(path) as fh:
            ops = [l.rstrip("\n") for l in fh if l.strip()]
    f = f"{ctx.run_dir}/replay-{domain}.txt"
    with open(f, "w") as fh:
        fh.write("\n".join(ops) + "\n")
    return f
