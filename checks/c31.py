"""C31 — dependency resolution is deterministic and picks the best version."""
import concurrent.futures
import re
from vlib import *

LEVEL = "proof"
THEOREMS = ["resolve_spec_locked", "resolve_spec_latest", "resolve_locked_highest", "names_distinct",
            "new_names_distinct", "update_names_distinct", "C31_order_witness", "perm_invariant_false",
            "perm_invariant_partial_witness", "update_modified_iff", "update_idempotent", "C31_second_update_witness", "update_after_update_false", "save_load_roundtrip"]
KEY_ORDER = "gen_locks:hashmap-order-suffix"
KEY_CAPTURE = "resolve_version_from_lockfile:higher-lock-of-project-captures-dependency"

# A second requirement on an already locked project: p1 needs q01 ^1.0 (1.2.0 locked); then 1.10.0 is
# published and p2 starts to need q01 >1.2.3.  The update locks both releases; the NEXT update, with
# nothing changed, moves p1's dependency to 1.10.0 (first matching lock of the sorted bucket), drops
# 1.2.0 and reports a modification.
WITNESS2 = ["reset", "meta 1 []", "rmeta 0 0 1 1", "head 0 1 0 [8.1]", "meta 2 [5~g0.1.1.5+6+7+8+9+a]", "pmeta 1 2",
            "meta 3 []", "pmeta 2 3", "meta 0 [1~p1,2~p2]", "new []", "update 0 []", "unmodified",
            "meta 4 []", "rmeta 0 0 2 4", "head 0 1 0 [8.1,a.2]", "meta 5 [6~g0.1.7.a+b+c+d]", "pmeta 2 5",
            "update 0 []", "best", "update 0 []", "unmodified", "best", "update 0 []", "unmodified"]

# DESIGN §5 #11: root → n1 (p1), n2 (p2); p1 → n5 (p3); p2 → n5 (p4).  Which of p3/p4 is named
# `n5` and which `n5_0` depends on the iteration order of the root's `dependencies` HashMap.
WITNESS = ["reset", "meta 0 [1~p1,2~p2]", "meta 1 [5~p3]", "meta 2 [5~p4]", "meta 3 []", "meta 4 []",
           "pmeta 1 1", "pmeta 2 2", "pmeta 3 3", "pmeta 4 4", "new []", "names", "reload"]

# Three different sources declared under ONE dependency name (root: n5 → p3; p1: n5 → p4; p2: n5 → p5):
# the lock names must be n5, n5_0, n5_1 (in some order) — replayed on every run with the `names` oracle.
WITNESS3 = ["reset", "meta 0 [1~p1,2~p2,5~p3]", "meta 1 [5~p4]", "meta 2 [5~p5]", "meta 3 []", "meta 4 []", "meta 5 [5~p6]",
            "meta 6 []", "pmeta 1 1", "pmeta 2 2", "pmeta 3 3", "pmeta 4 4", "pmeta 5 5", "pmeta 6 6", "new []", "names",
            "reload", "update 0 []", "unmodified", "names"]


def parse_table(reply):
    """`ok [mod=b] U0=lock/lock;P1=lock` → list of (name, src, deps, vis)."""
    m = re.match(r"ok (?:mod=\d )?(.*)$", reply)
    if not m:
        return None
    locks = []
    if m.group(1) == "-":
        return locks
    for bucket in m.group(1).split(";"):
        _, body = bucket.split("=", 1)
        for l in body.split("/"):
            mm = re.match(r"([0-9a-f_]+)@([^()]+)\(([^()]*)\)([VH])$", l)
            if not mm:
                return None
            locks.append((mm.group(1), mm.group(2), tuple(sorted(mm.group(3).split("&"))), mm.group(4)))
    return locks


def order_signature(a, b):
    """True iff two outcomes differ only by how the names of one base name (`n5`, `n5_0`, …) are
    distributed over the same sources: same multiset of (source, deps, visibility), and per base
    name the same set of names and the same set of sources."""
    la, lb = parse_table(a), parse_table(b)
    if la is None or lb is None or la == lb:
        return False
    if sorted(x[1:] for x in la) != sorted(x[1:] for x in lb):
        return False
    def groups(ls):
        g = {}
        for n, s, _, _ in ls:
            e = g.setdefault(n.split("_")[0], (set(), set()))
            e[0].add(n)
            e[1].add(s)
        return g
    return groups(la) == groups(lb)


def capture_signature(before, after):
    """The update of an unchanged world only *dropped* repository locks for which the table held a
    higher locked version of the same (url, project); nothing new was resolved."""
    lb, la = parse_table(before), parse_table(after)
    if lb is None or la is None:
        return False
    sb, sa = {x[1] for x in lb}, {x[1] for x in la}
    removed = sb - sa
    if not removed or not sa <= sb:
        return False
    def key(s):
        f = s[1:].split(".")
        return (f[0], f[2], int(f[3], 16)) if s.startswith("g") and len(f) == 5 else None
    kept = [key(s) for s in sa if key(s)]
    return all(key(r) and any(k[0] == key(r)[0] and k[1] == key(r)[1] and k[2] > key(r)[2] for k in kept) for r in removed)


def unmodified_finding(ctx, ops, imp, i, seq_ops):
    """`unmodified` at line i said mod=1 on an unchanged world: keyed if the signature holds."""
    tables = [imp[j] for j in range(i) if ops[j].split(" ")[0] in ("new", "update") and imp[j].startswith("ok")
              and j >= i - len(seq_ops)]
    sig = len(tables) >= 2 and capture_signature(tables[-2], tables[-1])
    body = {"kind": "impl!=oracle", "domain": "resolve", "ops": seq_ops, "before": tables[-2] if len(tables) >= 2 else None,
            "after": tables[-1] if tables else None, "signature_verified": sig,
            "what": "an update with unchanged declarations and releases reports a modification",
            "replay": f"{HX} resolve --replay <file with the ops> --out DIR"}
    ctx.violation("resolve: update of an unchanged project reports a modification: " + (tables[-1] if tables else "?"), body,
                  key=KEY_CAPTURE if sig else None, kind="impl!=oracle")


def shard(ctx, i, n):
    d = f"{ctx.run_dir}/resolve-{i}"
    rc, out, d = run_hx(ctx, "resolve", ["--seed", ctx.seed * 1000 + i, "--n", n], out_dir=d, timeout=3000)
    if rc != 0:
        return d, rc, out, 0, []
    run_model("resolve", d)
    n_ops, mism = diff3(d)
    return d, rc, out, n_ops, mism


def replay(ctx, lines, tag):
    d = f"{ctx.run_dir}/{tag}"
    os.makedirs(d, exist_ok=True)
    with open(f"{d}/replay.txt", "w") as fh:
        fh.write("\n".join(lines) + "\n")
    rc, out, _ = run_hx(ctx, "resolve", ["--replay", f"{d}/replay.txt"], out_dir=d, timeout=600)
    if rc != 0:
        return None, [{"i": 0, "op": "(harness crashed)", "impl": out[-300:], "model": None, "oracle": None, "kind": "impl!=oracle"}]
    run_model("resolve", d)
    _, mism = diff3(d)
    return d, mism


WORLD = ("meta", "head", "rmeta", "pmeta", "reset")


def shrink(ctx, seq, want_oracle):
    """Drop trailing requests, then single resolution requests (world lines are kept). With
    `want_oracle` a candidate counts only if the property oracle still fails on it."""
    def fails(c):
        mm = replay(ctx, c, "shrink")[1]
        return any(x["kind"] == "impl!=oracle" for x in mm) if want_oracle else bool(mm)
    best = seq
    for cut in range(len(seq)):
        if seq[cut].split(" ")[0] in WORLD:
            continue
        cand = seq[:cut + 1]
        if fails(cand):
            best = cand
            break
    ops = [i for i, l in enumerate(best[:-1]) if l.split(" ")[0] not in WORLD]
    for i in reversed(ops):
        cand = best[:i] + best[i + 1:]
        if fails(cand):
            best = cand
    return best


def run(ctx):
    ok = lean_check(ctx, "VerylModel.Props.C31", THEOREMS)
    ctx.cov["trusted_base"] = [
        "Lean 4.33 kernel; axioms ⊆ {propext, Classical.choice, Quot.sound}",
        "Uuid::new_v5 injective on (url, path, revision); toml round-trips Veryl.lock / Veryl.pub / Veryl.toml",
        "semver::VersionReq::matches is an arbitrary predicate of the model (validated through the real crate, not modelled)",
        "git clone/fetch/checkout of a local repository yields the files of that revision; slice::sort_by is stable",
        "dependency `properties` and the root-only path override of git dependencies are not modelled (never generated)",
        "harness/src/dom_resolve.rs (world materialisation with the git CLI, reads the HashMap iteration order back from "
        "Lock.dependencies) + checks/c31.py"]
    ctx.cov["rule"] = ("generated worlds (≤3 local git repositories × ≤2 projects with out-of-order release histories incl. a "
                       "pre-release, ≤3 path projects, clashing dependency names incl. declared `n_0` forms, cycles, unpublished / "
                       "missing projects, unsatisfiable requirements) → real Lockfile::new/update(force)/save/load after each event "
                       "(new releases, changed declarations) vs M-Resolve (same iteration order) and vs the oracle (greatest "
                       "matching version or still-matching locked version by real semver; distinct names; reload equality; second "
                       "update unmodified); distinct = distinct (request, reply) scenarios")
    if not harness_build(ctx):
        return
    shards = tier_n(ctx, 6, 16)
    per = tier_n(ctx, 2, 40)
    total = 0
    reported = 0
    with concurrent.futures.ThreadPoolExecutor(max_workers=min(shards, 8)) as ex:
        results = list(ex.map(lambda i: shard(ctx, i, per), range(shards)))
    for d, rc, out, n_ops, mism in results:
        if rc != 0:
            ctx.violation(f"harness domain resolve crashed (rc={rc})", {"kind": "harness-crash", "log": out[-4000:]},
                          no_input=True, kind="model!=impl")
            continue
        total += n_ops
        stats = load_stats(d)
        ctx.cov["traces_validated_against_impl"] += int(stats.get("sequences", 0))
        dist = ctx.cov.setdefault("distribution", {})
        for k, v in stats.items():
            if k != "samples":
                dist[f"resolve.{k}"] = dist.get(f"resolve.{k}", 0) + v
        for s in stats.get("samples", [])[:1]:
            ctx.sample(s[:600])
        ops = read_lines(f"{d}/ops.txt") or []
        imp = read_lines(f"{d}/impl.txt") or []
        cur = []
        for o, r in zip(ops, imp):
            if o == "reset":
                if cur:
                    ctx.distinct(tuple(cur))
                cur = []
            elif o.split(" ")[0] not in WORLD:
                cur.append((o, r))
        if cur:
            ctx.distinct(tuple(cur))
        seen = set()
        for m in mism:
            if m["i"] >= len(ops):
                continue
            seq = enclosing_sequence(ops, m["i"])
            start = m["i"] - len(seq)
            if start in seen or reported >= 3:
                continue
            seen.add(start)
            if m["kind"] == "impl!=oracle" and m["op"] == "unmodified":
                unmodified_finding(ctx, ops, imp, m["i"], ["reset"] + seq)
                continue
            reported += 1
            # the whole scenario (it continues after the first mismatch): a property failure
            # (impl != oracle) anywhere in it is preferred to a bare correspondence failure
            j = m["i"]
            while j + 1 < len(ops) and ops[j + 1] != "reset":
                j += 1
            full = ["reset"] + enclosing_sequence(ops, j)
            seq = ["reset"] + seq
            small = seq
            try:
                mfull = replay(ctx, full, "shrink")[1]
                want_oracle = any(x["kind"] == "impl!=oracle" for x in mfull)
                if want_oracle:
                    seq = small = full
                if mfull:
                    small = shrink(ctx, seq, want_oracle)
            except Exception as e:
                ctx.log(f"shrink failed: {e}")
            _, mm = replay(ctx, small, "final")
            mm = sorted(mm or [m], key=lambda x: 0 if x["kind"] == "impl!=oracle" else 1)
            first = mm[0]
            body = {"kind": first["kind"], "domain": "resolve", "ops": small, "first_difference": first, "seed": ctx.seed,
                    "replay": f"{HX} resolve --replay <file with the ops> --out DIR ; {VMODEL} resolve < DIR/ops.txt"}
            if first["kind"] == "impl!=oracle":
                ctx.violation(f"resolve: implementation differs from the property oracle at `{first['op']}`: "
                              f"impl={first['impl']} oracle={first['oracle']}", body, kind="impl!=oracle")
            else:
                ctx.violation(f"resolve: model/implementation correspondence broken at `{first['op']}`: "
                              f"impl={first['impl']} model={first['model']}", body, no_input=not mm, kind=first["kind"])
    ctx.cov["evaluations"] += total

    # ---- a second update is not always a no-op (fixed witness) ------------------------------------
    d2, mism2 = replay(ctx, WITNESS2, "witness2")
    if d2 is None:
        ctx.violation("resolve witness2 replay crashed", {"kind": "harness-crash", "log": mism2[0]["impl"]}, no_input=True,
                      kind="model!=impl")
    else:
        ops2, imp2 = read_lines(f"{d2}/ops.txt") or [], read_lines(f"{d2}/impl.txt") or []
        ctx.cov["evaluations"] += len(ops2)
        ctx.cov["second_update_witness"] = [r for o, r in zip(ops2, imp2) if o == "unmodified"]
        for m in mism2:
            if m["kind"] == "impl!=oracle" and m["op"] == "unmodified":
                unmodified_finding(ctx, ops2, imp2, m["i"], WITNESS2)
            else:
                ctx.violation(f"resolve witness2: {m['kind']} at `{m['op']}`: impl={m['impl']} model={m['model']} oracle={m['oracle']}",
                              {"kind": m["kind"], "ops": WITNESS2, "first_difference": m}, no_input=m["kind"] != "impl!=oracle",
                              kind=m["kind"])
    # ---- three and four sources under one dependency name (fixed witness; `names` oracle on the real table) ----
    d3, mism3 = replay(ctx, WITNESS3, "witness3")
    if d3 is None:
        ctx.violation("resolve witness3 replay crashed", {"kind": "harness-crash", "log": mism3[0]["impl"]}, no_input=True,
                      kind="model!=impl")
    else:
        ops3, imp3 = read_lines(f"{d3}/ops.txt") or [], read_lines(f"{d3}/impl.txt") or []
        ctx.cov["evaluations"] += len(ops3)
        t3 = parse_table(next((r for o, r in zip(ops3, imp3) if o.startswith("new ")), "")) or []
        ctx.cov["same_name_witness"] = sorted(n for n, _, _, _ in t3 if n.split("_")[0] == "5")
        if len({n for n, _, _, _ in t3 if n.split("_")[0] == "5"}) != 4 and not mism3:
            ctx.violation(f"resolve witness3: four sources declared as n5 did not get four names: {ctx.cov['same_name_witness']}",
                          {"kind": "impl!=oracle", "ops": WITNESS3, "table": t3}, kind="impl!=oracle")
        for m in mism3[:2]:
            ctx.violation(f"resolve witness3: {m['kind']} at `{m['op']}`: impl={m['impl']} model={m['model']} oracle={m['oracle']}",
                          {"kind": m["kind"], "domain": "resolve", "ops": WITNESS3, "first_difference": m,
                           "replay": f"{HX} resolve --replay <file with the ops> --out DIR"}, no_input=m["kind"] != "impl!=oracle",
                          kind=m["kind"])
    # ---- finding #11: the same declarations resolved in several processes (hash seeds differ) ----
    nproc = tier_n(ctx, 6, 24)
    with concurrent.futures.ThreadPoolExecutor(max_workers=6) as ex:
        outs = list(ex.map(lambda i: replay(ctx, WITNESS, f"witness-{i}"), range(nproc)))
    outcomes = {}
    for d, mism in outs:
        if d is None:
            ctx.violation("resolve witness replay crashed", {"kind": "harness-crash", "log": mism[0]["impl"]}, no_input=True,
                          kind="model!=impl")
            continue
        ops = read_lines(f"{d}/ops.txt") or []
        imp = read_lines(f"{d}/impl.txt") or []
        for m in mism:  # names / reload / model correspondence on the witness itself
            ctx.violation(f"resolve witness: {m['kind']} at `{m['op']}`: impl={m['impl']} model={m['model']} oracle={m['oracle']}",
                          {"kind": m["kind"], "ops": WITNESS, "first_difference": m}, no_input=m["kind"] != "impl!=oracle",
                          kind=m["kind"])
        for o, r in zip(ops, imp):
            if o.startswith("new "):
                outcomes.setdefault(r, []).append(o)
        ctx.cov["evaluations"] += len(ops)
    ctx.cov["order_witness"] = {"processes": nproc, "outcomes": {k: len(v) for k, v in outcomes.items()}}
    if len(outcomes) > 1:
        ks = sorted(outcomes)
        sig = all(order_signature(ks[0], k) for k in ks[1:])
        body = {"kind": "impl!=oracle", "domain": "resolve", "ops": WITNESS, "outcomes": {k: len(v) for k, v in outcomes.items()},
                "what": "the same declarations and releases resolve to different lock names in different processes "
                        "(Metadata.dependencies is a std HashMap; gen_locks suffixes in iteration order)",
                "signature_verified": sig,
                "replay": f"run `{HX} resolve --replay <ops> --out DIR` in several processes and compare the reply of `new`"}
        ctx.violation("resolve: lock names depend on the HashMap iteration order: " + " | ".join(ks), body,
                      key=KEY_ORDER if sig else None, kind="impl!=oracle")
    else:
        ctx.notes.append(f"order witness: {nproc} processes produced one outcome (finding #11 not observed in this run)")
    if not ok:
        if not any(not ni for _, _, ni in ctx.violations):
            proof_broken(ctx, "VerylModel.Props.C31 no longer checks")
