//! Domain `smap` (C13 "source maps point at matching text on both sides").
//!
//! The self-contained testcases (and token-gap mutants of them, one project per round in which every
//! file is replaced by a mutant) are analysed as one project and every file is emitted under variants of
//! {vertical_align, max_width, indent_width, strip_comments, newline_style}. Per emitted file:
//! * `smap <round>:<file> <opt> <hex src>`  impl = `dst=… src=… sorted=… cover=… anchors=…`, oracle all `ok`:
//!     the `.sv.map` bytes are decoded with the `sourcemap` crate; `dst`: the entry's name starts at the
//!     output position (`BAD:blank:<i>` = empty name at a column past the end of its line — the known
//!     blank-anchor defect of the renderer; `BAD:other:<i>` anything else); `src`: a token or comment of the
//!     Veryl source starts at the source position; `sorted`: entries ordered by output position; `cover`:
//!     every output line containing an identifier of the source has an entry; `anchors`: the decoded entries
//!     are exactly the anchors the renderer returned, shifted to 0-based (`SourceMap::add`).
//! * `render <ropts> <doc>`   the emitter's real Doc: text and anchors vs M-Pretty (correspondence).
//! * `dflags <doc>`           side conditions of the C13/C26 theorems on the real Doc (`noifb linews srcok` expected).
//! * `shift dl dc sl sc`      `SourceMap::add` on one entry (incl. the 0 boundary: panic) vs M-SourceMap.
use crate::dom_fmt::{doc_flags, expect_flags};
use crate::dom_pretty::{doc_to_sexp, rendered_to_reply};
use crate::emitctx::{self, Opt};
use crate::rng::Rng;
use crate::svlex;
use crate::util::{Log, Opts, hex};
use std::collections::BTreeSet;
use std::panic;
use std::path::PathBuf;
use veryl_parser::veryl_walker::VerylWalker;
use veryl_pretty::render::render_with_anchors;

#[derive(Default)]
struct IdentCollector(Vec<String>);

impl veryl_parser::veryl_walker::VerylWalker for IdentCollector {
    fn identifier(&mut self, arg: &veryl_parser::veryl_grammar_trait::Identifier) {
        if let Some(s) = veryl_parser::resource_table::get_str_value(arg.identifier_token.token.text) {
            self.0.push(s);
        }
    }
}

pub const ALL_OK: &str = "dst=ok src=ok sorted=ok cover=ok anchors=ok";

fn sexp_only(s: &str) -> String {
    s.rsplit(' ').next().unwrap_or("").to_string()
}

/// Verdicts of C13 for one emitted file.
fn verdicts(src: &str, sv: &str, map: &[u8], rendered: Option<&veryl_pretty::render::Rendered>, p: &veryl_parser::Parser, log: &mut Log) -> String {
    let Ok(sm) = sourcemap::SourceMap::from_reader(map) else {
        return "dst=BAD:undecodable:0 src=? sorted=? cover=? anchors=?".into();
    };
    let sv_lines: Vec<Vec<char>> = sv.split('\n').map(|l| l.trim_end_matches('\r').chars().collect()).collect();
    // source side: where tokens and comments start (1-based line/column in chars)
    let stream = emitctx::token_stream(p);
    let starts: BTreeSet<(u32, u32)> = stream.iter().map(|(_, _, t)| (t.line, t.column)).collect();
    // identifiers of the source: the tokens of the grammar's `Identifier` non-terminal
    let mut ic = IdentCollector::default();
    ic.veryl(&p.veryl);
    let src_idents: BTreeSet<String> = ic.0.iter().map(|s| s.trim_start_matches("r#").to_string()).collect();
    let _ = src;
    let mut dst_bad: Option<(usize, &'static str)> = None;
    let mut src_bad: Option<usize> = None;
    let mut sorted = true;
    let mut prev = (0u32, 0u32);
    let mut lines_with_entry: BTreeSet<u32> = BTreeSet::new();
    let mut decoded: Vec<(u32, u32, u32, u32, String)> = vec![];
    for (i, t) in sm.tokens().enumerate() {
        let name = t.get_name().unwrap_or("").to_string();
        let (dl, dc, sl, sc) = (t.get_dst_line(), t.get_dst_col(), t.get_src_line(), t.get_src_col());
        decoded.push((dl, dc, sl, sc, name.clone()));
        // a multi-line name (embedded SV, block comment) covers the lines it spans
        for k in 0..=name.matches('\n').count() as u32 {
            lines_with_entry.insert(dl + k);
        }
        let first: Vec<char> = name.split('\n').next().unwrap_or("").trim_end_matches('\r').chars().collect();
        let ok = sv_lines.get(dl as usize).is_some_and(|l| (dc as usize) <= l.len() && l[dc as usize..].starts_with(&first));
        if !ok && dst_bad.is_none() {
            let blank = name.is_empty() && sv_lines.get(dl as usize).is_some_and(|l| (dc as usize) > l.len());
            dst_bad = Some((i, if blank { "blank" } else { "other" }));
        } else if !ok {
            let blank = name.is_empty() && sv_lines.get(dl as usize).is_some_and(|l| (dc as usize) > l.len());
            if !blank {
                // an `other` failure dominates a `blank` one
                if let Some((_, "blank")) = dst_bad {
                    dst_bad = Some((i, "other"));
                }
            }
        }
        if !ok {
            log.count("entries_dst_bad");
        }
        if !starts.contains(&(sl + 1, sc + 1)) && src_bad.is_none() {
            src_bad = Some(i);
        }
        if (dl, dc) < prev {
            sorted = false;
        }
        prev = (dl, dc);
    }
    log.add("entries_total", decoded.len() as u64);
    // cover: every output line on which the renderer recorded an anchor for an identifier ("a mapped
    // identifier") has at least one decoded entry
    let mut cover_bad: Option<usize> = None;
    if let Some(r) = rendered {
        for a in &r.anchors {
            let ident = a.text.chars().next().is_some_and(|c| c.is_ascii_alphabetic() || c == '_' || c == '$' || c == '\\')
                && !a.text.contains('\n');
            if ident && a.dst_line >= 1 && !lines_with_entry.contains(&(a.dst_line - 1)) && cover_bad.is_none() {
                cover_bad = Some((a.dst_line - 1) as usize);
            }
        }
    }
    // statistic only (stricter reading): output lines that contain an identifier of the source but have no
    // entry at all — directive lines (`ifdef NAME), text the emitter synthesises (inferred types), …
    for t in svlex::lex(sv) {
        let directive = sv_lines.get(t.line).is_some_and(|l| l.iter().find(|c| !c.is_whitespace()) == Some(&'`'));
        if t.kind == svlex::Kind::Ident && !directive && src_idents.contains(&t.text) && !lines_with_entry.contains(&(t.line as u32)) {
            log.count("stat_source_identifier_on_line_without_entry");
            if std::env::var("HX_DUMP").is_ok() {
                eprintln!("NOENTRY line {} ident {:?}: {:?}", t.line + 1, t.text, sv.split('\n').nth(t.line));
            }
        }
    }
    // anchors (renderer) vs entries (decoded map), in order. The `sourcemap` encoder drops an entry that is
    // identical to its predecessor (same positions, same name), so adjacent duplicates are merged first.
    let anchors_ok = match rendered {
        Some(r) => {
            let mut a: Vec<(u32, u32, u32, u32, String)> = r
                .anchors
                .iter()
                .map(|a| (a.dst_line.wrapping_sub(1), a.dst_column.wrapping_sub(1), a.src_line.wrapping_sub(1), a.src_column.wrapping_sub(1), a.text.to_string()))
                .collect();
            let n0 = a.len();
            a.dedup();
            log.add("adjacent_duplicate_anchors", (n0 - a.len()) as u64);
            if a != decoded && std::env::var("HX_DUMP").is_ok() {
                eprintln!("ANCHORS {} vs ENTRIES {}", a.len(), decoded.len());
                for (x, y) in a.iter().zip(decoded.iter()) {
                    if x != y {
                        eprintln!("  first difference: anchor {:?} entry {:?}", x, y);
                        break;
                    }
                }
            }
            a == decoded
        }
        None => true,
    };
    format!(
        "dst={} src={} sorted={} cover={} anchors={}",
        match dst_bad {
            None => "ok".to_string(),
            Some((i, s)) => format!("BAD:{s}:{i:x}"),
        },
        match src_bad {
            None => "ok".to_string(),
            Some(i) => format!("BAD:{i:x}"),
        },
        if sorted { "ok" } else { "BAD" },
        match cover_bad {
            None => "ok".to_string(),
            Some(l) => format!("BAD:{l:x}"),
        },
        if anchors_ok { "ok" } else { "BAD" }
    )
}

fn variants(r: &mut Rng, k: u64) -> Vec<Opt> {
    let mut v = vec![Opt { newline: 'u', ..Opt::DEFAULT }];
    let mut all = vec![];
    for valign in [true, false] {
        for width in [40usize, 80, 120] {
            for strip in [false, true] {
                for nl in ['u', 'w', 'a'] {
                    for indent in [2usize, 4] {
                        all.push(Opt { indent, width, valign, newline: nl, strip, expand: false });
                    }
                }
            }
        }
    }
    for _ in 1..k {
        v.push(*r.pick(&all));
    }
    v
}

/// `SourceMap::add` on the real crate: one entry, built, serialised, decoded.
fn shift_real(dl: u32, dc: u32, sl: u32, sc: u32) -> String {
    let r = panic::catch_unwind(|| {
        let mut m = veryl_sourcemap::SourceMap::new(&PathBuf::from("a.veryl"), &PathBuf::from("a.sv"), &PathBuf::from("a.sv.map"));
        m.add(dl, dc, sl, sc, "n");
        m.build();
        m.to_bytes().ok()
    });
    match r {
        Err(_) => "panic".into(),
        Ok(None) => "err".into(),
        Ok(Some(b)) => match sourcemap::SourceMap::from_reader(b.as_slice()) {
            Ok(sm) => match sm.tokens().next() {
                Some(t) => format!("{:x}:{:x}:{:x}:{:x}", t.get_dst_line(), t.get_dst_col(), t.get_src_line(), t.get_src_col()),
                None => "none".into(),
            },
            Err(_) => "err".into(),
        },
    }
}

/// Result lines of one project (computed in the project's thread).
struct Line {
    op: String,
    imp: String,
    oracle: String,
}

fn run_project(files: emitctx::FileSet, round: u64, seed: u64, nvar: u64, render_every: u64) -> Result<(Vec<Line>, Vec<(String, u64)>), String> {
    emitctx::with_project(files, move |prj| {
        let mut lines = vec![];
        let mut log = Log::new();
        let mut r = Rng::new(seed ^ (round.wrapping_mul(0x9E37_79B9)));
        log.add("analyzer_errors", prj.errors as u64);
        let mut k = 0u64;
        for i in 0..prj.files.len() {
            let (name, src) = &prj.files[i];
            let Some(parser) = prj.parsers[i].as_ref() else { continue };
            for opt in variants(&mut r, nvar) {
                let Some(e) = prj.emit(i, &opt) else {
                    log.count("emit_failed");
                    let why = emitctx::LAST_PANIC.lock().unwrap().clone();
                    lines.push(Line { op: format!("smap {round:x}:{name} {} {}", opt.show(), hex(src.as_bytes())), imp: format!("noemit:{why}"), oracle: ALL_OK.into() });
                    continue;
                };
                log.count("emitted");
                log.count(&format!("opt_strip_{}", opt.strip as u8));
                log.count(&format!("opt_valign_{}", opt.valign as u8));
                log.count(&format!("opt_nl_{}", opt.newline));
                let rendered = e.doc.as_ref().map(|(d, ro)| render_with_anchors(d, ro));
                if let Some(rd) = &rendered {
                    if rd.text != e.sv {
                        log.count("tap_doc_does_not_render_to_sv");
                    }
                }
                let v = verdicts(src, &e.sv, &e.map, rendered.as_ref(), parser, &mut log);
                if v != ALL_OK {
                    log.count(&format!("verdict_{}", v.replace(' ', "_").chars().filter(|c| !c.is_ascii_digit()).collect::<String>()));
                }
                lines.push(Line { op: format!("smap {round:x}:{name} {} {}", opt.show(), hex(src.as_bytes())), imp: v, oracle: ALL_OK.into() });
                if let (Some((d, ro)), Some(rd)) = (&e.doc, &rendered) {
                    let req = doc_to_sexp(d, ro);
                    let fl = doc_flags(d);
                    if k % render_every == 0 {
                        lines.push(Line { op: format!("dflags {}", sexp_only(&req)), imp: fl.clone(), oracle: expect_flags(&fl, false) });
                        lines.push(Line { op: format!("render {req}"), imp: rendered_to_reply(rd), oracle: "?".into() });
                        log.count("render_requests");
                    }
                }
                k += 1;
            }
        }
        let mut stats: Vec<(String, u64)> = log.stats.iter().map(|(a, b)| (a.clone(), *b)).collect();
        for s in &log.samples {
            stats.push((format!("note: {s}"), 1));
        }
        (lines, stats)
    })
}

fn replay(log: &mut Log, path: &str) {
    let body = std::fs::read_to_string(path).unwrap_or_default();
    let corpus: emitctx::FileSet = emitctx::testcases().into_iter().filter(|x| !emitctx::needs_outside(&x.0)).collect();
    for line in body.lines() {
        let t: Vec<&str> = line.split(' ').filter(|x| !x.is_empty()).collect();
        match t.as_slice() {
            ["smap", id, opt, hexsrc] => {
                // the file is re-emitted inside the project of the other (original) testcases
                let name = id.split_once(':').map(|x| x.1).unwrap_or(id).to_string();
                let (Some(opt), Some(src)) = (Opt::parse(opt), unhex(hexsrc)) else {
                    log.push3(line.to_string(), "bad-op".into(), "?".into());
                    continue;
                };
                let mut files = corpus.clone();
                let idx = match files.iter().position(|f| f.0 == name) {
                    Some(i) => {
                        files[i].1 = src.clone();
                        i
                    }
                    None => {
                        files.push((name.clone(), src.clone()));
                        files.len() - 1
                    }
                };
                let r = emitctx::with_project(files, move |prj| {
                    let mut l = Log::new();
                    let parser = prj.parsers[idx].as_ref()?;
                    let e = prj.emit(idx, &opt)?;
                    let rendered = e.doc.as_ref().map(|(d, ro)| render_with_anchors(d, ro));
                    Some(verdicts(&prj.files[idx].1, &e.sv, &e.map, rendered.as_ref(), parser, &mut l))
                });
                let v = match r {
                    Ok(Some(v)) => v,
                    _ => format!("noemit:{}", emitctx::LAST_PANIC.lock().unwrap()),
                };
                log.push3(line.to_string(), v, ALL_OK.into());
            }
            ["shift", a, b, c, d] => {
                let n = |x: &str| u32::from_str_radix(x, 16).ok();
                match (n(a), n(b), n(c), n(d)) {
                    (Some(a), Some(b), Some(c), Some(d)) => log.push3(line.to_string(), shift_real(a, b, c, d), "?".into()),
                    _ => log.push3(line.to_string(), "bad-op".into(), "?".into()),
                }
            }
            _ => log.push3(line.to_string(), "bad-op".into(), "?".into()),
        }
    }
}

fn unhex(s: &str) -> Option<String> {
    if s.len() % 2 != 0 {
        return None;
    }
    let mut v = Vec::with_capacity(s.len() / 2);
    for i in (0..s.len()).step_by(2) {
        v.push(u8::from_str_radix(s.get(i..i + 2)?, 16).ok()?);
    }
    String::from_utf8(v).ok()
}

pub fn main(opts: &Opts) -> i32 {
    emitctx::install_panic_hook();
    let seed = opts.seed();
    let rounds = opts.num("rounds", 1);
    let nvar = opts.num("variants", 3);
    let render_every = opts.num("render-every", 10).max(1);
    let limit = opts.num("files", 1000) as usize;
    let out = opts.out();
    let mut log = Log::new();
    if let Some(f) = opts.get("replay") {
        replay(&mut log, f);
        log.write(&out);
        return 0;
    }
    let mut r = Rng::new(seed);
    let mut corpus: emitctx::FileSet = emitctx::testcases().into_iter().filter(|x| !emitctx::needs_outside(&x.0)).collect();
    let _ = &mut corpus;
    // `SourceMap::add`: boundary and random entries
    for (a, b, c, d) in [(1u32, 1u32, 1u32, 1u32), (0, 1, 1, 1), (1, 0, 1, 1), (1, 1, 0, 1), (1, 1, 1, 0), (2, 7, 300, 65)] {
        log.push3(format!("shift {a:x} {b:x} {c:x} {d:x}"), shift_real(a, b, c, d), "?".into());
    }
    for _ in 0..20 {
        let (a, b, c, d) = (1 + r.below(5000) as u32, 1 + r.below(300) as u32, 1 + r.below(5000) as u32, 1 + r.below(300) as u32);
        log.push3(format!("shift {a:x} {b:x} {c:x} {d:x}"), shift_real(a, b, c, d), "?".into());
    }
    // two deterministic extra projects (rounds 100, 101): multi-byte text in every string literal (anchored
    // multi-byte tokens followed by further anchors on the line); a comment after every separator
    for (round, kind) in [(100u64, "mb"), (101u64, "sep")] {
        let corpus2 = corpus.clone();
        let h = std::thread::Builder::new()
            .stack_size(256 << 20)
            .spawn(move || {
                let mut n = 0u64;
                let v: emitctx::FileSet = corpus2
                    .iter()
                    .map(|(name, src)| {
                        let m = if kind == "mb" {
                            emitctx::mb_strings_mutant(src, name)
                        } else {
                            emitctx::separator_mutant(src, name, true).or_else(|| emitctx::separator_mutant(src, name, false))
                        };
                        match m {
                            Some(m) => {
                                n += 1;
                                (name.clone(), m)
                            }
                            None => (name.clone(), src.clone()),
                        }
                    })
                    .collect();
                (v, n)
            })
            .unwrap();
        let (v, n) = h.join().unwrap();
        log.add(&format!("mutated_files_{kind}"), n);
        let files: emitctx::FileSet = v.into_iter().take(limit).collect();
        match run_project(files, round, seed, nvar, render_every) {
            Ok((lines, stats)) => {
                for l in lines {
                    log.push3(l.op, l.imp, l.oracle);
                }
                for (k, v) in stats {
                    log.add(&k, v);
                }
                log.count("projects");
            }
            Err(e) => log.count(&format!("project_failed_{e}")),
        }
    }
    for round in 0..=rounds {
        // round 0: the testcases themselves; round k: every file replaced by a mutant
        let files: emitctx::FileSet = if round == 0 {
            corpus.clone()
        } else {
            let h = {
                let corpus = corpus.clone();
                let mut rr = r.fork();
                std::thread::Builder::new()
                    .stack_size(256 << 20)
                    .spawn(move || {
                        let mut n = 0u64;
                        let v: emitctx::FileSet = corpus
                            .iter()
                            .map(|(name, src)| match emitctx::mutant(&mut rr, src, name) {
                                Some((m, _)) => {
                                    n += 1;
                                    (name.clone(), m)
                                }
                                None => (name.clone(), src.clone()),
                            })
                            .collect();
                        (v, n)
                    })
                    .unwrap()
            };
            let (v, n) = h.join().unwrap();
            log.add("mutated_files", n);
            v
        };
        let files: emitctx::FileSet = files.into_iter().take(limit).collect();
        match run_project(files, round, seed, nvar, render_every) {
            Ok((lines, stats)) => {
                for l in lines {
                    log.push3(l.op, l.imp, l.oracle);
                }
                for (k, v) in stats {
                    log.add(&k, v);
                }
                log.count("projects");
            }
            Err(e) => {
                log.count(&format!("project_failed_{e}"));
            }
        }
    }
    log.add("sequences", log.ops.len() as u64);
    log.write(&out);
    0
}
