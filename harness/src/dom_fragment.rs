//! Domain `fragment` (C06).
//!
//! (i) codec requests on random / boundary windows against the real `IdWindow::encode`,
//!     `IdRebase::decode`, the sentinel shift (through the real serde impls of `SymbolId` /
//!     `DefinitionId`), the `TokenId`/`TextId` serde impls, and the StrId/PathId dictionaries
//!     (encoder and decoder in different threads = different interning states); replies are
//!     diffed against M-Codec (`vmodel fragment`), `oracle.txt` holds the closed formula.
//! (ii) the property itself: for a file set and a position k, (A) parse + pass1 everything afresh,
//!     (B) restore file k from a fragment captured in a run with a *different* processing order
//!     (different id offsets, different interning order) and with extra id gaps, parse the rest;
//!     compare table dumps (after `canon`: ids renumbered by first occurrence), the later
//!     diagnostics and the emitted SV + source maps of every other file.  impl = B, oracle = A.
//!     The id sequences of the dumps are also sent as `canon` / `canoneq` requests so that the
//!     harness's canon is checked against the Lean `canon` the theorems talk about.
use crate::rng::Rng;
use crate::util::{Log, Opts};
use crate::vsets::{self, FileSet, RunCfg, RunOut};
use std::collections::{BTreeMap, HashMap};
use std::panic;
use veryl_analyzer::definition_table::DefinitionId;
use veryl_analyzer::fragment_codec as acodec;
use veryl_analyzer::symbol::SymbolId;
use veryl_parser::fragment_codec::{self as pcodec, IdRebase, IdWindow};
use veryl_parser::resource_table::{self, PathId, StrId, TokenId};
use veryl_parser::text_table::TextId;

const BOUND: &[u64] = &[
    0, 1, 2, 3, 7, 8, 9, 31, 32, 33, 63, 64, 65, 127, 128, 129, 255, 256, 257, 300, 1000, 65535, 65536,
    0x7fff_ffff, 0xffff_ffff, 0x1_0000_0000, 0x7fff_ffff_ffff_ffff, 0x8000_0000_0000_0000,
    0xffff_ffff_ffff_fffd, 0xffff_ffff_ffff_fffe, 0xffff_ffff_ffff_ffff,
];

fn val(r: &mut Rng) -> u64 {
    match r.below(4) {
        0 => *r.pick(BOUND),
        1 => r.below(40),
        2 => r.below(5000),
        _ => r.next() >> r.below(64),
    }
}

fn res<T: Into<u64>>(x: std::thread::Result<Result<T, String>>) -> String {
    match x {
        Ok(Ok(v)) => format!("ok {:x}", v.into()),
        Ok(Err(_)) => "err".into(),
        Err(_) => "panic".into(),
    }
}

fn end_all() {
    acodec::end_encode();
    acodec::end_decode();
    pcodec::end_encode();
    pcodec::end_decode();
}

/// Which real id type a roundtrip goes through.
#[derive(Clone, Copy, PartialEq)]
enum Kind {
    Token,
    Text,
    Symbol,
    Definition,
}

fn ser<T: serde::Serialize>(x: &T) -> Result<Vec<u8>, String> {
    postcard::to_allocvec(x).map_err(|e| e.to_string())
}

/// Real encode through the serde impl: returns the wire value.
fn real_encode(kind: Kind, w: IdWindow, id: usize) -> std::thread::Result<Result<u64, String>> {
    let r = panic::catch_unwind(|| {
        pcodec::begin_encode(pcodec::EncodeSession::new(w, w));
        acodec::begin_encode(acodec::EncodeSession { symbol_window: w, definition_window: w });
        let bytes = match kind {
            Kind::Token => ser(&TokenId(id)),
            Kind::Text => ser(&TextId(id)),
            Kind::Symbol => ser(&SymbolId(id)),
            Kind::Definition => ser(&DefinitionId(id)),
        };
        bytes.and_then(|b| postcard::from_bytes::<u64>(&b).map_err(|e| e.to_string()))
    });
    end_all();
    r
}

fn real_decode(kind: Kind, rb: IdRebase, wire: u64) -> std::thread::Result<Result<u64, String>> {
    let r = panic::catch_unwind(|| {
        let bytes = ser(&wire)?;
        pcodec::begin_decode(pcodec::DecodeSession::new(&[], &[], rb, rb));
        acodec::begin_decode(acodec::DecodeSession { symbol_rebase: rb, definition_rebase: rb });
        let e = |e: postcard::Error| e.to_string();
        match kind {
            Kind::Token => postcard::from_bytes::<TokenId>(&bytes).map(|x| x.0 as u64).map_err(e),
            Kind::Text => postcard::from_bytes::<TextId>(&bytes).map(|x| x.0 as u64).map_err(e),
            Kind::Symbol => postcard::from_bytes::<SymbolId>(&bytes).map(|x| x.0 as u64).map_err(e),
            Kind::Definition => postcard::from_bytes::<DefinitionId>(&bytes).map(|x| x.0 as u64).map_err(e),
        }
    });
    end_all();
    r
}

fn str_of(v: u64) -> String {
    format!("s{v:x}")
}

/// Real dictionary roundtrip: encoder thread interns `enc`, encodes `ids`; decoder thread interns
/// `dec` first, then decodes.  Returns the reply line.
fn real_dict(paths: bool, enc: Vec<u64>, ids: Vec<u64>, dec: Vec<u64>) -> String {
    let intern = move |v: u64| -> u64 {
        if paths {
            resource_table::insert_path(std::path::Path::new(&str_of(v))).0 as u64
        } else {
            resource_table::insert_str(&str_of(v)).0 as u64
        }
    };
    let h = std::thread::spawn(move || {
        for v in &enc {
            intern(*v);
        }
        pcodec::begin_encode(pcodec::EncodeSession::new(IdWindow::default(), IdWindow::default()));
        let bytes = if paths {
            ser(&ids.iter().map(|x| PathId(*x as usize)).collect::<Vec<_>>())
        } else {
            ser(&ids.iter().map(|x| StrId(*x as usize)).collect::<Vec<_>>())
        };
        let dicts = pcodec::end_encode().unwrap();
        bytes.map(|b| (b, dicts.strings, dicts.paths))
    });
    let Ok(Ok((bytes, strings, pathsd))) = h.join() else {
        return "err".into();
    };
    let locals: Vec<u64> = postcard::from_bytes(&bytes).unwrap_or_default();
    let dict: Vec<String> = if paths {
        pathsd.iter().map(|p| p.to_string_lossy()[1..].to_string()).collect()
    } else {
        strings.iter().map(|s| s[1..].to_string()).collect()
    };
    let h = std::thread::spawn(move || {
        for v in &dec {
            intern(*v);
        }
        pcodec::begin_decode(pcodec::DecodeSession::new(&strings, &pathsd, IdRebase::default(), IdRebase::default()));
        let out: Result<Vec<u64>, String> = if paths {
            postcard::from_bytes::<Vec<PathId>>(&bytes).map(|v| v.iter().map(|x| x.0 as u64).collect()).map_err(|e| e.to_string())
        } else {
            postcard::from_bytes::<Vec<StrId>>(&bytes).map(|v| v.iter().map(|x| x.0 as u64).collect()).map_err(|e| e.to_string())
        };
        pcodec::end_decode();
        out
    });
    let Ok(Ok(decoded)) = h.join() else {
        return "err".into();
    };
    let hx = |v: &[u64]| format!("[{}]", v.iter().map(|x| format!("{x:x}")).collect::<Vec<_>>().join(","));
    format!("ok [{}] {} {}", dict.join(","), hx(&locals), hx(&decoded))
}

// ---------------------------------------------------------------------------------------------
// canon
// ---------------------------------------------------------------------------------------------

const ID_KINDS: &[&str] = &["TokenId(", "SymbolId(", "DefinitionId(", "TextId(", "StrId(", "PathId(", "ScopeId("];

/// Tokenise a dump: ids (`Kind(n)` in Debug dumps; with `leading`, the number that starts a line
/// and is followed by `:`) become `(kind, n)`, everything else literal text (whitespace runs
/// collapsed – column widths depend on the decimal width of ids).
pub fn tokenize(dump: &str, leading: bool) -> Vec<Result<(u64, u64), String>> {
    let mut out = vec![];
    for line in dump.lines() {
        let mut rest = line.trim();
        if leading {
            if let Some(p) = rest.find(':') {
                if p > 0 && rest[..p].bytes().all(|b| b.is_ascii_digit()) {
                    out.push(Ok((0, rest[..p].parse().unwrap_or(u64::MAX))));
                    rest = &rest[p..];
                }
            }
        }
        let mut lit = String::new();
        'scan: while !rest.is_empty() {
            // fast path: copy everything up to the next capital that can start an id kind
            let stop = rest.bytes().position(|b| matches!(b, b'T' | b'S' | b'D' | b'P') || b.is_ascii_whitespace()).unwrap_or(rest.len());
            if stop > 0 {
                lit.push_str(&rest[..stop]);
                rest = &rest[stop..];
                continue 'scan;
            }
            for (k, pat) in ID_KINDS.iter().enumerate() {
                if rest.starts_with(pat) {
                    let tail = &rest[pat.len()..];
                    let n = tail.bytes().take_while(|b| b.is_ascii_digit()).count();
                    if n > 0 && tail[n..].starts_with(')') {
                        // only a word start counts (`XTokenId(` is not an id)
                        if !lit.ends_with(|c: char| c.is_alphanumeric() || c == '_') {
                            if !lit.is_empty() {
                                out.push(Err(std::mem::take(&mut lit)));
                            }
                            out.push(Ok((k as u64, tail[..n].parse().unwrap_or(u64::MAX))));
                            rest = &tail[n + 1..];
                            continue 'scan;
                        }
                    }
                }
            }
            let c = rest.chars().next().unwrap();
            if c.is_whitespace() {
                if !lit.ends_with(' ') {
                    lit.push(' ');
                }
            } else {
                lit.push(c);
            }
            rest = &rest[c.len_utf8()..];
        }
        lit.push('\n');
        out.push(Err(lit));
    }
    out
}

/// The harness's own canon: (kind, id) ↦ index of first occurrence (one counter for all kinds).
pub fn canon_ids(ids: &[(u64, u64)]) -> Vec<(u64, u64)> {
    let mut seen: HashMap<(u64, u64), u64> = HashMap::new();
    ids.iter()
        .map(|kv| {
            let n = seen.len() as u64;
            (kv.0, *seen.entry(*kv).or_insert(n))
        })
        .collect()
}

fn ids_of(toks: &[Result<(u64, u64), String>]) -> Vec<(u64, u64)> {
    toks.iter().filter_map(|t| t.as_ref().ok().copied()).collect()
}

pub fn canon_text(dump: &str, leading: bool) -> (String, Vec<(u64, u64)>) {
    let toks = tokenize(dump, leading);
    let ids = ids_of(&toks);
    let c = canon_ids(&ids);
    let mut i = 0;
    let mut s = String::new();
    for t in &toks {
        match t {
            Ok(_) => {
                s.push_str(&format!("<{}#{}>", c[i].0, c[i].1));
                i += 1;
            }
            Err(l) => s.push_str(l),
        }
    }
    (s, ids)
}

/// Order-insensitive form: ids replaced by `#`, rows sorted.
pub fn strip_sort(dump: &str, leading: bool) -> String {
    let mut s = String::new();
    for t in tokenize(dump, leading) {
        match t {
            Ok(_) => s.push('#'),
            Err(l) => s.push_str(&l),
        }
    }
    let mut rows: Vec<&str> = s.lines().collect();
    rows.sort();
    rows.join("\n")
}

fn show_ids(ids: &[(u64, u64)]) -> String {
    format!("[{}]", ids.iter().map(|(k, v)| format!("{k:x}:{v:x}")).collect::<Vec<_>>().join(","))
}

fn parse_ids(s: &str) -> Option<Vec<(u64, u64)>> {
    let inner = s.strip_prefix('[')?.strip_suffix(']')?;
    if inner.is_empty() {
        return Some(vec![]);
    }
    inner
        .split(',')
        .map(|x| {
            let (k, v) = x.split_once(':')?;
            Some((u64::from_str_radix(k, 16).ok()?, u64::from_str_radix(v, 16).ok()?))
        })
        .collect()
}

// ---------------------------------------------------------------------------------------------
// request execution (also used by --replay)
// ---------------------------------------------------------------------------------------------

fn hexs(t: &[&str]) -> Option<Vec<u64>> {
    t.iter().map(|x| u64::from_str_radix(x, 16).ok()).collect()
}

fn parse_hex_list(s: &str) -> Option<Vec<u64>> {
    let inner = s.strip_prefix('[')?.strip_suffix(']')?;
    if inner.is_empty() {
        return Some(vec![]);
    }
    inner.split(',').map(|x| u64::from_str_radix(x, 16).ok()).collect()
}

/// The closed formula of the property (independent of both model and code).
fn rt_oracle(sentinel: bool, s: u64, e: u64, b: u64, id: u64) -> String {
    if sentinel && id == 0 {
        return "ok 0".into();
    }
    if id > s && id <= e {
        match b.checked_add(id - s) {
            Some(v) => format!("ok {v:x}"),
            None => "panic".into(),
        }
    } else {
        "err".into()
    }
}

struct Exec<'a> {
    log: &'a mut Log,
    out: std::path::PathBuf,
    nmis: usize,
    cache: BTreeMap<String, (FileSet, RunOut)>,
    /// canon of the fresh run's dumps (per dump name), valid for the set in `cache`
    acanon: BTreeMap<String, (String, Vec<(u64, u64)>)>,
}

impl Exec<'_> {
    fn codec(&mut self, line: &str) -> bool {
        let t: Vec<&str> = line.split(' ').collect();
        let (imp, ora): (String, String) = match t[0] {
            "count" => {
                let Some(a) = hexs(&t[1..]) else { return false };
                let w = IdWindow { start: a[0] as usize, end: a[1] as usize };
                let r = panic::catch_unwind(|| Ok::<u64, String>(w.count() as u64));
                (res(r), if a[0] <= a[1] { format!("ok {:x}", a[1] - a[0]) } else { "panic".into() })
            }
            "enc" => {
                let Some(a) = hexs(&t[1..]) else { return false };
                let w = IdWindow { start: a[0] as usize, end: a[1] as usize };
                let r = panic::catch_unwind(|| w.encode(a[2] as usize, "id"));
                let o = if a[2] > a[0] && a[2] <= a[1] { format!("ok {:x}", a[2] - a[0] - 1) } else { "err".into() };
                (res(r), o)
            }
            "dec" => {
                let Some(a) = hexs(&t[1..]) else { return false };
                let rb = IdRebase { base: a[0] as usize, count: a[1] as usize };
                let r = panic::catch_unwind(|| rb.decode(a[2], "id").map(|x| x as u64));
                (res(r), "?".into())
            }
            "encs" | "encd" => {
                let Some(a) = hexs(&t[1..]) else { return false };
                let w = IdWindow { start: a[0] as usize, end: a[1] as usize };
                let k = if t[0] == "encs" { Kind::Symbol } else { Kind::Definition };
                (res(real_encode(k, w, a[2] as usize)), "?".into())
            }
            "decs" | "decd" => {
                let Some(a) = hexs(&t[1..]) else { return false };
                let rb = IdRebase { base: a[0] as usize, count: a[1] as usize };
                let k = if t[0] == "decs" { Kind::Symbol } else { Kind::Definition };
                (res(real_decode(k, rb, a[2])), "?".into())
            }
            "rt" | "rtx" | "rts" | "rtd" => {
                let Some(a) = hexs(&t[1..]) else { return false };
                if a[0] > a[1] {
                    return false;
                }
                let k = match t[0] {
                    "rt" => Kind::Token,
                    "rtx" => Kind::Text,
                    "rts" => Kind::Symbol,
                    _ => Kind::Definition,
                };
                let w = IdWindow { start: a[0] as usize, end: a[1] as usize };
                let rb = IdRebase { base: a[2] as usize, count: w.count() };
                let imp = match real_encode(k, w, a[3] as usize) {
                    Ok(Ok(wire)) => res(real_decode(k, rb, wire)),
                    x => res(x),
                };
                (imp, rt_oracle(matches!(k, Kind::Symbol | Kind::Definition), a[0], a[1], a[2], a[3]))
            }
            "dict" | "dictp" => {
                let (Some(e), Some(i), Some(d)) = (parse_hex_list(t[1]), parse_hex_list(t[2]), parse_hex_list(t[3])) else {
                    return false;
                };
                // oracle: decoded ids name the same values in the decoder's table
                (real_dict(t[0] == "dictp", e, i, d), "?".into())
            }
            "canon" => {
                let Some(ids) = parse_ids(t[1]) else { return false };
                (show_ids(&canon_ids(&ids)), "?".into())
            }
            "canoneq" => {
                let (Some(a), Some(b)) = (parse_ids(t[1]), parse_ids(t[2])) else { return false };
                ((if canon_ids(&a) == canon_ids(&b) { "eq" } else { "ne" }).into(), "?".into())
            }
            "reset" => ("ok".into(), "ok".into()),
            _ => return false,
        };
        self.log.count(&format!("op.{}", t[0]));
        let cls = imp.split(' ').next().unwrap_or("").to_string();
        if matches!(cls.as_str(), "ok" | "err" | "panic") {
            self.log.count(&format!("reply.{}.{}", t[0], cls));
        }
        self.log.push3(line.to_string(), imp, ora);
        true
    }

    fn set_of(&mut self, spec: &str) -> Option<FileSet> {
        // gen:<seed>:<n>  |  tc:<seed>:<n>  (n files sampled from the testcases; n=0 → all)
        let p: Vec<&str> = spec.split(':').collect();
        if p.len() != 3 {
            return None;
        }
        let seed: u64 = u64::from_str_radix(p[1], 16).ok()?;
        let n: usize = p[2].parse().ok()?;
        match p[0] {
            "gen" => Some(vsets::generated(seed, n)),
            "gene" => Some(vsets::generated_ex(seed, n, true)),
            "tc" => {
                let mut all = vsets::testcases();
                let mut r = Rng::new(seed);
                for i in (1..all.len()).rev() {
                    let j = r.below(i as u64 + 1) as usize;
                    all.swap(i, j);
                }
                if n > 0 {
                    all.truncate(n);
                }
                Some(all)
            }
            _ => None,
        }
    }

    /// `restore <set> k=<i,j,..> cap=<rev|rot|same|dummy> gap=<seedhex|0>`
    fn restore(&mut self, line: &str) -> bool {
        let t: Vec<&str> = line.split(' ').collect();
        if t.len() != 5 {
            return false;
        }
        let Some(files) = self.set_of(t[1]) else { return false };
        let Some(ks) = t[2].strip_prefix("k=").map(|x| x.split(',').filter_map(|y| y.parse::<usize>().ok()).collect::<Vec<_>>()) else {
            return false;
        };
        let Some(cap) = t[3].strip_prefix("cap=") else { return false };
        let Some(gap) = t[4].strip_prefix("gap=").and_then(|x| u64::from_str_radix(x, 16).ok()) else { return false };
        if ks.is_empty() || ks.iter().any(|k| *k >= files.len()) {
            return false;
        }
        let n = files.len();
        // (A) fresh run, original order
        let key = t[1].to_string();
        if !self.cache.contains_key(&key) {
            let a = vsets::run(&files, vec![None; n], RunCfg { capture: true, gaps: vec![], skip: vec![], want_dumps: true, want_emit: true });
            let Ok(a) = a else {
                self.log.push3(line.into(), "fresh-run-panic".into(), "?".into());
                return true;
            };
            self.cache.clear();
            self.acanon.clear();
            for (name, da) in &a.dumps {
                let leading = name.starts_with("nstab");
                let v = if name.ends_with("+post") { (strip_sort(da, leading), vec![]) } else { canon_text(da, leading) };
                self.acanon.insert(name.clone(), v);
            }
            self.cache.insert(key.clone(), (files.clone(), a));
        }
        // (C) capture run in a different order
        let mut order: Vec<usize> = (0..n).collect();
        let mut cfiles = vec![];
        match cap {
            "rev" => order.reverse(),
            "rot" => order.rotate_left(1.min(n)),
            "kfirst" => {
                order.retain(|i| !ks.contains(i));
                let mut o = ks.clone();
                o.extend(order);
                order = o;
            }
            "dummy" => cfiles.push(("zz_dummy.veryl".to_string(), "/// dummy\nmodule ZzDummy (\n    a: input logic,\n    b: output logic,\n) {\n    assign b = a;\n}\n".to_string())),
            "same" => {}
            _ => return false,
        }
        for i in &order {
            cfiles.push(files[*i].clone());
        }
        let mut wm_k = String::new();
        let frags: Vec<Option<Result<Vec<u8>, String>>> = if cap == "same" {
            wm_k = self.cache[&key].1.watermarks.get(ks[0]).cloned().unwrap_or_default();
            self.cache[&key].1.fragments.clone()
        } else {
            match vsets::run(&cfiles, vec![None; cfiles.len()], RunCfg { capture: true, gaps: vec![], skip: vec![], want_dumps: false, want_emit: false }) {
                Ok(c) => {
                    let off = cfiles.len() - n;
                    let mut v = vec![None; n];
                    for (pos, i) in order.iter().enumerate() {
                        if *i == ks[0] {
                            wm_k = c.watermarks.get(pos + off).cloned().unwrap_or_default();
                        }
                        // a file with pass-1 diagnostics is never cached by the CLI
                        v[*i] = if c.pass1[pos + off].is_empty() { c.fragments[pos + off].clone() } else { Some(Err("diag".into())) };
                    }
                    v
                }
                Err(_) => {
                    self.log.push3(line.into(), "capture-run-panic".into(), "no-panic".into());
                    return true;
                }
            }
        };
        let a = &self.cache[&key].1;
        let mut restore = vec![None; n];
        for k in &ks {
            match &frags[*k] {
                Some(Ok(b)) if a.pass1[*k].is_empty() => restore[*k] = Some(b.clone()),
                Some(Err(e)) if e == "panic" => {
                    self.log.count("capture.panic");
                    self.log.push3(line.into(), "cap=panic".into(), "no-panic".into());
                    return true;
                }
                Some(Err(e)) => {
                    let why = if e == "diag" { "diag" } else if e.contains("outside window") || e.contains("Serde Serialization Error") { "refused-window" } else { "refused-other" };
                    self.log.count(&format!("capture.{why}"));
                    self.log.sample(format!("{} k={k}: capture refused: {e}", t[1]));
                    self.log.push3(line.into(), format!("cap={why}"), "?".into());
                    return true;
                }
                _ => {
                    self.log.count("capture.diag");
                    self.log.push3(line.into(), "cap=diag".into(), "?".into());
                    return true;
                }
            }
        }
        self.log.count("capture.ok");
        // generator quality: pending-list lengths in the capture watermark of file k
        {
            let num = |field: &str| -> Option<u64> {
                let p = wm_k.find(&format!("{field}: "))? + field.len() + 2;
                let t = &wm_k[p..];
                t[..t.bytes().take_while(|b| b.is_ascii_digit()).count()].parse().ok()
            };
            let four: Vec<Option<u64>> = ["import", "bind", "msb", "connect"].iter().map(|f| num(f)).collect();
            let seven: Vec<Option<u64>> =
                ["import", "bind", "msb", "connect", "reference_candidates", "type_dag_candidates", "generic_pending"].iter().map(|f| num(f)).collect();
            let distinct = |v: &[Option<u64>]| {
                let mut x: Vec<u64> = v.iter().flatten().copied().collect();
                let n = x.len();
                x.sort();
                x.dedup();
                n == v.len() && x.len() == n
            };
            if distinct(&four) {
                self.log.count("wm.pending4-pairwise-distinct");
            }
            if distinct(&seven) {
                self.log.count("wm.pending7-pairwise-distinct");
            }
            if four[2] != four[3] {
                self.log.count("wm.msb!=connect");
            }
            if four.iter().all(|x| *x == Some(0)) {
                self.log.count("wm.pending4-all-zero");
            }
        }
        let mut gaps = vec![];
        if gap != 0 {
            let mut r = Rng::new(gap);
            for _ in 0..n {
                gaps.push((r.below(2000) as usize, r.below(300) as usize, r.below(50) as usize, r.below(3) as usize));
            }
        }
        let b = vsets::run(&files, restore, RunCfg { capture: false, gaps, skip: ks.clone(), want_dumps: true, want_emit: true });
        let Ok(b) = b else {
            self.log.push3(line.into(), "restore-run-panic".into(), "cap=ok".into());
            return true;
        };
        let a = &self.cache[&key].1;
        let knames: Vec<&String> = ks.iter().map(|k| &files[*k].0).collect();
        let mut ia = String::from("cap=ok");
        let mut ib = String::from("cap=ok");
        for k in &ks {
            if let Some(Some(Err(e))) = b.restored.get(*k) {
                ib = format!("cap=ok restore-failed:{}", e.replace(' ', "_"));
            }
        }
        let mut canon_lines = vec![];
        let mut mism = vec![];
        for (name, da) in &a.dumps {
            let db = b.dumps.get(name).cloned().unwrap_or_default();
            let leading = name.starts_with("nstab");
            let _ = da;
            let (ca, idsa) = self.acanon[name].clone();
            let (cb, idsb) = if name.ends_with("+post") { (strip_sort(&db, leading), vec![]) } else { canon_text(&db, leading) };
            ia.push_str(&format!(" {name}={:x}", vsets::fnv(ca.as_bytes())));
            ib.push_str(&format!(" {name}={:x}", vsets::fnv(cb.as_bytes())));
            self.log.add("dump.ids", idsa.len() as u64);
            if ca != cb {
                mism.push((name.clone(), ca, cb));
            }
            if !idsa.is_empty() {
                let cut = 1500;
                let (pa, pb) = (&idsa[..idsa.len().min(cut)], &idsb[..idsb.len().min(cut)]);
                canon_lines.push(format!("canon {}", show_ids(pb)));
                canon_lines.push(format!("canoneq {} {}", show_ids(pa), show_ids(pb)));
            }
        }
        // later diagnostics: post_pass1 (all), pass2 of the other files, post_pass2 outside k
        let filt = |r: &RunOut| -> Vec<String> {
            let mut v: Vec<String> = r
                .later
                .iter()
                .filter(|(ph, src, _)| {
                    ph == "post1" || (!knames.iter().any(|k| ph == &format!("pass2:{k}")) && !knames.iter().any(|k| *k == src))
                })
                .map(|(ph, src, t)| format!("{}|{src}|{t}", if ph.starts_with("pass2") { "pass2" } else { ph }))
                .collect();
            v.sort();
            v
        };
        let (la, lb) = (filt(a), filt(&b));
        ia.push_str(&format!(" diag={}:{:x}", la.len(), vsets::fnv(la.join("\n").as_bytes())));
        ib.push_str(&format!(" diag={}:{:x}", lb.len(), vsets::fnv(lb.join("\n").as_bytes())));
        if la != lb {
            mism.push(("diag".into(), la.join("\n"), lb.join("\n")));
        }
        let svh = |r: &RunOut| -> (String, String) {
            let mut s = String::new();
            let mut m = Vec::new();
            for (name, text) in &r.sv {
                if knames.iter().any(|k| *k == name) {
                    continue;
                }
                s.push_str(&format!("//// {name}\n{text}"));
                m.extend_from_slice(r.map.get(name).map(|x| x.as_slice()).unwrap_or(b"-"));
            }
            (s, format!("{:x}", vsets::fnv(&m)))
        };
        // (A_k) fresh run that, like B, leaves file k out of pass 2 / emit: B differs from it only in
        // "restored" vs "parsed", so EVERY later diagnostic (also those inside k) must agree
        match vsets::run(&files, vec![None; n], RunCfg { capture: false, gaps: vec![], skip: ks.clone(), want_dumps: false, want_emit: true }) {
            Ok(ak) => {
                let all = |r: &RunOut| -> Vec<String> {
                    let mut v: Vec<String> = r.later.iter().map(|(ph, src, t)| format!("{ph}|{src}|{t}")).collect();
                    v.sort();
                    v
                };
                let (ka, kb) = (all(&ak), all(&b));
                ia.push_str(&format!(" diagk={}:{:x}", ka.len(), vsets::fnv(ka.join("\n").as_bytes())));
                ib.push_str(&format!(" diagk={}:{:x}", kb.len(), vsets::fnv(kb.join("\n").as_bytes())));
                if ka != kb {
                    mism.push(("diagk".into(), ka.join("\n"), kb.join("\n")));
                }
                self.log.add("later.diagnostics", ka.len() as u64);
                if ak.sv != b.sv || ak.map != b.map {
                    ib.push_str(" svk=differs");
                    mism.push(("svk".into(), format!("{:?}", ak.sv), format!("{:?}", b.sv)));
                }
            }
            Err(_) => ia.push_str(" diagk=fresh-run-panic"),
        }
        let ((sa, ma), (sb, mb)) = (svh(a), svh(&b));
        ia.push_str(&format!(" sv={:x} map={ma}", vsets::fnv(sa.as_bytes())));
        ib.push_str(&format!(" sv={:x} map={mb}", vsets::fnv(sb.as_bytes())));
        if sa != sb {
            mism.push(("sv".into(), sa, sb));
        }
        // Signature of a specific, understood difference: only the PathId inside
        // `TokenSource::Generated(_)` of default tokens differs (Token::default() carries
        // PathId(0), which the dictionary codec re-interns by value).
        if mism.len() == 1 && mism[0].0 == "symbols" {
            let mask = |d: &str| -> String {
                let mut out = String::new();
                let mut rest = d;
                while let Some(p) = rest.find("Generated(PathId(") {
                    out.push_str(&rest[..p]);
                    out.push_str("Generated(PathId_)");
                    let tail = &rest[p + "Generated(PathId(".len()..];
                    let n = tail.bytes().take_while(|b| b.is_ascii_digit()).count();
                    rest = tail[n..].strip_prefix("))").unwrap_or(&tail[n..]);
                }
                out.push_str(rest);
                out
            };
            let ma = canon_text(&mask(&a.dumps["symbols"]), false).0;
            let mb = canon_text(&mask(b.dumps.get("symbols").map(|x| x.as_str()).unwrap_or("")), false).0;
            if ma == mb {
                ib.push_str(" sig=generated-path-only");
                self.log.count("restore.sig.generated-path-only");
            }
        }
        if !mism.is_empty() && self.nmis < 20 {
            self.nmis += 1;
            for (name, x, y) in &mism {
                let _ = std::fs::write(self.out.join(format!("mismatch-{}-{name}-A.txt", self.nmis)), x);
                let _ = std::fs::write(self.out.join(format!("mismatch-{}-{name}-B.txt", self.nmis)), y);
            }
            let _ = std::fs::write(self.out.join(format!("mismatch-{}-line.txt", self.nmis)), line);
        }
        self.log.count("restore.compared");
        self.log.add("restore.files", n as u64);
        self.log.count(&format!("restore.cap.{cap}"));
        if a.errors == 0 {
            self.log.count("restore.errorfree");
        }
        self.log.push3(line.into(), ib, ia);
        for c in canon_lines {
            self.codec(&c);
        }
        true
    }

    /// `refuse <set> k=<i> mode=<dup|early|late>`: captures whose watermark does not delimit the
    /// file must be refused (or, if accepted, must restore correctly — checked by `restore`).
    fn refuse(&mut self, line: &str) -> bool {
        let t: Vec<&str> = line.split(' ').collect();
        if t.len() != 4 {
            return false;
        }
        let Some(files) = self.set_of(t[1]) else { return false };
        let Some(k) = t[2].strip_prefix("k=").and_then(|x| x.parse::<usize>().ok()) else { return false };
        let Some(mode) = t[3].strip_prefix("mode=") else { return false };
        if k >= files.len() || k == 0 {
            return false;
        }
        let mode = mode.to_string();
        let m2 = mode.clone();
        let h = std::thread::Builder::new().stack_size(256 << 20).spawn(move || {
            use veryl_analyzer::fragment_cache::{capture, watermark};
            let metadata = veryl_metadata::Metadata::create_default("prj").unwrap();
            let analyzer = veryl_analyzer::Analyzer::new(&metadata);
            let mut keep = vec![];
            let mut early = None;
            for (i, (name, code)) in files.iter().enumerate() {
                // dup: file k-1 is parsed under file k's path name, so the by-path exports of
                // file k contain tokens that lie before its window
                let pname = if m2 == "dup" && i + 1 == k { files[k].0.clone() } else { name.clone() };
                if i + 1 == k {
                    early = Some(watermark());
                }
                let wm = watermark();
                let Ok(p) = veryl_parser::Parser::parse(code, &pname.as_str()) else { return "parse-error".to_string() };
                let late = watermark();
                analyzer.analyze_pass1("prj", &p.veryl);
                keep.push(p);
                if i == k {
                    let wm = match m2.as_str() {
                        "early" => early.unwrap(),
                        "late" => late,
                        _ => wm,
                    };
                    return match capture(std::path::Path::new(name), code, &wm) {
                        Ok(_) => "accepted".to_string(),
                        Err(e) => {
                            let e = e.to_string();
                            if e.contains("outside window") || e.contains("Serde Serialization Error") { "refused-window".into() } else if e.contains("exactly one text id") { "refused-text".into() } else { format!("refused:{}", e.replace(' ', "_")) }
                        }
                    };
                }
            }
            "no-k".into()
        });
        let imp = h.ok().and_then(|h| h.join().ok()).unwrap_or_else(|| "panic".into());
        // postcard drops the custom message of a serde error ("… outside window …"): a refusal by
        // the id codec surfaces as "Serde Serialization Error" = `refused-window`
        let ora = match mode.as_str() {
            "early" | "late" => "refused-text",
            "dup" => "refused-window",
            _ => "?",
        };
        self.log.count(&format!("refuse.{mode}.{imp}"));
        self.log.push3(line.into(), imp, ora.into());
        true
    }

    fn exec(&mut self, line: &str) {
        let ok = if line.starts_with("restore ") {
            self.restore(line)
        } else if line.starts_with("refuse ") {
            self.refuse(line)
        } else {
            let line = line.to_string();
            panic::catch_unwind(panic::AssertUnwindSafe(|| self.codec(&line))).unwrap_or(false)
        };
        if !ok {
            self.log.push3(line.to_string(), "bad-op".into(), "?".into());
        }
    }
}

fn gen_codec(r: &mut Rng) -> String {
    // structured: a window, then an id near it
    let s = val(r);
    let len = match r.below(4) {
        0 => 0,
        1 => 1,
        2 => r.below(20),
        _ => val(r) % 100000,
    };
    let e = if r.chance(1, 12) { val(r) } else { s.saturating_add(len) };
    let id = match r.below(8) {
        0 => 0,
        1 => s,
        2 => s.wrapping_add(1),
        3 => e,
        4 => e.wrapping_add(1),
        5 => val(r),
        _ => s.wrapping_add(r.below(len + 2)),
    };
    let b = if r.chance(1, 6) { u64::MAX - r.below(40) } else { val(r) };
    match r.below(14) {
        0 => format!("count {s:x} {e:x}"),
        1 | 2 => format!("enc {s:x} {e:x} {id:x}"),
        3 => format!("dec {b:x} {:x} {:x}", len, if r.chance(1, 3) { len } else { r.below(len + 2) }),
        4 => format!("{} {s:x} {e:x} {id:x}", r.pick(&["encs", "encd"])),
        5 => format!("{} {b:x} {:x} {:x}", r.pick(&["decs", "decd"]), len, r.below(len + 3)),
        6..=9 => {
            let e = if e < s { s } else { e };
            format!("{} {s:x} {e:x} {b:x} {id:x}", r.pick(&["rt", "rtx", "rts", "rtd"]))
        }
        10 | 11 => {
            let ne = r.below(8);
            let enc: Vec<u64> = (0..ne).map(|_| r.below(12)).collect();
            let distinct = {
                let mut d = enc.clone();
                d.sort();
                d.dedup();
                d.len() as u64
            };
            let ids: Vec<u64> = (0..r.below(10)).map(|_| if r.chance(1, 25) { distinct + r.below(3) } else { r.below(distinct.max(1)) }).collect();
            let dec: Vec<u64> = (0..r.below(8)).map(|_| r.below(14)).collect();
            let h = |v: &[u64]| format!("[{}]", v.iter().map(|x| format!("{x:x}")).collect::<Vec<_>>().join(","));
            let ids = if distinct == 0 && !r.chance(1, 4) { vec![] } else { ids };
            format!("{} {} {} {}", r.pick(&["dict", "dictp"]), h(&enc), h(&ids), h(&dec))
        }
        _ => {
            let n = r.below(30);
            let a: Vec<(u64, u64)> = (0..n).map(|_| (r.below(3), r.below(6) * if r.chance(1, 5) { 1 << 40 } else { 1 })).collect();
            if r.chance(1, 2) {
                format!("canon {}", show_ids(&a))
            } else {
                // an injective renaming of a (per kind), sometimes broken
                let mul = 3 + r.below(5);
                let brk = r.chance(1, 3);
                let b: Vec<(u64, u64)> = a.iter().map(|(k, v)| (*k, if brk && *v == 2 { 7 * mul + k } else { v * mul + 7 + k })).collect();
                format!("canoneq {} {}", show_ids(&a), show_ids(&b))
            }
        }
    }
}

pub fn main(opts: &Opts) -> i32 {
    panic::set_hook(Box::new(|_| {}));
    let out = opts.out();
    let mut log = Log::new();
    let mut ex = Exec { log: &mut log, out: out.clone(), nmis: 0, cache: BTreeMap::new(), acanon: BTreeMap::new() };
    if let Some(f) = opts.get("replay") {
        for line in std::fs::read_to_string(f).unwrap_or_default().lines() {
            if !line.trim().is_empty() {
                ex.exec(line.trim());
            }
        }
        log.write(&out);
        return 0;
    }
    if opts.get("probe").is_some() {
        return probe(opts);
    }
    let mut r = Rng::new(opts.seed());
    let ncodec = opts.num("n", 3000);
    let nsets = opts.num("sets", 12);
    let ntc = opts.num("tc", 1);
    for _ in 0..ncodec {
        let l = gen_codec(&mut r);
        ex.exec(&l);
    }
    let caps = ["rev", "rot", "kfirst", "dummy", "same"];
    // generated projects: every position k, one capture order per k, gaps on
    for _ in 0..nsets {
        let seed = r.next() >> 20;
        let nf = r.range(3, 8);
        // two thirds of the projects also contain a file with a post-pass diagnostic
        let errs = r.chance(2, 3);
        let spec = format!("{}:{seed:x}:{nf}", if errs { "gene" } else { "gen" });
        let n = vsets::generated_ex(seed, nf as usize, errs).len();
        for k in 0..n {
            let cap = caps[r.below(caps.len() as u64) as usize];
            let gap = if r.chance(3, 4) { r.next() >> 8 | 1 } else { 0 };
            ex.exec(&format!("restore {spec} k={k} cap={cap} gap={gap:x}"));
        }
        // several restored files at once
        if n >= 3 {
            let ks: Vec<String> = (0..n).filter(|_| r.chance(1, 2)).map(|k| k.to_string()).collect();
            if !ks.is_empty() {
                ex.exec(&format!("restore {spec} k={} cap=rev gap={:x}", ks.join(","), r.next() >> 8 | 1));
            }
        }
        if n >= 2 {
            let k = r.range(1, n as u64 - 1);
            ex.exec(&format!("refuse {spec} k={k} mode={}", r.pick(&["dup", "early", "late"])));
        }
    }
    // testcase projects: small random subsets (every k) and the whole set (sampled k)
    for _ in 0..ntc {
        let seed = r.next() >> 20;
        let nf = r.range(3, 6);
        let spec = format!("tc:{seed:x}:{nf}");
        for k in 0..nf {
            let cap = caps[r.below(caps.len() as u64) as usize];
            ex.exec(&format!("restore {spec} k={k} cap={cap} gap={:x}", r.next() >> 8 | 1));
        }
    }
    let nall = opts.num("allk", 4);
    if nall > 0 {
        let spec = "tc:1:0".to_string();
        let n = vsets::testcases().len() as u64;
        for i in 0..nall.min(n) {
            // every position when asked for at least n, else a random sample
            let k = if nall >= n { i } else { r.below(n.max(1)) };
            let cap = caps[(i % 4) as usize];
            ex.exec(&format!("restore {spec} k={k} cap={cap} gap={:x}", r.next() >> 8 | 1));
        }
    }
    log.stats.insert("sequences".into(), (nsets + ntc) as u64);
    log.write(&out);
    0
}

/// `--probe 1`: print pass-1/later errors of every template kind and testcase (generator quality).
fn probe(opts: &Opts) -> i32 {
    let mut bad = 0;
    let tc = opts.get("probe") == Some("tc");
    for seed in 0..(if tc { 1 } else { opts.num("n", 30) }) {
        let files = if tc { vsets::testcases() } else { vsets::generated_ex(seed, 2 + (seed as usize % 7), opts.get("probe") == Some("err")) };
        let n = files.len();
        match vsets::run(&files, vec![None; n], RunCfg { capture: true, gaps: vec![], skip: vec![], want_dumps: false, want_emit: true }) {
            Ok(o) => {
                let names: Vec<&str> = files.iter().map(|f| f.0.as_str()).collect();
                println!("seed {seed}: {names:?} errors={}", o.errors);
                for (i, d) in o.pass1.iter().enumerate() {
                    for e in d {
                        println!("   pass1 {}: {e}", files[i].0);
                        bad += 1;
                    }
                }
                for (ph, src, e) in &o.later {
                    println!("   {ph} {src}: {e}");
                    if e.starts_with("E:") {
                        bad += 1;
                    }
                }
                for (i, f) in o.fragments.iter().enumerate() {
                    if let Some(Err(e)) = f {
                        println!("   capture {}: {e}", files[i].0);
                    }
                    if opts.get("wm").is_some() {
                        println!("   wm {}: {}", files[i].0, o.watermarks.get(i).cloned().unwrap_or_default());
                    }
                }
            }
            Err(e) => {
                println!("seed {seed}: {e}");
                bad += 1;
            }
        }
    }
    println!("bad={bad}");
    0
}
