//! Domain `migrate` (C23): old-grammar programs through `veryl_migrator::Parser` -> `Migrator` ->
//! current `veryl_parser::Parser`, as `veryl migrate` (cmd_migrate.rs) does before formatting.
//!
//! Per case (`<out>/ops.txt`, one reply per line in impl/oracle/model):
//!   `case <srchex>`          impl `new=<0|1> old=<0|1|->`          (which parsers accept)     oracle `?`
//!   `decide <new>`           impl `migrate=<0|1>` as cmd_migrate decides                      oracle: `migrate=0` if new=1
//!   `mig <rawhex> [toks]`    impl = hex of the migrator's output; toks = `texthex:line:col:keep` of every
//!                            old token/comment in walk order, keep=0 for the `: ScalarType` of a
//!                            `for` statement (found by a pattern on the token texts, not by the
//!                            migrator's walker)                                                oracle `?`
//!   `positions`              impl `same` | `differ@…`: the old tokens' reported (line, column) against
//!                            the true ones found by scanning the source                        oracle `same`
//!   `parse`                  impl `ok` | `err`                                                 oracle `ok`
//!   `tokens`                 impl = token texts of the re-parsed output                        oracle = old tokens minus annotation
//!   `comments`               impl = comment texts of the re-parsed output                      oracle = all old comments
//! `--replay FILE`: `case <srchex>` lines are expanded again; `reparse <hex>` lines are answered with
//! `ok [tokens] [comments]` | `err` (used by the check to attribute failures).
use crate::rng::Rng;
use crate::util::{Log, Opts, hex};
use std::panic;
use veryl_metadata::Metadata;
use veryl_migrator::Migrator;
use veryl_migrator::Parser as OldParser;
use veryl_migrator::veryl_grammar_trait::ForStatement as OldForStatement;
use veryl_migrator::veryl_token::{Token as OldToken, VerylToken as OldVerylToken};
use veryl_migrator::veryl_walker::VerylWalker as OldWalker;
use veryl_parser::Parser;
use veryl_parser::resource_table;
use veryl_parser::veryl_grammar_trait::ForStatement;
use veryl_parser::veryl_token::{Token, VerylToken};
use veryl_parser::veryl_walker::VerylWalker;

fn hx(s: &str) -> String {
    if s.is_empty() { "-".to_string() } else { hex(s.as_bytes()) }
}

fn unhex(s: &str) -> Option<String> {
    if s == "-" {
        return Some(String::new());
    }
    if s.len() % 2 != 0 {
        return None;
    }
    let b: Option<Vec<u8>> = (0..s.len() / 2).map(|i| u8::from_str_radix(s.get(2 * i..2 * i + 2)?, 16).ok()).collect();
    String::from_utf8(b?).ok()
}

/// Every token of the old tree in source order.  The migrator crate's own default walker does not
/// visit `colon`/`scalar_type` of a `for` statement, so they are visited here and flagged.
#[derive(Default)]
struct OldCollect {
    toks: Vec<(OldToken, Vec<OldToken>, bool)>,
    in_ann: bool,
}

impl OldWalker for OldCollect {
    fn veryl_token(&mut self, arg: &OldVerylToken) {
        self.toks.push((arg.token, arg.comments.clone(), !self.in_ann));
    }
    fn for_statement(&mut self, arg: &OldForStatement) {
        self.r#for(&arg.r#for);
        self.identifier(&arg.identifier);
        self.in_ann = true;
        self.colon(&arg.colon);
        self.scalar_type(&arg.scalar_type);
        self.in_ann = false;
        self.r#in(&arg.r#in);
        if let Some(ref x) = arg.for_statement_opt {
            self.rev(&x.rev);
        }
        self.range(&arg.range);
        if let Some(ref x) = arg.for_statement_opt0 {
            self.step(&x.step);
            self.assignment_operator(&x.assignment_operator);
            self.expression(&x.expression);
        }
        self.statement_block(&arg.statement_block);
    }
}

#[derive(Default)]
struct NewCollect {
    toks: Vec<(Token, Vec<Token>)>,
    /// end offsets of the index identifiers of `for` statements
    for_idents: Vec<usize>,
    /// `Migrator::migratable` of this tree
    migratable: bool,
}

impl VerylWalker for NewCollect {
    fn veryl_token(&mut self, arg: &VerylToken) {
        self.toks.push((arg.token, arg.comments.clone()));
    }
    fn for_statement(&mut self, arg: &ForStatement) {
        let t = arg.identifier.identifier_token.token;
        self.for_idents.push((t.pos + t.length) as usize);
        // default traversal
        self.r#for(&arg.r#for);
        self.identifier(&arg.identifier);
        self.r#in(&arg.r#in);
        if let Some(ref x) = arg.for_statement_opt {
            self.rev(&x.rev);
        }
        self.range(&arg.range);
        if let Some(ref x) = arg.for_statement_opt0 {
            self.step(&x.step);
            self.assignment_operator(&x.assignment_operator);
            self.expression(&x.expression);
        }
        self.statement_block(&arg.statement_block);
    }
}

fn s(id: veryl_parser::resource_table::StrId) -> String {
    resource_table::get_str_value(id).unwrap_or_default()
}

fn list(v: &[String]) -> String {
    format!("[{}]", v.iter().map(|x| hx(x)).collect::<Vec<_>>().join(","))
}

fn new_parse(src: &str) -> Option<(Vec<String>, Vec<String>, NewCollect)> {
    let p = panic::catch_unwind(|| Parser::parse(src, &"t.veryl")).ok()?.ok()?;
    let mut c = NewCollect::default();
    c.migratable = Migrator::migratable(&p.veryl);
    c.veryl(&p.veryl);
    let mut t = vec![];
    let mut cm = vec![];
    for (tok, comments) in &c.toks {
        let x = s(tok.text);
        if !x.is_empty() {
            t.push(x);
        }
        for k in comments {
            cm.push(s(k.text));
        }
    }
    Some((t, cm, c))
}

/// (line, column in characters) of every token, by scanning: the texts stand in the source in walk
/// order separated by white space only.
fn true_positions(src: &str, flat: &[(String, u32, u32, bool, bool)]) -> Option<Vec<(usize, usize)>> {
    let mut cursor = 0usize;
    let (mut at, mut l, mut c) = (0usize, 1usize, 1usize);
    let mut out = vec![];
    for (text, line, col, _, _) in flat {
        if text.is_empty() {
            out.push((*line as usize, *col as usize));
            continue;
        }
        let mut p = cursor;
        loop {
            if src[p..].starts_with(text.as_str()) {
                break;
            }
            let ch = src[p..].chars().next()?;
            if !ch.is_whitespace() {
                return None;
            }
            p += ch.len_utf8();
        }
        for ch in src[at..p].chars() {
            if ch == '\n' {
                l += 1;
                c = 1;
            } else {
                c += 1;
            }
        }
        at = p;
        out.push((l, c));
        cursor = p + text.len();
    }
    Some(out)
}

fn is_comment(t: &str) -> bool {
    t.starts_with("//") || t.starts_with("/*")
}

struct Out {
    log: Log,
    metadata: Metadata,
}

fn run_case(o: &mut Out, src: &str, tag: &str) {
    let newp = new_parse(src);
    let new_ok = newp.is_some();
    // as cmd_migrate: `if let Ok(veryl) = parser { Migrator::migratable(&veryl.veryl) } else { true }`
    let migrate = match &newp {
        Some((_, _, c)) => c.migratable,
        None => true,
    };
    let old = panic::catch_unwind(|| OldParser::parse(src, &"t.veryl"));
    let old = match old {
        Ok(Ok(p)) => Some(p),
        _ => None,
    };
    o.log.push3(
        format!("case {}", hx(src)),
        format!("new={} old={}", new_ok as u8, old.is_some() as u8),
        "?".into(),
    );
    o.log.count("sequences");
    o.log.count(&format!("case.{tag}"));
    o.log.push3(
        format!("decide {}", new_ok as u8),
        format!("migrate={}", migrate as u8),
        if new_ok { "migrate=0".into() } else { "?".into() },
    );
    if !migrate {
        o.log.count("current_grammar_untouched");
        return;
    }
    let Some(old) = old else {
        o.log.count(&format!("old_parse_error.{tag}"));
        return;
    };
    o.log.count("migrated");
    if !src.is_ascii() {
        o.log.count("migrated_non_ascii");
    }
    if src.contains("\r\n") {
        o.log.count("migrated_crlf");
    }
    let mut oc = OldCollect::default();
    oc.veryl(&old.veryl);
    // flatten in walk order; keep = false for the `: ScalarType` of a `for` statement (from the old
    // tree), cross-checked with a pattern on the token texts: `for <ident> : … in`
    let mut flat: Vec<(String, u32, u32, bool, bool)> = vec![]; // text line col keep is_comment
    let mut state = 0; // 0 idle, 1 after `for`, 2 after ident, 3 inside annotation
    let mut pattern_agrees = true;
    for (tok, comments, keep_ast) in &oc.toks {
        let text = s(tok.text);
        let mut keep = true;
        match state {
            0 => {
                if text == "for" {
                    state = 1;
                }
            }
            1 => state = 2,
            2 => {
                if text == ":" {
                    keep = false;
                    state = 3;
                } else {
                    state = if text == "for" { 1 } else { 0 };
                }
            }
            _ => {
                if text == "in" {
                    state = 0;
                } else {
                    keep = false;
                }
            }
        }
        if keep != *keep_ast {
            pattern_agrees = false;
        }
        flat.push((text, tok.line, tok.column, *keep_ast, false));
        for c in comments {
            flat.push((s(c.text), c.line, c.column, *keep_ast, true));
        }
    }
    o.log.push3("annotation".into(), "tree".into(), if pattern_agrees { "tree".into() } else { "pattern-differs".into() });
    let n_ann = flat.iter().filter(|x| !x.3).count();
    o.log.add("annotation_tokens", n_ann as u64);
    let mut m = Migrator::new(&o.metadata);
    let r = panic::catch_unwind(panic::AssertUnwindSafe(|| {
        m.migrate(&old.veryl, src);
        m.as_str().to_string()
    }));
    let out = match r {
        Ok(x) => x,
        Err(_) => {
            o.log.push3("mig - []".into(), "panic".into(), "?".into());
            return;
        }
    };
    let toks = format!(
        "[{}]",
        flat.iter().map(|(t, l, c, k, _)| format!("{}:{:x}:{:x}:{}", hx(t), l, c, *k as u8)).collect::<Vec<_>>().join(",")
    );
    o.log.push3(format!("mig {} {}", hx(src), toks), hx(&out), "?".into());
    // the positions the old parser reports must be the true (line, column[chars]) of every token,
    // found by scanning the source (its comment-splitting copy once counted bytes)
    match true_positions(src, &flat) {
        Some(tr) => {
            let bad = tr.iter().zip(flat.iter()).position(|((l, c), f)| *l != f.1 as usize || *c != f.2 as usize);
            let imp = match bad {
                None => "same".to_string(),
                Some(k) => format!("differ@{k:x}:{}:reported={:x}.{:x}:true={:x}.{:x}", hx(&flat[k].0), flat[k].1, flat[k].2, tr[k].0, tr[k].1),
            };
            o.log.push3("positions".into(), imp, "same".into());
        }
        None => {
            o.log.count("true_positions_unavailable");
            o.log.push3("positions".into(), "?".into(), "?".into());
        }
    }
    let exp_tokens: Vec<String> = flat.iter().filter(|x| x.3 && !x.4 && !x.0.is_empty()).map(|x| x.0.clone()).collect();
    let exp_comments: Vec<String> = flat.iter().filter(|x| x.4).map(|x| x.0.clone()).collect();
    debug_assert!(exp_comments.iter().all(|c| is_comment(c)));
    match new_parse(&out) {
        Some((t, c, _)) => {
            o.log.push3("parse".into(), "ok".into(), "ok".into());
            o.log.push3("tokens".into(), list(&t), list(&exp_tokens));
            o.log.push3("comments".into(), list(&c), list(&exp_comments));
        }
        None => {
            o.log.push3("parse".into(), "err".into(), "ok".into());
            o.log.push3("tokens".into(), "-".into(), list(&exp_tokens));
            o.log.push3("comments".into(), "-".into(), list(&exp_comments));
        }
    }
    o.log.sample(format!("{tag}: {} bytes, {} annotation tokens", src.len(), n_ann));
}

// ------------------------------------------------------------------------------------------------
// generators
// ------------------------------------------------------------------------------------------------

const ANN: &[&str] = &[": u32", ": i32", ": u8", ": u64", ":u32", " : i64", ": logic<8>", ": bit<4>", ": signed logic<8>", ":  u32 "];
const ANN_COMMENT: &[&str] = &[": /* c */ u32", ": u32 /* é */", " /* k */ : u32", ": // c\n u32", ": logic /* w */ <8>"];

const COMMENTS: &[&str] = &[
    "/* é */ ",
    "/* 日本語 */ ",
    "/* 日本語 */ /* b */ ",
    "// ünï\n",
    "/* multi\n  é */ /* x */ ",
    "/* a\n b */ ",
    "/// doc é\n",
    "/* a */ ",
    "// plain\n",
    "/*é*/",
];

const WITNESSES: &[&str] = &[
    // the two unit tests of the migrator
    "\n    module A {\n        always_comb {\n            for i: u32 in 0..10 {\n            }\n        }\n    }",
    "\n    module A {\n        always_comb {\n            for i: i32 in rev 0..10 {\n            }\n        }\n    }",
    // T3: byte columns after a multi-byte comment / string
    "module A {\n    always_comb {\n        for i: u32 in 0..2 { /* 日本語 */ if a { b = 1; } }\n    }\n}\n",
    "module A {\n    var a: /* 日本語 */ signed logic;\n    always_comb {\n        for i: u32 in 0..2 { }\n    }\n}\n",
    "module A {\n    const S: string = \"日本語\"; var a: signed logic;\n    always_comb {\n        for i: u32 in 0..2 { }\n    }\n}\n",
    "module A {\n    always_comb {\n        /* é */ for i: u32 in 0..2 { }\n    }\n}\n",
    // the old parser's own byte-counted comment column (second comment after a multi-byte one)
    "/* 日本語 */ /* b */ module A {\n    always_comb {\n        for i: u32 in 0..2 { }\n    }\n}\n",
    // comments inside the annotation
    "module A {\n    always_comb {\n        for i: /* c */ u32 in 0..2 { }\n    }\n}\n",
    "module A {\n    always_comb {\n        for i: u32 /* c */ in 0..2 { }\n    }\n}\n",
    "module A {\n    always_comb {\n        for i /* k */ : u32 in 0..2 { }\n    }\n}\n",
    // multi-line comment followed by a token on its last line
    "module A {\n    always_comb {\n        /* a\n b */ for i: u32 in 0..2 { }\n    }\n}\n",
    // comment run ending in a line feed, next token `/`: scnr2 reports it on the previous line (C12 KEY_SCNR)
    "module A {\n    always_comb { for i: u32 in 0..2 { } }\n    assign b = a /* c */\n/ 1;\n}\n",
    "module A {\n    always_comb { for i: u32 in 0..2 { } }\n    assign b = a // c\n/ 1;\n}\n",
    // CRLF
    "module A {\r\n    always_comb {\r\n        for i: u32 in 0..2 { // c\r\n        }\r\n    }\r\n}\r\n",
    // old-only lexical forms (string escapes the current grammar rejects)
    "module A {\n    const S: string = \"a\\rb\";\n    always_comb {\n        for i: u32 in 0..2 { }\n    }\n}\n",
    "module A {\n    const S: string = \"a\\/b\";\n}\n",
    // an identifier that became a keyword
    "module A {\n    var mixin: logic;\n    always_comb {\n        for i: u32 in 0..2 { }\n    }\n}\n",
    // nested and generate-for (no annotation in either grammar)
    "module A {\n    for g in 0..2 :lbl {\n        always_comb {\n            for i: u32 in 0..2 { for j: u8 in 0..3 step += 1 { } }\n        }\n    }\n}\n",
    // current grammar: untouched
    "module A {\n    always_comb {\n        for i in 0..2 { }\n    }\n}\n",
];

fn files() -> Vec<(String, String)> {
    let mut v = vec![];
    if let Ok(rd) = std::fs::read_dir("/repo/testcases/veryl") {
        for e in rd.flatten() {
            if e.path().extension().is_some_and(|x| x == "veryl") {
                if let Ok(s) = std::fs::read_to_string(e.path()) {
                    v.push((e.path().file_name().unwrap().to_string_lossy().to_string(), s));
                }
            }
        }
    }
    v.sort();
    v
}

/// Rewrite a current-grammar text to the old syntax: `for i in` -> `for i<annotation> in`.
/// Returns None if it has no `for` statement.
fn to_old(src: &str, rng: &mut Rng, with_comments: bool) -> Option<(String, Vec<usize>)> {
    let (_, _, c) = new_parse(src)?;
    if c.for_idents.is_empty() {
        // no `for` statement: make the file old-grammar-only by appending one
        let a = *rng.pick(ANN);
        let mut s = src.to_string();
        if !s.ends_with('\n') {
            s.push('\n');
        }
        s.push_str(&format!("module VerifMigrate {{\n    always_comb {{\n        for i{a} in 0..2 {{\n        }}\n    }}\n}}\n"));
        return Some((s, vec![]));
    }
    let mut pts = c.for_idents.clone();
    pts.sort();
    pts.reverse();
    let mut s = src.to_string();
    for p in pts {
        let a = if with_comments && rng.chance(1, 3) { *rng.pick(ANN_COMMENT) } else { *rng.pick(ANN) };
        s.insert_str(p, a);
    }
    // token starts of the original (for mutations), shifted lazily: recompute on the new text's old parse
    let starts = vec![];
    Some((s, starts))
}

fn old_token_starts(src: &str) -> (Vec<usize>, Vec<usize>) {
    // positions of old tokens (ordinary tokens carry parol's byte offsets)
    let Ok(Ok(p)) = panic::catch_unwind(|| OldParser::parse(src, &"t.veryl")) else {
        return (vec![], vec![]);
    };
    let mut oc = OldCollect::default();
    oc.veryl(&p.veryl);
    let mut starts = vec![];
    let mut strs = vec![];
    for (t, _, _) in &oc.toks {
        let text = s(t.text);
        let pos = t.pos as usize;
        if text.is_empty() || !src.is_char_boundary(pos) || !src[pos..].starts_with(&text) {
            continue;
        }
        starts.push(pos);
        if text.starts_with('"') && text.len() >= 2 {
            strs.push(pos + 1);
        }
    }
    (starts, strs)
}

fn mutate(src: &str, starts: &[usize], strs: &[usize], rng: &mut Rng) -> (String, &'static str) {
    let mut ins: Vec<(usize, String)> = vec![];
    let mut tag = "old_comments";
    let n = 1 + rng.below(5);
    match rng.below(4) {
        0 | 1 => {
            for _ in 0..n {
                if !starts.is_empty() {
                    ins.push((*rng.pick(starts), rng.pick(COMMENTS).to_string()));
                }
            }
        }
        2 => {
            tag = "old_strings";
            for _ in 0..n {
                if !strs.is_empty() {
                    ins.push((*rng.pick(strs), rng.pick(&["é", "日本", "😀", "Ω"]).to_string()));
                }
            }
            if !starts.is_empty() {
                ins.push((*rng.pick(starts), rng.pick(COMMENTS).to_string()));
            }
        }
        _ => {
            tag = "old_ascii_comments";
            for _ in 0..n {
                if !starts.is_empty() {
                    ins.push((*rng.pick(starts), rng.pick(&["/* a */ ", "// plain\n", "/* a */ /* b */ ", "/* a\n b */\n"]).to_string()));
                }
            }
        }
    }
    ins.sort_by(|a, b| b.0.cmp(&a.0));
    let mut s = src.to_string();
    for (p, t) in ins {
        s.insert_str(p, &t);
    }
    if rng.chance(1, 4) {
        s = s.replace("\r\n", "\n").replace('\n', "\r\n");
        tag = match tag {
            "old_comments" => "old_comments_crlf",
            "old_strings" => "old_strings_crlf",
            _ => "old_ascii_comments_crlf",
        };
    }
    (s, tag)
}

fn gen_small(rng: &mut Rng) -> String {
    let gaps = [" ", " ", "\n", "  ", "\n    ", " /* é */ ", " /* a */ ", " // c é\n", " /* x\n y */ ", " /* 日本 */ "];
    let g = |rng: &mut Rng| rng.pick(&gaps).to_string();
    let mut s = String::from("module M {\n");
    if rng.chance(1, 2) {
        s.push_str(&format!("    const S: string ={}\"{}\";{}var a:{}signed logic;\n", g(rng), rng.pick(&["é", "a", "日本 x", ""]), g(rng), g(rng)));
    }
    s.push_str("    always_comb {");
    for i in 0..(1 + rng.below(3)) {
        s.push_str(&g(rng));
        s.push_str(&format!("for{}i{i}{}{} in{}0..{} {{", g(rng), rng.pick(ANN), g(rng), g(rng), 1 + rng.below(9)));
        if rng.chance(1, 2) {
            s.push_str(&format!("{}if{}x{} {{ y = {}; }}", g(rng), g(rng), g(rng), i));
        }
        s.push_str(&g(rng));
        s.push('}');
    }
    s.push_str("\n    }\n}\n");
    s
}

pub fn main(opts: &Opts) -> i32 {
    panic::set_hook(Box::new(|_| {}));
    let out = opts.out();
    let seed = opts.seed();
    let n = opts.num("n", 200) as usize;
    let replay = opts.get("replay").map(|s| s.to_string());
    let handle = std::thread::Builder::new()
        .stack_size(512 * 1024 * 1024)
        .spawn(move || {
            let mut rng = Rng::new(seed);
            let mut o = Out { log: Log::new(), metadata: Metadata::create_default("prj").unwrap() };
            if let Some(f) = replay {
                let body = std::fs::read_to_string(&f).unwrap_or_default();
                for line in body.lines() {
                    let t: Vec<&str> = line.split_whitespace().collect();
                    match t.as_slice() {
                        ["case", h] => match unhex(h) {
                            Some(s) => run_case(&mut o, &s, "replay"),
                            None => o.log.push3(line.to_string(), "bad-op".into(), "?".into()),
                        },
                        ["reparse", h] => match unhex(h) {
                            Some(s) => {
                                let r = match new_parse(&s) {
                                    Some((t, c, _)) => format!("ok {} {}", list(&t), list(&c)),
                                    None => "err".to_string(),
                                };
                                o.log.push3(line.to_string(), r, "?".into());
                            }
                            None => o.log.push3(line.to_string(), "bad-op".into(), "?".into()),
                        },
                        _ => {}
                    }
                }
            } else {
                for w in WITNESSES {
                    run_case(&mut o, w, "witness");
                }
                let fs = files();
                let mut olds: Vec<String> = vec![];
                for (_, s) in &fs {
                    // current grammar: must be left alone
                    run_case(&mut o, s, "current");
                    if let Some((old, _)) = to_old(s, &mut rng, false) {
                        run_case(&mut o, &old, "old");
                        olds.push(old);
                    }
                }
                let anchors: Vec<(Vec<usize>, Vec<usize>)> = olds.iter().map(|s| old_token_starts(s)).collect();
                let mut i = 0;
                while i < n && !olds.is_empty() {
                    let k = i % olds.len();
                    let (m, tag) = mutate(&olds[k], &anchors[k].0, &anchors[k].1, &mut rng);
                    run_case(&mut o, &m, tag);
                    i += 1;
                }
                // annotations with comments inside
                for (_, s) in fs.iter() {
                    if let Some((old, _)) = to_old(s, &mut rng, true) {
                        run_case(&mut o, &old, "old_annotation_comments");
                    }
                }
                for _ in 0..n {
                    let s = gen_small(&mut rng);
                    run_case(&mut o, &s, "generated");
                }
            }
            o.log.write(&out);
            0
        })
        .unwrap();
    handle.join().unwrap_or(3)
}
