//! `hx cdc` — clock-domain-crossing checks (C16).
//!
//! A design is a list of variables with declared clock domains and a list of module items
//! (assign / always_comb / always_ff / inst) in the protocol of `lean/VerylModel/Driver/Cdc.lean`.
//! Every design is rendered to Veryl source (one check-carrying item per line), run through the real
//! analyzer, and the `MismatchClockDomain` diagnostics are mapped back to item tags by source line.
//!
//! Requests: `d <env> <items>` — every diagnostic `tag:lhs>rhs` (domains by class), sorted;
//!           `f <env> <items>` — the module items (index in hex, `H` = an always_ff header) that are
//!                               rejected. Oracle for `f` lines of the clean stratum S0 (all
//!                               domains explicit, no else-if / switch, non-constant first instance
//!                               connection): an item is rejected iff it is outside `unsafe (cdc)`
//!                               and some statement in it combines signals of two domains.
use crate::rng::Rng;
use crate::util::{Log, Opts};
use std::collections::{BTreeMap, BTreeSet};
use std::fmt::Write as _;
use veryl_analyzer::ir::Ir;
use veryl_analyzer::{Analyzer, AnalyzerError, Context, attribute_table, symbol_table};
use veryl_metadata::Metadata;
use veryl_parser::Parser;

pub fn analyze(code: &str) -> Result<Vec<AnalyzerError>, String> {
    let r = std::panic::catch_unwind(|| {
        symbol_table::clear();
        attribute_table::clear();
        veryl_analyzer::unsafe_table::clear();
        let metadata = Metadata::create_default("prj").map_err(|e| e.to_string())?;
        let parser = Parser::parse(code, &"").map_err(|e| format!("parse: {e}"))?;
        let analyzer = Analyzer::new(&metadata);
        // `Analyzer::clear` leaves the position-keyed tables alone (a process normally parses a
        // file once); this harness analyses many unrelated sources in one process.
        analyzer.clear();
        veryl_analyzer::unsafe_table::clear();
        veryl_analyzer::connect_operation_table::clear();
        veryl_parser::doc_comment_table::clear();
        let mut context = Context::default();
        let mut ir = Ir::default();
        let mut errors = vec![];
        errors.append(&mut analyzer.analyze_pass1("prj", &parser.veryl));
        errors.append(&mut Analyzer::analyze_post_pass1());
        errors.append(&mut analyzer.analyze_pass2(&parser.veryl, &mut context, Some(&mut ir)));
        errors.append(&mut Analyzer::analyze_post_pass2(&ir));
        Ok(errors)
    });
    match r {
        Ok(x) => x,
        Err(_) => Err("panic".to_string()),
    }
}

// ------------------------------------------------------------------------------------------------
// model-language AST
// ------------------------------------------------------------------------------------------------

#[derive(Clone, Copy, PartialEq, Eq, Debug)]
pub enum Dom {
    E(u32),
    M,
    N,
}

#[derive(Clone, Debug)]
pub enum Leaf {
    C,
    V(usize),
}

#[derive(Clone, Debug)]
pub enum Expr {
    L(Leaf),
    U(Box<Expr>),
    B(Box<Expr>, Box<Expr>),
    T(Box<Expr>, Box<Expr>, Box<Expr>),
    N(Leaf, Vec<Expr>),
}

type Block = Vec<Stmt>;
type Arms = Vec<(Expr, Block)>;

#[derive(Clone, Debug)]
pub enum Stmt {
    A(usize, Expr),
    I(Expr, Block, Arms, Block),
    C(Expr, Vec<Block>),
    S(Arms, Block),
}

#[derive(Clone, Debug)]
pub enum Item {
    A(bool, usize, Expr),
    K(bool, Block),
    F(bool, usize, Option<usize>, Block),
    Inst(bool, Vec<(u32, Expr)>),
}

pub struct Design {
    pub env: Vec<Dom>,
    pub items: Vec<Item>,
}

// ---- printing (protocol) ------------------------------------------------------------------------

fn p_leaf(l: &Leaf, s: &mut String) {
    match l {
        Leaf::C => s.push('c'),
        Leaf::V(v) => write!(s, "v{v:x}").unwrap(),
    }
}

fn p_expr(e: &Expr, s: &mut String) {
    match e {
        Expr::L(l) => p_leaf(l, s),
        Expr::U(x) => {
            s.push_str("U(");
            p_expr(x, s);
            s.push(')');
        }
        Expr::B(x, y) => {
            s.push_str("B(");
            p_expr(x, s);
            s.push(',');
            p_expr(y, s);
            s.push(')');
        }
        Expr::T(x, y, z) => {
            s.push_str("T(");
            p_expr(x, s);
            s.push(',');
            p_expr(y, s);
            s.push(',');
            p_expr(z, s);
            s.push(')');
        }
        Expr::N(l, es) => {
            s.push_str("N(");
            p_leaf(l, s);
            for e in es {
                s.push(',');
                p_expr(e, s);
            }
            s.push(')');
        }
    }
}

fn p_block(b: &Block, s: &mut String) {
    s.push('{');
    for st in b {
        p_stmt(st, s);
    }
    s.push('}');
}

fn p_arms(a: &Arms, s: &mut String) {
    s.push('<');
    for (c, b) in a {
        s.push('(');
        p_expr(c, s);
        s.push(')');
        p_block(b, s);
    }
    s.push('>');
}

fn p_stmt(st: &Stmt, s: &mut String) {
    match st {
        Stmt::A(d, e) => {
            write!(s, "A({d:x},").unwrap();
            p_expr(e, s);
            s.push(')');
        }
        Stmt::I(c, t, a, e) => {
            s.push_str("I(");
            p_expr(c, s);
            s.push(')');
            p_block(t, s);
            p_arms(a, s);
            p_block(e, s);
        }
        Stmt::C(c, bs) => {
            s.push_str("C(");
            p_expr(c, s);
            s.push_str(")[");
            for b in bs {
                p_block(b, s);
            }
            s.push(']');
        }
        Stmt::S(a, d) => {
            s.push('S');
            p_arms(a, s);
            p_block(d, s);
        }
    }
}

fn p_item(it: &Item, s: &mut String) {
    let f = |u: &bool| if *u { '1' } else { '0' };
    match it {
        Item::A(u, d, e) => {
            write!(s, "a{}({d:x},", f(u)).unwrap();
            p_expr(e, s);
            s.push(')');
        }
        Item::K(u, b) => {
            write!(s, "k{}", f(u)).unwrap();
            p_block(b, s);
        }
        Item::F(u, c, r, b) => {
            write!(s, "f{}({c:x},", f(u)).unwrap();
            match r {
                Some(r) => write!(s, "{r:x}").unwrap(),
                None => s.push('-'),
            }
            s.push(')');
            p_block(b, s);
        }
        Item::Inst(u, cs) => {
            write!(s, "i{}(", f(u)).unwrap();
            for (i, (k, e)) in cs.iter().enumerate() {
                if i > 0 {
                    s.push(',');
                }
                write!(s, "{k:x}:").unwrap();
                p_expr(e, s);
            }
            s.push(')');
        }
    }
}

impl Design {
    pub fn env_str(&self) -> String {
        let v: Vec<String> = self
            .env
            .iter()
            .map(|d| match d {
                Dom::E(i) => format!("e{i:x}"),
                Dom::M => "m".into(),
                Dom::N => "n".into(),
            })
            .collect();
        format!("[{}]", v.join(","))
    }
    pub fn items_str(&self) -> String {
        if self.items.is_empty() {
            return "-".into();
        }
        let mut s = String::new();
        for (i, it) in self.items.iter().enumerate() {
            if i > 0 {
                s.push(';');
            }
            p_item(it, &mut s);
        }
        s
    }
}

// ---- parsing (protocol, for --replay) -----------------------------------------------------------

struct Ps<'a> {
    s: &'a [u8],
    i: usize,
}

impl<'a> Ps<'a> {
    fn peek(&self) -> Option<u8> {
        self.s.get(self.i).copied()
    }
    fn eat(&mut self, c: u8) -> Option<()> {
        if self.peek() == Some(c) {
            self.i += 1;
            Some(())
        } else {
            None
        }
    }
    fn hex(&mut self) -> Option<usize> {
        let st = self.i;
        while let Some(c) = self.peek() {
            if c.is_ascii_digit() || (b'a'..=b'f').contains(&c) {
                self.i += 1;
            } else {
                break;
            }
        }
        if st == self.i {
            return None;
        }
        usize::from_str_radix(std::str::from_utf8(&self.s[st..self.i]).ok()?, 16).ok()
    }
    fn leaf(&mut self) -> Option<Leaf> {
        match self.peek()? {
            b'c' => {
                self.i += 1;
                Some(Leaf::C)
            }
            b'v' => {
                self.i += 1;
                Some(Leaf::V(self.hex()?))
            }
            _ => None,
        }
    }
    fn expr(&mut self) -> Option<Expr> {
        match self.peek()? {
            b'U' => {
                self.i += 1;
                self.eat(b'(')?;
                let x = self.expr()?;
                self.eat(b')')?;
                Some(Expr::U(Box::new(x)))
            }
            b'B' => {
                self.i += 1;
                self.eat(b'(')?;
                let x = self.expr()?;
                self.eat(b',')?;
                let y = self.expr()?;
                self.eat(b')')?;
                Some(Expr::B(Box::new(x), Box::new(y)))
            }
            b'T' => {
                self.i += 1;
                self.eat(b'(')?;
                let x = self.expr()?;
                self.eat(b',')?;
                let y = self.expr()?;
                self.eat(b',')?;
                let z = self.expr()?;
                self.eat(b')')?;
                Some(Expr::T(Box::new(x), Box::new(y), Box::new(z)))
            }
            b'N' => {
                self.i += 1;
                self.eat(b'(')?;
                let l = self.leaf()?;
                let mut es = vec![];
                while self.peek() == Some(b',') {
                    self.i += 1;
                    es.push(self.expr()?);
                }
                self.eat(b')')?;
                Some(Expr::N(l, es))
            }
            _ => Some(Expr::L(self.leaf()?)),
        }
    }
    fn block(&mut self) -> Option<Block> {
        self.eat(b'{')?;
        let mut b = vec![];
        while self.peek()? != b'}' {
            b.push(self.stmt()?);
        }
        self.i += 1;
        Some(b)
    }
    fn arms(&mut self) -> Option<Arms> {
        self.eat(b'<')?;
        let mut a = vec![];
        while self.peek()? != b'>' {
            self.eat(b'(')?;
            let c = self.expr()?;
            self.eat(b')')?;
            a.push((c, self.block()?));
        }
        self.i += 1;
        Some(a)
    }
    fn stmt(&mut self) -> Option<Stmt> {
        match self.peek()? {
            b'A' => {
                self.i += 1;
                self.eat(b'(')?;
                let d = self.hex()?;
                self.eat(b',')?;
                let e = self.expr()?;
                self.eat(b')')?;
                Some(Stmt::A(d, e))
            }
            b'I' => {
                self.i += 1;
                self.eat(b'(')?;
                let c = self.expr()?;
                self.eat(b')')?;
                let t = self.block()?;
                let a = self.arms()?;
                let e = self.block()?;
                Some(Stmt::I(c, t, a, e))
            }
            b'C' => {
                self.i += 1;
                self.eat(b'(')?;
                let c = self.expr()?;
                self.eat(b')')?;
                self.eat(b'[')?;
                let mut bs = vec![];
                while self.peek()? == b'{' {
                    bs.push(self.block()?);
                }
                self.eat(b']')?;
                Some(Stmt::C(c, bs))
            }
            b'S' => {
                self.i += 1;
                let a = self.arms()?;
                let d = self.block()?;
                Some(Stmt::S(a, d))
            }
            _ => None,
        }
    }
    fn flag(&mut self) -> Option<bool> {
        match self.peek()? {
            b'0' => {
                self.i += 1;
                Some(false)
            }
            b'1' => {
                self.i += 1;
                Some(true)
            }
            _ => None,
        }
    }
    fn item(&mut self) -> Option<Item> {
        match self.peek()? {
            b'a' => {
                self.i += 1;
                let u = self.flag()?;
                self.eat(b'(')?;
                let d = self.hex()?;
                self.eat(b',')?;
                let e = self.expr()?;
                self.eat(b')')?;
                Some(Item::A(u, d, e))
            }
            b'k' => {
                self.i += 1;
                let u = self.flag()?;
                Some(Item::K(u, self.block()?))
            }
            b'f' => {
                self.i += 1;
                let u = self.flag()?;
                self.eat(b'(')?;
                let c = self.hex()?;
                self.eat(b',')?;
                let r = if self.peek()? == b'-' {
                    self.i += 1;
                    None
                } else {
                    Some(self.hex()?)
                };
                self.eat(b')')?;
                Some(Item::F(u, c, r, self.block()?))
            }
            b'i' => {
                self.i += 1;
                let u = self.flag()?;
                self.eat(b'(')?;
                let mut cs = vec![];
                loop {
                    let k = self.hex()?;
                    self.eat(b':')?;
                    cs.push((k as u32, self.expr()?));
                    if self.peek()? == b',' {
                        self.i += 1;
                    } else {
                        break;
                    }
                }
                self.eat(b')')?;
                Some(Item::Inst(u, cs))
            }
            _ => None,
        }
    }
}

pub fn parse_design(env: &str, items: &str) -> Option<Design> {
    let inner = env.strip_prefix('[')?.strip_suffix(']')?;
    let mut e = vec![];
    if !inner.is_empty() {
        for t in inner.split(',') {
            e.push(match t {
                "m" => Dom::M,
                "n" => Dom::N,
                _ => Dom::E(u32::from_str_radix(t.strip_prefix('e')?, 16).ok()?),
            });
        }
    }
    let mut its = vec![];
    if items != "-" {
        let mut p = Ps { s: items.as_bytes(), i: 0 };
        loop {
            its.push(p.item()?);
            if p.peek() == Some(b';') {
                p.i += 1;
            } else {
                break;
            }
        }
        if p.i != p.s.len() {
            return None;
        }
    }
    Some(Design { env: e, items: its })
}

// ------------------------------------------------------------------------------------------------
// usage analysis + rendering to Veryl
// ------------------------------------------------------------------------------------------------

#[derive(Default, Clone)]
struct Usage {
    clock: bool,
    reset: bool,
    written: u32,
    read: bool,
    indexed: bool,             // used as the base of a select `v[e]`
    blocks: BTreeSet<usize>,   // always-block items mentioning it
    outside_block: bool,       // mentioned by assign / inst items
    inst_out: Option<(usize, usize)>,
}

fn leaf_vars(e: &Expr, f: &mut dyn FnMut(usize, bool)) {
    match e {
        Expr::L(Leaf::V(v)) => f(*v, false),
        Expr::L(Leaf::C) => {}
        Expr::U(x) => leaf_vars(x, f),
        Expr::B(x, y) => {
            leaf_vars(x, f);
            leaf_vars(y, f);
        }
        Expr::T(x, y, z) => {
            leaf_vars(x, f);
            leaf_vars(y, f);
            leaf_vars(z, f);
        }
        Expr::N(l, es) => {
            if let Leaf::V(v) = l {
                f(*v, !es.is_empty());
            }
            for e in es {
                leaf_vars(e, f);
            }
        }
    }
}

fn stmt_visit(b: &Block, fe: &mut dyn FnMut(&Expr), fd: &mut dyn FnMut(usize)) {
    for s in b {
        match s {
            Stmt::A(d, e) => {
                fe(e);
                fd(*d);
            }
            Stmt::I(c, t, a, e) => {
                fe(c);
                stmt_visit(t, fe, fd);
                for (c, b) in a {
                    fe(c);
                    stmt_visit(b, fe, fd);
                }
                stmt_visit(e, fe, fd);
            }
            Stmt::C(c, bs) => {
                fe(c);
                for b in bs {
                    stmt_visit(b, fe, fd);
                }
            }
            Stmt::S(a, d) => {
                for (c, b) in a {
                    fe(c);
                    stmt_visit(b, fe, fd);
                }
                stmt_visit(d, fe, fd);
            }
        }
    }
}

struct Rendered {
    src: String,
    /// per source line (0-based): (tag, module item index) — tag 0 for declaration lines
    line_tag: Vec<(u32, Option<usize>)>,
}

const DOM_NAMES: [&str; 6] = ["_", "a", "b", "c", "d", "e"];

fn dom_name(id: u32) -> String {
    if (id as usize) < DOM_NAMES.len() && id > 0 {
        DOM_NAMES[id as usize].to_string()
    } else {
        format!("z{id}")
    }
}

fn dom_annot(d: Dom) -> String {
    match d {
        Dom::E(i) => format!("'{} ", dom_name(i)),
        Dom::M => String::new(),
        Dom::N => String::new(),
    }
}

struct Names {
    names: Vec<String>,
    indexed: Vec<bool>,
}

impl Names {
    fn leaf(&self, l: &Leaf) -> String {
        match l {
            Leaf::C => "1'b1".into(),
            Leaf::V(v) => {
                if self.indexed[*v] {
                    format!("{}[0]", self.names[*v])
                } else {
                    self.names[*v].clone()
                }
            }
        }
    }
    fn dst(&self, v: usize) -> String {
        if self.indexed[v] { format!("{}[0]", self.names[v]) } else { self.names[v].clone() }
    }
    fn expr(&self, e: &Expr, salt: &mut u32) -> String {
        *salt = salt.wrapping_mul(31).wrapping_add(7);
        match e {
            Expr::L(l) => self.leaf(l),
            Expr::U(x) => format!("(~{})", self.expr(x, salt)),
            Expr::B(x, y) => {
                let op = ["&", "|", "^"][(*salt % 3) as usize];
                format!("({} {} {})", self.expr(x, salt), op, self.expr(y, salt))
            }
            Expr::T(x, y, z) => {
                format!("(if {} ? {} : {})", self.expr(x, salt), self.expr(y, salt), self.expr(z, salt))
            }
            Expr::N(Leaf::C, es) => {
                let parts: Vec<String> = es.iter().map(|e| self.expr(e, salt)).collect();
                format!("(|{{{}}})", parts.join(", "))
            }
            Expr::N(Leaf::V(v), es) => {
                if es.is_empty() {
                    self.leaf(&Leaf::V(*v))
                } else {
                    format!("{}[{}]", self.names[*v], self.expr(&es[0], salt))
                }
            }
        }
    }
}

/// `Err(reason)`: the design cannot be written as Veryl in this scheme.
fn render(d: &Design) -> Result<Rendered, String> {
    let n = d.env.len();
    let mut us = vec![Usage::default(); n];
    let chk = |v: usize| if v < n { Ok(()) } else { Err(format!("var {v} out of range")) };
    // usage
    for (ii, it) in d.items.iter().enumerate() {
        let mut err = None;
        let mut on_expr = |e: &Expr, us: &mut Vec<Usage>, in_block: bool| {
            leaf_vars(e, &mut |v, idx| {
                if v >= n {
                    err = Some(format!("var {v} out of range"));
                    return;
                }
                us[v].read = true;
                us[v].indexed |= idx;
                if in_block {
                    us[v].blocks.insert(ii);
                } else {
                    us[v].outside_block = true;
                }
            });
        };
        match it {
            Item::A(_, dst, e) => {
                chk(*dst)?;
                on_expr(e, &mut us, false);
                us[*dst].written += 1;
                us[*dst].outside_block = true;
            }
            Item::K(_, b) | Item::F(_, _, _, b) => {
                if let Item::F(_, c, r, _) = it {
                    chk(*c)?;
                    us[*c].clock = true;
                    if let Some(r) = r {
                        chk(*r)?;
                        us[*r].reset = true;
                    }
                }
                let mut exprs = vec![];
                let mut dsts = vec![];
                stmt_visit(b, &mut |e| exprs.push(e.clone()), &mut |v| dsts.push(v));
                for e in &exprs {
                    on_expr(e, &mut us, true);
                }
                for v in dsts {
                    chk(v)?;
                    us[v].written += 1;
                    us[v].blocks.insert(ii);
                }
            }
            Item::Inst(_, cs) => {
                if cs.is_empty() {
                    return Err("empty inst".into());
                }
                for (_, e) in cs {
                    on_expr(e, &mut us, false);
                }
            }
        }
        if let Some(e) = err {
            return Err(e);
        }
    }
    // constant conditions are folded away by the analyzer (`eval_cond_true_false`)
    {
        fn has_var(e: &Expr) -> bool {
            let mut f = false;
            leaf_vars(e, &mut |_, _| f = true);
            f
        }
        fn conds_ok(b: &Block) -> bool {
            b.iter().all(|s| match s {
                Stmt::A(..) => true,
                Stmt::I(c, t, a, e) => has_var(c) && conds_ok(t) && a.iter().all(|(c, b)| has_var(c) && conds_ok(b)) && conds_ok(e),
                Stmt::C(c, bs) => has_var(c) && bs.iter().all(conds_ok),
                Stmt::S(a, d) => a.iter().all(|(c, b)| has_var(c) && conds_ok(b)) && conds_ok(d),
            })
        }
        for it in &d.items {
            if let Item::K(_, b) | Item::F(_, _, _, b) = it {
                if !conds_ok(b) {
                    return Err("constant condition".into());
                }
            }
        }
    }
    // instance outputs: last connection, a bare variable with a domain that nothing else writes
    for (ii, it) in d.items.iter().enumerate() {
        if let Item::Inst(_, cs) = it {
            let k = cs.len() - 1;
            if let Expr::L(Leaf::V(v)) = &cs[k].1 {
                let u = &us[*v];
                if u.written == 0 && !u.clock && !u.reset && d.env[*v] != Dom::N && !u.indexed && cs.len() > 1 {
                    us[*v].inst_out = Some((ii, k));
                    us[*v].written += 1;
                }
            }
        }
    }
    // names + declarations
    let mut names = vec![String::new(); n];
    let mut ports: Vec<String> = vec![];
    let mut decls: Vec<String> = vec![];
    let mut locals: BTreeMap<usize, Vec<String>> = BTreeMap::new();
    for v in 0..n {
        let u = &us[v];
        let dom = d.env[v];
        let ty = if u.indexed { "logic<2>" } else { "logic" };
        if u.clock || u.reset {
            if u.clock && u.reset {
                return Err("clock and reset".into());
            }
            if u.written > 0 || dom == Dom::N || u.indexed {
                return Err("clock/reset written or without domain".into());
            }
            let kind = if u.clock { "clock" } else { "reset" };
            names[v] = format!("{}{v}", if u.clock { "ck_" } else { "rs_" });
            ports.push(format!("{}: input {}{}", names[v], dom_annot(dom), kind));
        } else if u.written == 0 {
            if dom == Dom::N && !u.read {
                // never mentioned: nothing to declare
                names[v] = format!("t_{v}");
            } else if dom == Dom::N {
                // a block-local variable that is only read
                if u.outside_block || u.blocks.len() != 1 {
                    return Err("domain-less variable outside one always block".into());
                }
                names[v] = format!("t_{v}");
                locals.entry(*u.blocks.iter().next().unwrap()).or_default().push(format!("var t_{v}: {ty};"));
            } else {
                names[v] = format!("in_{v}");
                ports.push(format!("in_{v}: input {}{ty}", dom_annot(dom)));
            }
        } else if dom == Dom::N {
            if u.outside_block || u.blocks.len() != 1 {
                return Err("domain-less variable outside one always block".into());
            }
            names[v] = format!("t_{v}");
            locals.entry(*u.blocks.iter().next().unwrap()).or_default().push(format!("var t_{v}: {ty};"));
        } else if v % 3 == 0 && !u.indexed {
            // interface instance member
            names[v] = format!("q_{v}.v");
            decls.push(format!("inst q_{v}: {}Ifc;", dom_annot(dom)));
        } else if !u.read {
            names[v] = format!("out_{v}");
            ports.push(format!("out_{v}: output {}{ty}", dom_annot(dom)));
        } else {
            names[v] = format!("w_{v}");
            decls.push(format!("var w_{v}: {}{ty};", dom_annot(dom)));
        }
    }
    let nm = Names { names, indexed: us.iter().map(|u| u.indexed).collect() };
    let n_clock = us.iter().filter(|u| u.clock).count();
    let n_reset = us.iter().filter(|u| u.reset).count();

    let mut lines: Vec<(String, u32, Option<usize>)> = vec![];
    lines.push(("module Top (".into(), 0, None));
    for p in &ports {
        lines.push((format!("    {p},"), 0, None));
    }
    lines.push((") {".into(), 0, None));
    for x in &decls {
        lines.push((format!("    {x}"), 0, None));
    }
    let mut tag: u32 = 1;
    let mut salt: u32 = 1;
    let mut subs = String::new();

    fn emit_block(
        b: &Block,
        ind: usize,
        nm: &Names,
        tag: &mut u32,
        salt: &mut u32,
        ii: usize,
        lines: &mut Vec<(String, u32, Option<usize>)>,
    ) {
        let pad = " ".repeat(ind);
        for s in b {
            match s {
                Stmt::A(d, e) => {
                    lines.push((format!("{pad}{} = {};", nm.dst(*d), nm.expr(e, salt)), *tag, Some(ii)));
                    *tag += 1;
                }
                Stmt::I(c, t, a, e) => {
                    lines.push((format!("{pad}if {} {{", nm.expr(c, salt)), *tag, Some(ii)));
                    *tag += 1;
                    emit_block(t, ind + 4, nm, tag, salt, ii, lines);
                    for (c, b) in a {
                        lines.push((format!("{pad}}} else if {} {{", nm.expr(c, salt)), *tag, Some(ii)));
                        *tag += 1;
                        emit_block(b, ind + 4, nm, tag, salt, ii, lines);
                    }
                    if !e.is_empty() {
                        lines.push((format!("{pad}}} else {{"), 0, Some(ii)));
                        emit_block(e, ind + 4, nm, tag, salt, ii, lines);
                    }
                    lines.push((format!("{pad}}}"), 0, Some(ii)));
                }
                Stmt::C(c, bs) => {
                    lines.push((format!("{pad}case {} {{", nm.expr(c, salt)), *tag, Some(ii)));
                    *tag += 1;
                    let k = bs.len();
                    for (j, b) in bs.iter().enumerate() {
                        if j + 1 == k {
                            lines.push((format!("{pad}    default: {{"), 0, Some(ii)));
                        } else {
                            lines.push((format!("{pad}    1'd{}: {{", j % 2), 0, Some(ii)));
                        }
                        emit_block(b, ind + 8, nm, tag, salt, ii, lines);
                        lines.push((format!("{pad}    }}"), 0, Some(ii)));
                    }
                    lines.push((format!("{pad}}}"), 0, Some(ii)));
                }
                Stmt::S(a, dflt) => {
                    lines.push((format!("{pad}switch {{"), 0, Some(ii)));
                    for (c, b) in a {
                        lines.push((format!("{pad}    {}: {{", nm.expr(c, salt)), *tag, Some(ii)));
                        *tag += 1;
                        emit_block(b, ind + 8, nm, tag, salt, ii, lines);
                        lines.push((format!("{pad}    }}"), 0, Some(ii)));
                    }
                    lines.push((format!("{pad}    default: {{"), 0, Some(ii)));
                    emit_block(dflt, ind + 8, nm, tag, salt, ii, lines);
                    lines.push((format!("{pad}    }}"), 0, Some(ii)));
                    lines.push((format!("{pad}}}"), 0, Some(ii)));
                }
            }
        }
    }

    for (ii, it) in d.items.iter().enumerate() {
        let u = match it {
            Item::A(u, ..) | Item::K(u, ..) | Item::F(u, ..) | Item::Inst(u, ..) => *u,
        };
        let ind = if u { 8 } else { 4 };
        let pad = " ".repeat(ind);
        if u {
            lines.push(("    unsafe (cdc) {".into(), 0, Some(ii)));
        }
        match it {
            Item::A(_, dst, e) => {
                lines.push((format!("{pad}assign {} = {};", nm.dst(*dst), nm.expr(e, &mut salt)), tag, Some(ii)));
                tag += 1;
            }
            Item::K(_, b) | Item::F(_, _, _, b) => {
                match it {
                    Item::K(..) => lines.push((format!("{pad}always_comb {{"), 0, Some(ii))),
                    Item::F(_, c, r, _) => {
                        // the implicit form needs a unique clock (and reset)
                        let implicit = n_clock == 1 && n_reset <= 1 && (r.is_some() == (n_reset == 1)) && ii % 2 == 1;
                        if implicit {
                            lines.push((format!("{pad}always_ff {{"), 0, Some(ii)));
                        } else if let Some(r) = r {
                            lines.push((format!("{pad}always_ff ({}, {}) {{", nm.names[*c], nm.names[*r]), 0, Some(ii)));
                        } else {
                            lines.push((format!("{pad}always_ff ({}) {{", nm.names[*c]), 0, Some(ii)));
                        }
                    }
                    _ => unreachable!(),
                }
                // the reset is only looked at (and checked against the clock) if the block *starts*
                // with `if_reset` (`has_if_reset` tests the first statement, `eval_reset`): block-local
                // declarations therefore go inside the `else` branch
                let with_reset = matches!(it, Item::F(_, _, Some(_), _));
                let empty = vec![];
                let ls = locals.get(&ii).unwrap_or(&empty);
                if with_reset {
                    lines.push((format!("{pad}    if_reset {{"), 0, Some(ii)));
                    lines.push((format!("{pad}    }} else {{"), 0, Some(ii)));
                    for l in ls {
                        lines.push((format!("{pad}        {l}"), 0, Some(ii)));
                    }
                    emit_block(b, ind + 8, &nm, &mut tag, &mut salt, ii, &mut lines);
                    lines.push((format!("{pad}    }}"), 0, Some(ii)));
                } else {
                    for l in ls {
                        lines.push((format!("{pad}    {l}"), 0, Some(ii)));
                    }
                    emit_block(b, ind + 4, &nm, &mut tag, &mut salt, ii, &mut lines);
                }
                lines.push((format!("{pad}}}"), 0, Some(ii)));
            }
            Item::Inst(_, cs) => {
                lines.push((format!("{pad}inst u_{ii}: Sub_{ii} ("), 0, Some(ii)));
                let mut sub_ports = vec![];
                let mut sub_body = vec![];
                for (k, (key, e)) in cs.iter().enumerate() {
                    let is_out = matches!(e, Expr::L(Leaf::V(v)) if us[*v].inst_out == Some((ii, k)));
                    let annot = if *key == 0 { String::new() } else { format!("'{} ", ["_", "sx", "sy", "sz"][(*key as usize).min(3)]) };
                    if *key > 3 {
                        return Err("inst key".into());
                    }
                    lines.push((format!("{pad}    s_{k}: {},", nm.expr(e, &mut salt)), tag, Some(ii)));
                    tag += 1;
                    if is_out {
                        sub_ports.push(format!("    s_{k}: output {annot}logic,"));
                        // driven from the first input with the same key, if any
                        let src = cs.iter().enumerate().find(|(j, (k2, _))| *j != k && k2 == key).map(|(j, _)| format!("s_{j}"));
                        sub_body.push(format!("    assign s_{k} = {};", src.unwrap_or_else(|| "1'b0".into())));
                    } else {
                        sub_ports.push(format!("    s_{k}: input {annot}logic,"));
                    }
                }
                lines.push((format!("{pad});"), 0, Some(ii)));
                write!(subs, "module Sub_{ii} (\n{}\n) {{\n{}\n}}\n", sub_ports.join("\n"), sub_body.join("\n")).unwrap();
            }
        }
        if u {
            lines.push(("    }".into(), 0, Some(ii)));
        }
    }
    lines.push(("}".into(), 0, None));
    let mut src = String::new();
    let mut line_tag = vec![];
    for (l, t, i) in &lines {
        src.push_str(l);
        src.push('\n');
        line_tag.push((*t, *i));
    }
    let top_lines = line_tag.len();
    src.push_str("interface Ifc {\n    var v: logic;\n}\n");
    src.push_str(&subs);
    let total = src.lines().count();
    for _ in top_lines..total {
        line_tag.push((u32::MAX, None));
    }
    Ok(Rendered { src, line_tag })
}

// ------------------------------------------------------------------------------------------------
// running the real analyzer
// ------------------------------------------------------------------------------------------------

fn cls_of(name: &str) -> String {
    match name {
        "" => "n".into(),
        "'_" => "m".into(),
        _ => {
            let n = name.trim_start_matches('\'');
            for (i, d) in DOM_NAMES.iter().enumerate() {
                if *d == n {
                    return format!("{i:x}");
                }
            }
            if let Some(z) = n.strip_prefix('z') {
                if let Ok(k) = z.parse::<u32>() {
                    return format!("{k:x}");
                }
            }
            format!("?{n}")
        }
    }
}

struct Outcome {
    full: String,
    flags: String,
    other_errors: BTreeSet<String>,
}

fn run_design(d: &Design) -> Outcome {
    let r = match render(d) {
        Ok(r) => r,
        Err(e) => {
            let s = format!("unrenderable:{}", e.replace(' ', "_"));
            return Outcome { full: s.clone(), flags: s, other_errors: BTreeSet::new() };
        }
    };
    if std::env::var("HX_DUMP").is_ok() {
        eprintln!("{}", r.src);
    }
    let errors = match analyze(&r.src) {
        Ok(e) => e,
        Err(e) => {
            let s = if e == "panic" { "panic".to_string() } else { "err".to_string() };
            if std::env::var("HX_DUMP").is_ok() {
                eprintln!("{e}");
            }
            return Outcome { full: s.clone(), flags: s, other_errors: BTreeSet::new() };
        }
    };
    // byte offset -> line
    let mut starts = vec![0usize];
    for (i, b) in r.src.bytes().enumerate() {
        if b == b'\n' {
            starts.push(i + 1);
        }
    }
    let line_of = |off: usize| match starts.binary_search(&off) {
        Ok(i) => i,
        Err(i) => i - 1,
    };
    let mut full = vec![];
    let mut items: BTreeSet<String> = BTreeSet::new();
    let mut other = BTreeSet::new();
    for e in &errors {
        match e {
            AnalyzerError::MismatchClockDomain { clock_domain, other_domain, error_location, other_location, .. } => {
                let l1 = line_of(error_location.offset());
                let l2 = line_of(other_location.offset());
                let (t1, i1) = r.line_tag.get(l1).copied().unwrap_or((u32::MAX, None));
                let (t2, i2) = r.line_tag.get(l2).copied().unwrap_or((u32::MAX, None));
                let (t, i) = if t1 >= t2 { (t1, i1.or(i2)) } else { (t2, i2.or(i1)) };
                if t == u32::MAX {
                    full.push(format!("ffff:{}>{}", cls_of(clock_domain), cls_of(other_domain)));
                    items.insert("X".into());
                } else {
                    full.push(format!("{t:04x}:{}>{}", cls_of(clock_domain), cls_of(other_domain)));
                    if t == 0 {
                        items.insert("H".into());
                    } else if let Some(i) = i {
                        items.insert(format!("{i:04x}"));
                    }
                }
            }
            x => {
                let s = format!("{x:?}");
                other.insert(s.split([' ', '{', '(']).next().unwrap_or("").to_string());
            }
        }
    }
    full.sort();
    Outcome {
        full: format!("[{}]", full.join(",")),
        flags: format!("[{}]", items.into_iter().collect::<Vec<_>>().join(",")),
        other_errors: other,
    }
}

// ------------------------------------------------------------------------------------------------
// oracle (clean stratum S0)
// ------------------------------------------------------------------------------------------------

fn doms_of(e: &Expr, env: &[Dom], out: &mut BTreeSet<u32>) {
    leaf_vars(e, &mut |v, _| {
        if let Dom::E(i) = env[v] {
            out.insert(i);
        }
    });
}

fn has_implicit_or_none(d: &Design) -> bool {
    d.env.iter().any(|x| !matches!(x, Dom::E(_)))
}

fn block_s0(b: &Block) -> bool {
    b.iter().all(|s| match s {
        Stmt::A(..) => true,
        Stmt::I(_, t, a, e) => a.is_empty() && block_s0(t) && block_s0(e),
        Stmt::C(_, bs) => bs.iter().all(block_s0),
        Stmt::S(..) => false,
    })
}

fn in_s0(d: &Design) -> bool {
    !has_implicit_or_none(d)
        && d.items.iter().all(|it| match it {
            Item::A(..) => true,
            Item::K(_, b) | Item::F(_, _, _, b) => block_s0(b),
            Item::Inst(_, cs) => {
                // first connection of every key must carry a domain
                let mut seen = BTreeSet::new();
                cs.iter().all(|(k, e)| {
                    if seen.insert(*k) {
                        let mut s = BTreeSet::new();
                        doms_of(e, &d.env, &mut s);
                        !s.is_empty()
                    } else {
                        true
                    }
                })
            }
        })
}

/// Does some statement of the block combine two domains (given the domains gating it)?
fn block_crossing(b: &Block, env: &[Dom], gate: &BTreeSet<u32>) -> bool {
    b.iter().any(|s| match s {
        Stmt::A(d, e) => {
            let mut s = gate.clone();
            doms_of(e, env, &mut s);
            if let Dom::E(i) = env[*d] {
                s.insert(i);
            }
            s.len() > 1
        }
        Stmt::I(c, t, _, e) => {
            let mut g = gate.clone();
            let mut cs = BTreeSet::new();
            doms_of(c, env, &mut cs);
            g.extend(cs.iter().copied());
            cs.len() > 1 || block_crossing(t, env, &g) || block_crossing(e, env, &g)
        }
        Stmt::C(c, bs) => {
            let mut g = gate.clone();
            let mut cs = BTreeSet::new();
            doms_of(c, env, &mut cs);
            g.extend(cs.iter().copied());
            cs.len() > 1 || bs.iter().any(|b| block_crossing(b, env, &g))
        }
        Stmt::S(..) => false,
    })
}

fn oracle_flags(d: &Design) -> String {
    if !in_s0(d) {
        return "?".into();
    }
    // everything must be renderable for the oracle to make sense
    if render(d).is_err() {
        return "?".into();
    }
    let mut out: BTreeSet<String> = BTreeSet::new();
    // module-level rule: a unique clock port and a unique reset port must share a domain
    {
        let mut cks = BTreeSet::new();
        let mut rss = BTreeSet::new();
        for it in &d.items {
            if let Item::F(_, c, r, _) = it {
                cks.insert(*c);
                if let Some(r) = r {
                    rss.insert(*r);
                }
            }
        }
        if cks.len() == 1 && rss.len() == 1 {
            let c = d.env[*cks.iter().next().unwrap()];
            let r = d.env[*rss.iter().next().unwrap()];
            if c != r {
                out.insert("H".into());
            }
        }
    }
    for (ii, it) in d.items.iter().enumerate() {
        let u = match it {
            Item::A(u, ..) | Item::K(u, ..) | Item::F(u, ..) | Item::Inst(u, ..) => *u,
        };
        if u {
            continue;
        }
        let crossing = match it {
            Item::A(_, dst, e) => block_crossing(&vec![Stmt::A(*dst, e.clone())], &d.env, &BTreeSet::new()),
            Item::K(_, b) => block_crossing(b, &d.env, &BTreeSet::new()),
            Item::F(_, c, r, b) => {
                let mut g = BTreeSet::new();
                if let Dom::E(i) = d.env[*c] {
                    g.insert(i);
                }
                if let Some(r) = r {
                    let mut h = g.clone();
                    if let Dom::E(i) = d.env[*r] {
                        h.insert(i);
                    }
                    if h.len() > 1 {
                        out.insert("H".into());
                    }
                }
                // the clock gates a write only if the block writes something
                block_crossing(b, &d.env, &g)
            }
            Item::Inst(_, cs) => {
                let mut per_key: BTreeMap<u32, BTreeSet<u32>> = BTreeMap::new();
                let mut x = false;
                for (k, e) in cs {
                    let mut s = BTreeSet::new();
                    doms_of(e, &d.env, &mut s);
                    x |= s.len() > 1;
                    per_key.entry(*k).or_default().extend(s);
                }
                x || per_key.values().any(|s| s.len() > 1)
            }
        };
        if crossing {
            out.insert(format!("{ii:04x}"));
        }
    }
    format!("[{}]", out.into_iter().collect::<Vec<_>>().join(","))
}

// ------------------------------------------------------------------------------------------------
// generator
// ------------------------------------------------------------------------------------------------

struct Gen<'a> {
    rng: &'a mut Rng,
    env: Vec<Dom>,
    inputs: Vec<usize>,          // never written
    free: Vec<usize>,            // writable, no writer yet (module level)
    written: Vec<usize>,         // already written (readable everywhere)
    clocks: Vec<usize>,
    resets: Vec<usize>,
    style: u64,                  // 0 = S0-like, 1 = implicit vars, 2 = everything
}

impl<'a> Gen<'a> {
    fn readable(&mut self, extra: &[usize]) -> Leaf {
        let mut pool: Vec<usize> = self.inputs.clone();
        pool.extend(self.written.iter());
        pool.extend(extra.iter());
        if self.rng.chance(1, 6) && !self.free.is_empty() {
            // read of a variable that is assigned later (or never)
            pool.extend(self.free.iter());
        }
        if pool.is_empty() || self.rng.chance(1, 8) {
            Leaf::C
        } else {
            Leaf::V(*self.rng.pick(&pool))
        }
    }
    fn expr(&mut self, depth: u64, extra: &[usize]) -> Expr {
        if depth == 0 || self.rng.chance(2, 5) {
            return Expr::L(self.readable(extra));
        }
        match self.rng.below(10) {
            0 => Expr::U(Box::new(self.expr(depth - 1, extra))),
            1..=4 => Expr::B(Box::new(self.expr(depth - 1, extra)), Box::new(self.expr(depth - 1, extra))),
            5..=6 => Expr::T(
                Box::new(self.expr(depth - 1, extra)),
                Box::new(self.expr(depth - 1, extra)),
                Box::new(self.expr(depth - 1, extra)),
            ),
            7..=8 => {
                let k = self.rng.range(1, 3);
                Expr::N(Leaf::C, (0..k).map(|_| self.expr(depth - 1, extra)).collect())
            }
            _ => {
                // v[e]: base must be an input (so that `logic<2>` does not disturb writers)
                if self.inputs.is_empty() {
                    Expr::L(self.readable(extra))
                } else {
                    let v = *self.rng.pick(&self.inputs.clone());
                    Expr::N(Leaf::V(v), vec![self.expr(depth - 1, extra)])
                }
            }
        }
    }
    /// A condition: never constant (constant conditions are folded by the analyzer).
    fn cond(&mut self, locals: &[usize]) -> Expr {
        for _ in 0..8 {
            let e = self.expr(1, locals);
            let mut f = false;
            leaf_vars(&e, &mut |_, _| f = true);
            if f {
                return e;
            }
        }
        let mut pool: Vec<usize> = self.inputs.clone();
        pool.extend(self.written.iter());
        pool.extend(self.free.iter());
        pool.extend(locals.iter());
        if pool.is_empty() {
            return Expr::L(Leaf::C); // such a design is skipped as unrenderable
        }
        Expr::L(Leaf::V(*self.rng.pick(&pool)))
    }
    fn block(&mut self, depth: u64, dsts: &mut Vec<usize>, locals: &[usize]) -> Block {
        let n = self.rng.range(if depth == 0 { 1 } else { 0 }, 3);
        let mut b = vec![];
        for _ in 0..n {
            let k = if depth == 0 { 0 } else { self.rng.below(10) };
            match k {
                0..=4 => {
                    if dsts.is_empty() {
                        continue;
                    }
                    let d = *self.rng.pick(dsts);
                    let e = self.expr(2, locals);
                    b.push(Stmt::A(d, e));
                }
                5..=6 => {
                    let c = self.cond(locals);
                    let t = self.block(depth - 1, dsts, locals);
                    let mut arms = vec![];
                    if self.style == 2 && self.rng.chance(1, 2) {
                        for _ in 0..self.rng.range(1, 2) {
                            let c2 = self.cond(locals);
                            arms.push((c2, self.block(depth - 1, dsts, locals)));
                        }
                    }
                    let e = if self.rng.chance(1, 2) { self.block(depth - 1, dsts, locals) } else { vec![] };
                    b.push(Stmt::I(c, t, arms, e));
                }
                7..=8 => {
                    let c = self.cond(locals);
                    let k = self.rng.range(2, 3);
                    let bs = (0..k).map(|_| self.block(depth - 1, dsts, locals)).collect();
                    b.push(Stmt::C(c, bs));
                }
                _ => {
                    if self.style == 2 {
                        let mut arms = vec![];
                        for _ in 0..self.rng.range(1, 3) {
                            let c2 = self.cond(locals);
                            arms.push((c2, self.block(depth - 1, dsts, locals)));
                        }
                        let dflt = self.block(depth - 1, dsts, locals);
                        b.push(Stmt::S(arms, dflt));
                    }
                }
            }
        }
        b
    }
}

fn gen_design(rng: &mut Rng, log: &mut Log) -> Design {
    let style = rng.below(3);
    let ndom = rng.range(1, 3) as u32;
    let nvar = rng.range(4, 11) as usize;
    let mut g = Gen { rng, env: vec![], inputs: vec![], free: vec![], written: vec![], clocks: vec![], resets: vec![], style };
    let mut locals_pool = vec![];
    for v in 0..nvar {
        let dom = match (style, g.rng.below(10)) {
            (0, _) => Dom::E(g.rng.range(1, ndom as u64) as u32),
            (_, 0..=5) => Dom::E(g.rng.range(1, ndom as u64) as u32),
            (1, _) => Dom::M,
            (_, 6..=7) => Dom::M,
            _ => Dom::N,
        };
        g.env.push(dom);
        if dom == Dom::N {
            locals_pool.push(v);
            continue;
        }
        match g.rng.below(10) {
            0 if matches!(dom, Dom::E(_)) => g.clocks.push(v),
            1 if matches!(dom, Dom::E(_)) => g.resets.push(v),
            2..=5 => g.inputs.push(v),
            _ => g.free.push(v),
        }
    }
    let nitems = g.rng.range(2, 6);
    let mut items = vec![];
    for _ in 0..nitems {
        let u = g.rng.chance(1, 6);
        let kind = g.rng.below(10);
        match kind {
            0..=3 => {
                if g.free.is_empty() {
                    continue;
                }
                let i = g.rng.below(g.free.len() as u64) as usize;
                let d = g.free.remove(i);
                let e = g.expr(3, &[]);
                g.written.push(d);
                items.push(Item::A(u, d, e));
                log.count("item.assign");
            }
            4..=7 => {
                // always_comb / always_ff with 1..3 destinations and possibly locals
                let mut dsts = vec![];
                for _ in 0..g.rng.range(1, 3) {
                    if g.free.is_empty() {
                        break;
                    }
                    let i = g.rng.below(g.free.len() as u64) as usize;
                    dsts.push(g.free.remove(i));
                }
                let mut locals = vec![];
                while !locals_pool.is_empty() && g.rng.chance(1, 2) {
                    locals.push(locals_pool.pop().unwrap());
                }
                let mut all = dsts.clone();
                all.extend(locals.iter());
                if all.is_empty() {
                    continue;
                }
                let b = g.block(2, &mut all, &locals);
                g.written.extend(dsts.iter());
                if kind >= 6 && !g.clocks.is_empty() {
                    let c = *g.rng.pick(&g.clocks.clone());
                    let r = if !g.resets.is_empty() && g.rng.chance(1, 2) { Some(*g.rng.pick(&g.resets.clone())) } else { None };
                    items.push(Item::F(u, c, r, b));
                    log.count("item.always_ff");
                } else {
                    items.push(Item::K(u, b));
                    log.count("item.always_comb");
                }
            }
            _ => {
                let n = g.rng.range(2, 4);
                let two_keys = g.rng.chance(1, 3);
                let mut cs = vec![];
                for j in 0..n {
                    let key = if two_keys { g.rng.below(3) as u32 } else { 0 };
                    let e = if j + 1 == n && !g.free.is_empty() && g.rng.chance(2, 3) {
                        let i = g.rng.below(g.free.len() as u64) as usize;
                        let d = g.free.remove(i);
                        g.written.push(d);
                        Expr::L(Leaf::V(d))
                    } else if style == 2 && j == 0 && g.rng.chance(1, 4) {
                        Expr::L(Leaf::C)
                    } else {
                        g.expr(1, &[])
                    };
                    cs.push((key, e));
                }
                items.push(Item::Inst(u, cs));
                log.count("item.inst");
            }
        }
    }
    log.count(&format!("style.{style}"));
    Design { env: g.env, items }
}

fn count_nodes(e: &Expr, log: &mut Log) {
    match e {
        Expr::L(Leaf::C) => log.count("expr.const"),
        Expr::L(Leaf::V(_)) => log.count("expr.var"),
        Expr::U(x) => {
            log.count("expr.unary");
            count_nodes(x, log);
        }
        Expr::B(x, y) => {
            log.count("expr.binary");
            count_nodes(x, log);
            count_nodes(y, log);
        }
        Expr::T(x, y, z) => {
            log.count("expr.ternary");
            count_nodes(x, log);
            count_nodes(y, log);
            count_nodes(z, log);
        }
        Expr::N(l, es) => {
            log.count(if matches!(l, Leaf::C) { "expr.concat" } else { "expr.select" });
            for e in es {
                count_nodes(e, log);
            }
        }
    }
}

fn design_stats(d: &Design, log: &mut Log) {
    for x in &d.env {
        log.count(match x {
            Dom::E(_) => "dom.explicit",
            Dom::M => "dom.implicit",
            Dom::N => "dom.none",
        });
    }
    for it in &d.items {
        let (u, b): (bool, Option<&Block>) = match it {
            Item::A(u, _, e) => {
                count_nodes(e, log);
                (*u, None)
            }
            Item::K(u, b) | Item::F(u, _, _, b) => (*u, Some(b)),
            Item::Inst(u, cs) => {
                for (_, e) in cs {
                    count_nodes(e, log);
                }
                (*u, None)
            }
        };
        if u {
            log.count("item.unsafe");
        }
        if let Some(b) = b {
            let mut es = vec![];
            stmt_visit(b, &mut |e| es.push(e.clone()), &mut |_| {});
            for e in &es {
                count_nodes(e, log);
            }
            fn shapes(b: &Block, log: &mut Log) {
                for s in b {
                    match s {
                        Stmt::A(..) => log.count("stmt.assign"),
                        Stmt::I(_, t, a, e) => {
                            log.count(if a.is_empty() { "stmt.if" } else { "stmt.if_elseif" });
                            shapes(t, log);
                            for (_, b) in a {
                                shapes(b, log);
                            }
                            shapes(e, log);
                        }
                        Stmt::C(_, bs) => {
                            log.count("stmt.case");
                            for b in bs {
                                shapes(b, log);
                            }
                        }
                        Stmt::S(a, d) => {
                            log.count("stmt.switch");
                            for (_, b) in a {
                                shapes(b, log);
                            }
                            shapes(d, log);
                        }
                    }
                }
            }
            shapes(b, log);
        }
    }
}

fn process(d: &Design, log: &mut Log) {
    let env = d.env_str();
    let items = d.items_str();
    let out = run_design(d);
    let oracle = oracle_flags(d);
    design_stats(d, log);
    log.count("designs");
    if out.full.starts_with('[') {
        log.count("analyzed");
        if out.full != "[]" {
            log.count("rejected");
        }
        if oracle != "?" {
            log.count("oracle.applicable");
        }
    } else {
        log.count(&format!("outcome.{}", out.full.split(':').next().unwrap_or("")));
    }
    for e in &out.other_errors {
        log.count(&format!("other_diag.{e}"));
    }
    log.sample(format!("d {env} {items} => {}", out.full));
    // unrenderable / erroring designs: no comparison possible (counted above)
    if !out.full.starts_with('[') {
        return;
    }
    log.push3(format!("d {env} {items}"), out.full.clone(), "?".into());
    log.push3(format!("f {env} {items}"), out.flags, oracle);
}

pub fn main(opts: &Opts) -> i32 {
    let mut log = Log::new();
    if !opts.rest.is_empty() {
        // development aid: analyse raw Veryl files and print the diagnostics
        for f in &opts.rest {
            let code = std::fs::read_to_string(f).unwrap_or_default();
            println!("== {f}");
            match analyze(&code) {
                Ok(es) => {
                    for e in es {
                        let s = format!("{e:?}");
                        let head: String = s.chars().take(60).collect();
                        let locs: Vec<&str> = s.match_indices("SourceOffset(").map(|(i, _)| &s[i..(i + 22).min(s.len())]).collect();
                        let doms: Vec<&str> = s.match_indices("_domain: ").map(|(i, _)| &s[i..(i + 16).min(s.len())]).collect();
                        println!("  {head} {doms:?} {locs:?}");
                    }
                }
                Err(e) => println!("  ERR {e}"),
            }
        }
        return 0;
    }
    if let Some(f) = opts.get("replay") {
        let text = std::fs::read_to_string(f).unwrap_or_default();
        for line in text.lines() {
            let t: Vec<&str> = line.split_whitespace().collect();
            if t.len() == 3 && (t[0] == "d" || t[0] == "f") {
                if let Some(d) = parse_design(t[1], t[2]) {
                    let out = run_design(&d);
                    if !out.full.starts_with('[') {
                        // cannot be rendered / analysed: not a comparable case
                        log.push3("skip".into(), "bad-op".into(), "?".into());
                    } else if t[0] == "d" {
                        log.push3(line.to_string(), out.full, "?".into());
                    } else {
                        log.push3(line.to_string(), out.flags, oracle_flags(&d));
                    }
                    continue;
                }
            }
            log.push3(line.to_string(), "bad-op".into(), "?".into());
        }
        log.write(&opts.out());
        return 0;
    }
    let mut rng = Rng::new(opts.seed());
    let n = opts.num("n", 200);
    for _ in 0..n {
        let d = gen_design(&mut rng, &mut log);
        process(&d, &mut log);
    }
    log.write(&opts.out());
    0
}
