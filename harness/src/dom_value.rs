//! Domain `value` (C17, C11-T1): the analyzer's constant evaluator on 4-state values.
//! Every request line is evaluated by the REAL `Op::eval_value_unary/binary` and
//! `Value::{expand,trunc,select,concat,assign,to_shift_amount}`; replies go to `impl.txt`.
//! The same `ops.txt` is answered by `vmodel value` (Impl model: correspondence) and by
//! `vmodel valueref` (IEEE 1800 reference: the oracle of C17), see checks/c17.py.
//!
//!   bin <Op> <w1> <s1> <p1> <m1> <w2> <s2> <p2> <m2> <ctxwidth> <ctxsigned>
//!   un  <Op> <w1> <s1> <p1> <m1> <ctxwidth> <ctxsigned>
//!   expand <w> <s> <p> <m> <neww> <use_sign>      trunc <w> <s> <p> <m> <neww>
//!   select <w> <s> <p> <m> <beg> <end>            concat <w1> <s1> <p1> <m1> <w2> <s2> <p2> <m2>
//!   assign <w1> <s1> <p1> <m1> <w2> <s2> <p2> <m2> <beg> <end>      shamt <w> <s> <p> <m>
//!   binrep / unrep: as bin / un, but the operands are forced into the BigUint representation
//!   (each is followed by its twin bin / un line: the two representations must agree)
//! All numbers lower-case hex. Reply `w=<w> s=<0|1> p=<hex> m=<hex> r=<u|b>` | `panic` |
//! `none` | `some <hex>` | `bad-op`.
//!
//! Options: `--mode exh|rand|all` `--full W` (widths ≤ W: every value incl. X/Z × every
//! signedness/context combination) `--vals W` (widths ≤ W: every value pair incl. X/Z, context
//! combinations rotated) `--n N` (random cases) `--replay FILE`.
use crate::rng::Rng;
use crate::util::{Log, Opts};
use std::panic::{AssertUnwindSafe, catch_unwind};
use veryl_analyzer::ir::Op;
use veryl_analyzer::value::{MaskCache, Value};

// ---------------------------------------------------------------------------------------------
// tiny little-endian bignum for generating / printing operands (no dependency on num-bigint)
// ---------------------------------------------------------------------------------------------
#[derive(Clone, PartialEq, Debug)]
struct Nat(Vec<u64>);

impl Nat {
    fn zero() -> Nat {
        Nat(vec![])
    }
    fn from_u64(x: u64) -> Nat {
        Nat(vec![x]).norm()
    }
    fn norm(mut self) -> Nat {
        while self.0.last() == Some(&0) {
            self.0.pop();
        }
        self
    }
    fn ones(w: usize) -> Nat {
        let mut v = vec![u64::MAX; w / 64];
        if w % 64 != 0 {
            v.push((1u64 << (w % 64)) - 1);
        }
        Nat(v).norm()
    }
    fn bit(i: usize) -> Nat {
        let mut v = vec![0u64; i / 64 + 1];
        v[i / 64] = 1u64 << (i % 64);
        Nat(v)
    }
    fn and(&self, o: &Nat) -> Nat {
        Nat(self.0.iter().zip(o.0.iter()).map(|(a, b)| a & b).collect()).norm()
    }
    fn or(&self, o: &Nat) -> Nat {
        let n = self.0.len().max(o.0.len());
        Nat((0..n).map(|i| self.0.get(i).unwrap_or(&0) | o.0.get(i).unwrap_or(&0)).collect()).norm()
    }
    fn xor(&self, o: &Nat) -> Nat {
        let n = self.0.len().max(o.0.len());
        Nat((0..n).map(|i| self.0.get(i).unwrap_or(&0) ^ o.0.get(i).unwrap_or(&0)).collect()).norm()
    }
    fn is_zero(&self) -> bool {
        self.0.is_empty()
    }
    fn random(r: &mut Rng, w: usize) -> Nat {
        Nat((0..w.div_ceil(64)).map(|_| r.next()).collect()).and(&Nat::ones(w))
    }
    fn hex(&self) -> String {
        if self.0.is_empty() {
            return "0".into();
        }
        let mut s = format!("{:x}", self.0[self.0.len() - 1]);
        for d in self.0.iter().rev().skip(1) {
            s.push_str(&format!("{d:016x}"));
        }
        s
    }
    fn parse(s: &str) -> Option<Nat> {
        if s.is_empty() || !s.bytes().all(|c| c.is_ascii_hexdigit()) {
            return None;
        }
        let b = s.as_bytes();
        let mut v = vec![];
        let mut end = b.len();
        while end > 0 {
            let beg = end.saturating_sub(16);
            v.push(u64::from_str_radix(&s[beg..end], 16).ok()?);
            end = beg;
        }
        Some(Nat(v).norm())
    }
    fn le_bytes(&self, min_words: usize) -> Vec<u8> {
        let n = self.0.len().max(min_words).max(1);
        let mut out = Vec::with_capacity(n * 8);
        for i in 0..n {
            out.extend_from_slice(&self.0.get(i).copied().unwrap_or(0).to_le_bytes());
        }
        out
    }
    fn to_usize(&self) -> Option<usize> {
        match self.0.len() {
            0 => Some(0),
            1 => Some(self.0[0] as usize),
            _ => None,
        }
    }
}

#[derive(Clone)]
struct Operand {
    w: usize,
    s: bool,
    p: Nat,
    m: Nat,
}

impl Operand {
    fn show(&self) -> String {
        format!("{:x} {} {} {}", self.w, self.s as u8, self.p.hex(), self.m.hex())
    }
    fn value(&self) -> Value {
        let words = self.w / 64 + 1;
        Value::from_le_bytes(&self.p.le_bytes(words), &self.m.le_bytes(words), self.w, self.s)
    }
    fn has_xz(&self) -> bool {
        !self.m.is_zero()
    }
    /// The same value forced into the `BigUint` representation whatever its width (used by
    /// `binrep`/`unrep`: "the two representations agree on every value they can both hold").
    fn value_big(&self) -> Value {
        let words = self.w / 64 + 2;
        let mut v = Value::from_le_bytes(&self.p.le_bytes(words), &self.m.le_bytes(words), self.w.max(65), self.s);
        if let Value::BigUint(ref mut b) = v {
            b.width = self.w as u32;
        }
        v
    }
}

fn show_value(v: &Value) -> String {
    let r = if matches!(v, Value::U64(_)) { "u" } else { "b" };
    format!(
        "w={:x} s={} p={:x} m={:x} r={}",
        v.width(),
        v.signed() as u8,
        v.payload().as_ref(),
        v.mask_xz().as_ref(),
        r
    )
}

fn op_of(s: &str) -> Option<Op> {
    Some(match s {
        "Pow" => Op::Pow,
        "Div" => Op::Div,
        "Rem" => Op::Rem,
        "Mul" => Op::Mul,
        "Add" => Op::Add,
        "Sub" => Op::Sub,
        "ArithShiftL" => Op::ArithShiftL,
        "ArithShiftR" => Op::ArithShiftR,
        "LogicShiftL" => Op::LogicShiftL,
        "LogicShiftR" => Op::LogicShiftR,
        "LessEq" => Op::LessEq,
        "GreaterEq" => Op::GreaterEq,
        "Less" => Op::Less,
        "Greater" => Op::Greater,
        "Eq" => Op::Eq,
        "EqWildcard" => Op::EqWildcard,
        "Ne" => Op::Ne,
        "NeWildcard" => Op::NeWildcard,
        "LogicAnd" => Op::LogicAnd,
        "LogicOr" => Op::LogicOr,
        "LogicNot" => Op::LogicNot,
        "BitAnd" => Op::BitAnd,
        "BitOr" => Op::BitOr,
        "BitXor" => Op::BitXor,
        "BitXnor" => Op::BitXnor,
        "BitNand" => Op::BitNand,
        "BitNor" => Op::BitNor,
        "BitNot" => Op::BitNot,
        "As" => Op::As,
        "Ternary" => Op::Ternary,
        "Concatenation" => Op::Concatenation,
        "ArrayLiteral" => Op::ArrayLiteral,
        "Condition" => Op::Condition,
        "Repeat" => Op::Repeat,
        _ => return None,
    })
}

const BIN_OPS: &[&str] = &[
    "Add", "Sub", "Mul", "Div", "Rem", "BitAnd", "BitOr", "BitXor", "BitXnor", "Eq", "Ne", "EqWildcard",
    "NeWildcard", "Greater", "GreaterEq", "Less", "LessEq", "LogicAnd", "LogicOr", "LogicShiftR",
    "LogicShiftL", "ArithShiftR", "ArithShiftL", "Pow", "As",
];
const UN_OPS: &[&str] =
    &["Add", "Sub", "BitNot", "BitAnd", "BitNand", "BitOr", "BitNor", "LogicNot", "BitXor", "BitXnor"];
const ALL_OPS: &[&str] = &[
    "Pow", "Div", "Rem", "Mul", "Add", "Sub", "ArithShiftL", "ArithShiftR", "LogicShiftL", "LogicShiftR",
    "LessEq", "GreaterEq", "Less", "Greater", "Eq", "EqWildcard", "Ne", "NeWildcard", "LogicAnd",
    "LogicOr", "LogicNot", "BitAnd", "BitOr", "BitXor", "BitXnor", "BitNand", "BitNor", "BitNot", "As",
    "Ternary", "Concatenation", "ArrayLiteral", "Condition", "Repeat",
];

#[derive(PartialEq, Clone, Copy)]
enum Class {
    Ctx,   // both operands context-determined
    Shift, // left operand context-determined, right self-determined (shifts, power)
    Cmp,   // operands sized to each other, 1-bit result
    Logic, // operands self-determined, 1-bit result
    Other,
}

fn class_of(op: &str) -> Class {
    match op {
        "Add" | "Sub" | "Mul" | "Div" | "Rem" | "BitAnd" | "BitOr" | "BitXor" | "BitXnor" => Class::Ctx,
        "LogicShiftR" | "LogicShiftL" | "ArithShiftR" | "ArithShiftL" | "Pow" => Class::Shift,
        "Eq" | "Ne" | "EqWildcard" | "NeWildcard" | "Greater" | "GreaterEq" | "Less" | "LessEq" => Class::Cmp,
        "LogicAnd" | "LogicOr" => Class::Logic,
        _ => Class::Other,
    }
}

fn parse_operand(t: &[&str]) -> Option<Operand> {
    let w = usize::from_str_radix(t[0], 16).ok()?;
    let s = match t[1] {
        "0" => false,
        "1" => true,
        _ => return None,
    };
    Some(Operand { w, s, p: Nat::parse(t[2])?, m: Nat::parse(t[3])? })
}

fn parse_bool(s: &str) -> Option<bool> {
    match s {
        "0" => Some(false),
        "1" => Some(true),
        _ => None,
    }
}

fn hexu(s: &str) -> Option<usize> {
    // same acceptance as the driver's parseHex? (any length); values beyond usize are rejected
    Nat::parse(s)?.to_usize()
}

/// Sizes beyond this would make the real code allocate gigabytes (`gen_mask(width)` is a loop over
/// 32-bit digits): the harness refuses them instead of running them.
const MAX_SIZE: usize = 1 << 16;

/// Evaluate one request line on the real code.
fn eval_line(line: &str, mc: &mut MaskCache) -> String {
    let t: Vec<&str> = line.split(' ').filter(|x| !x.is_empty()).collect();
    let r = catch_unwind(AssertUnwindSafe(|| -> Option<String> {
        match t.first().copied() {
            Some("bin") if t.len() == 12 => {
                let op = op_of(t[1])?;
                let x = parse_operand(&t[2..6])?;
                let y = parse_operand(&t[6..10])?;
                let cw = hexu(t[10])?;
                let cs = parse_bool(t[11])?;
                if cw > MAX_SIZE || x.w > MAX_SIZE || y.w > MAX_SIZE {
                    return None;
                }
                let r = op.eval_value_binary(&x.value(), &y.value(), cw, cs, mc);
                Some(show_value(&r))
            }
            Some("binrep") if t.len() == 12 => {
                let op = op_of(t[1])?;
                let x = parse_operand(&t[2..6])?;
                let y = parse_operand(&t[6..10])?;
                let cw = hexu(t[10])?;
                let cs = parse_bool(t[11])?;
                if cw > MAX_SIZE || x.w > MAX_SIZE || y.w > MAX_SIZE {
                    return None;
                }
                let r = op.eval_value_binary(&x.value_big(), &y.value_big(), cw, cs, mc);
                Some(show_value(&r))
            }
            Some("unrep") if t.len() == 8 => {
                let op = op_of(t[1])?;
                let x = parse_operand(&t[2..6])?;
                let cw = hexu(t[6])?;
                let cs = parse_bool(t[7])?;
                if cw > MAX_SIZE || x.w > MAX_SIZE {
                    return None;
                }
                let r = op.eval_value_unary(&x.value_big(), cw, cs, mc);
                Some(show_value(&r))
            }
            Some("un") if t.len() == 8 => {
                let op = op_of(t[1])?;
                let x = parse_operand(&t[2..6])?;
                let cw = hexu(t[6])?;
                let cs = parse_bool(t[7])?;
                if cw > MAX_SIZE || x.w > MAX_SIZE {
                    return None;
                }
                let r = op.eval_value_unary(&x.value(), cw, cs, mc);
                Some(show_value(&r))
            }
            Some("expand") if t.len() == 7 => {
                let x = parse_operand(&t[1..5])?;
                let nw = hexu(t[5])?;
                let us = parse_bool(t[6])?;
                if nw > MAX_SIZE || x.w > MAX_SIZE {
                    return None;
                }
                let r = x.value().expand(nw, us).into_owned();
                Some(show_value(&r))
            }
            Some("trunc") if t.len() == 6 => {
                let x = parse_operand(&t[1..5])?;
                let nw = hexu(t[5])?;
                if nw > MAX_SIZE || x.w > MAX_SIZE {
                    return None;
                }
                let mut v = x.value();
                v.trunc(nw);
                Some(show_value(&v))
            }
            Some("select") if t.len() == 7 => {
                let x = parse_operand(&t[1..5])?;
                let b = hexu(t[5])?;
                let e = hexu(t[6])?;
                if b > MAX_SIZE || e > MAX_SIZE || x.w > MAX_SIZE {
                    return None;
                }
                Some(show_value(&x.value().select(b, e)))
            }
            Some("concat") if t.len() == 9 => {
                let x = parse_operand(&t[1..5])?;
                let y = parse_operand(&t[5..9])?;
                if x.w > MAX_SIZE || y.w > MAX_SIZE {
                    return None;
                }
                Some(show_value(&x.value().concat(&y.value())))
            }
            Some("assign") if t.len() == 11 => {
                let x = parse_operand(&t[1..5])?;
                let y = parse_operand(&t[5..9])?;
                let b = hexu(t[9])?;
                let e = hexu(t[10])?;
                if b > MAX_SIZE || e > MAX_SIZE || x.w > MAX_SIZE || y.w > MAX_SIZE {
                    return None;
                }
                let mut v = x.value();
                v.assign(y.value(), b, e);
                Some(show_value(&v))
            }
            Some("shamt") if t.len() == 5 => {
                let x = parse_operand(&t[1..5])?;
                Some(match x.value().to_shift_amount() {
                    None => "none".to_string(),
                    Some(n) => format!("some {n:x}"),
                })
            }
            _ => None,
        }
    }));
    match r {
        Ok(Some(s)) => s,
        Ok(None) => "bad-op".to_string(),
        Err(_) => "panic".to_string(),
    }
}

// ---------------------------------------------------------------------------------------------
// generators
// ---------------------------------------------------------------------------------------------

/// Every value of width `w` including X/Z (width 0: the four fill literals).
fn all_values(w: usize) -> Vec<(Nat, Nat)> {
    let n = if w == 0 { 2 } else { 1u64 << w };
    let mut v = vec![];
    for p in 0..n {
        for m in 0..n {
            v.push((Nat::from_u64(p), Nat::from_u64(m)));
        }
    }
    v
}

fn base_width(op: &str, w1: usize, w2: usize) -> usize {
    match class_of(op) {
        Class::Ctx => w1.max(w2).max(1),
        Class::Shift => w1.max(1),
        Class::Cmp | Class::Logic => 1,
        Class::Other => w1.max(1),
    }
}

struct Gen<'a> {
    log: &'a mut Log,
    mc: MaskCache,
}

impl Gen<'_> {
    fn emit(&mut self, line: String) {
        let r = eval_line(&line, &mut self.mc);
        if r == "panic" {
            self.log.count("panics");
        }
        self.log.sample(format!("{line} -> {r}"));
        self.log.push(line, r);
    }

    fn bin(&mut self, op: &str, x: &Operand, y: &Operand, cw: usize, cs: bool) {
        self.log.count(&format!("op.bin.{op}"));
        self.log.count(&format!("regime.{}", regime(x.w.max(y.w).max(cw))));
        self.log.count(if x.has_xz() || y.has_xz() { "xz.some" } else { "xz.none" });
        self.emit(format!("bin {op} {} {} {:x} {}", x.show(), y.show(), cw, cs as u8));
    }

    fn un(&mut self, op: &str, x: &Operand, cw: usize, cs: bool) {
        self.log.count(&format!("op.un.{op}"));
        self.log.count(&format!("regime.{}", regime(x.w.max(cw))));
        self.log.count(if x.has_xz() { "xz.some" } else { "xz.none" });
        self.emit(format!("un {op} {} {:x} {}", x.show(), cw, cs as u8));
    }

    /// `binrep` + twin `bin`: both operands already at the width the arm works on, so the BigUint
    /// arm can be run on values the U64 arm holds as well.
    fn bin_rep(&mut self, op: &str, x: &Operand, y: &Operand, cw: usize, cs: bool) {
        self.log.count("rep.pairs");
        self.emit(format!("binrep {op} {} {} {:x} {}", x.show(), y.show(), cw, cs as u8));
        self.bin(op, x, y, cw, cs);
    }

    fn un_rep(&mut self, op: &str, x: &Operand, cw: usize, cs: bool) {
        self.log.count("rep.pairs");
        self.emit(format!("unrep {op} {} {:x} {}", x.show(), cw, cs as u8));
        self.un(op, x, cw, cs);
    }

    /// Representation pairs for one already-sized operand pair (widths ≤ 64 only).
    fn rep_case(&mut self, op: &str, x: &Operand, y: &Operand, cs: bool) {
        let ok = match class_of(op) {
            Class::Ctx => x.w == y.w && x.w >= 1,
            Class::Shift => x.w >= 1 && y.w >= 1,
            Class::Cmp | Class::Logic => x.w == y.w && x.w >= 1,
            Class::Other => false,
        };
        if !ok || x.w > 64 || y.w > 64 {
            return;
        }
        let cw = match class_of(op) {
            Class::Ctx | Class::Shift => x.w,
            _ => 1,
        };
        self.bin_rep(op, x, y, cw, cs);
    }

    /// Deterministic boundary grid: every operator at every boundary width on corner payloads
    /// (0, 1, all-ones, msb-only, msb-clear, alternating), 2-state and with one X / all-Z operand.
    fn boundary(&mut self) {
        let corners = |w: usize| -> Vec<Nat> {
            let ones = Nat::ones(w);
            vec![
                Nat::zero(),
                Nat::from_u64(1).and(&ones),
                ones.clone(),
                Nat::bit(w - 1),
                ones.xor(&Nat::bit(w - 1)),
                Nat(vec![0x5555_5555_5555_5555; w.div_ceil(64)]).and(&ones),
            ]
        };
        let mut widths: Vec<usize> = BOUNDARY_WIDTHS.to_vec();
        widths.extend_from_slice(&[257, 300]);
        for &w in &widths {
            let cs_all = corners(w);
            for op in UN_OPS {
                for p in &cs_all {
                    for s in [false, true] {
                        let x = Operand { w, s, p: p.clone(), m: Nat::zero() };
                        let cw = if matches!(*op, "Add" | "Sub" | "BitNot") { w } else { 1 };
                        self.un(op, &x, cw, s);
                        if w <= 64 {
                            self.un_rep(op, &x, cw, s);
                        }
                        if matches!(*op, "Add" | "Sub" | "BitNot") {
                            self.un(op, &x, w + 1, s);
                        }
                    }
                }
                let xz = Operand { w, s: false, p: Nat::bit(w - 1), m: Nat::bit(w / 2) };
                self.un(op, &xz, if matches!(*op, "Add" | "Sub" | "BitNot") { w } else { 1 }, false);
            }
            for op in &BIN_OPS[..24] {
                let class = class_of(op);
                for p1 in &cs_all {
                    for p2 in &cs_all {
                        for s in [false, true] {
                            let x = Operand { w, s, p: p1.clone(), m: Nat::zero() };
                            let y = Operand { w, s, p: p2.clone(), m: Nat::zero() };
                            let cw = base_width(op, w, w);
                            self.bin(op, &x, &y, cw, s);
                            self.rep_case(op, &x, &y, s);
                            if class == Class::Ctx || class == Class::Shift {
                                // narrower left operand extended into the boundary width
                                if w > 1 {
                                    let xn = Operand { w: w - 1, s, p: p1.and(&Nat::ones(w - 1)), m: Nat::zero() };
                                    self.bin(op, &xn, &y, cw, s);
                                }
                            }
                        }
                    }
                    if class == Class::Shift {
                        // amounts around the width in a narrow right operand
                        for amt in [0usize, 1, w - 1, w, w + 1, 63, 64, 65] {
                            for s in [false, true] {
                                let x = Operand { w, s, p: p1.clone(), m: Nat::zero() };
                                let y = Operand { w: 16, s: false, p: Nat::from_u64(amt as u64), m: Nat::zero() };
                                self.bin(op, &x, &y, w, s);
                                if w <= 64 {
                                    self.bin_rep(op, &x, &y, w, s);
                                }
                            }
                        }
                    }
                    let x = Operand { w, s: true, p: p1.clone(), m: Nat::zero() };
                    let yx = Operand { w, s: true, p: Nat::zero(), m: Nat::bit(0) };
                    let yz = Operand { w, s: true, p: Nat::ones(w), m: Nat::ones(w) };
                    let cw = base_width(op, w, w);
                    self.bin(op, &x, &yx, cw, true);
                    self.bin(op, &yx, &x, cw, true);
                    self.bin(op, &x, &yz, cw, false);
                    self.rep_case(op, &x, &yx, true);
                    self.rep_case(op, &yz, &x, false);
                }
            }
        }
    }

    /// Exhaustive part: all values (incl. X/Z) of widths ≤ `vals`; for widths ≤ `full` also every
    /// combination of operand signedness, context signedness and two context widths; above that the
    /// 16 combinations are rotated over consecutive cases.
    fn exhaustive(&mut self, full: usize, vals: usize) {
        let mut operands: Vec<(usize, Nat, Nat)> = vec![];
        for w in 0..=vals {
            for (p, m) in all_values(w) {
                operands.push((w, p, m));
            }
        }
        self.log.add("exh.values", operands.len() as u64);
        let mut rot: usize = 0;
        for op in ALL_OPS {
            let handled = UN_OPS.contains(op);
            for (w, p, m) in &operands {
                if !handled && (*w != 1 || !m.is_zero()) {
                    continue; // one probe per unhandled operator is enough: `unimplemented!()`
                }
                let base = if matches!(*op, "Add" | "Sub" | "BitNot") { (*w).max(1) } else { 1 };
                for s in [false, true] {
                    for cs in [false, true] {
                        for dw in 0..2 {
                            let x = Operand { w: *w, s, p: p.clone(), m: m.clone() };
                            self.un(op, &x, base + dw, cs);
                        }
                    }
                }
            }
        }
        for op in ALL_OPS {
            let handled = BIN_OPS.contains(op);
            for (w1, p1, m1) in &operands {
                for (w2, p2, m2) in &operands {
                    if !handled {
                        if *w1 == 1 && *w2 == 1 && m1.is_zero() && m2.is_zero() && p1.is_zero() && p2.is_zero() {
                            let x = Operand { w: 1, s: false, p: Nat::zero(), m: Nat::zero() };
                            self.bin(op, &x, &x.clone(), 1, false);
                        }
                        continue;
                    }
                    let base = base_width(op, *w1, *w2);
                    if *w1 <= full && *w2 <= full {
                        for c in 0..16 {
                            let x = Operand { w: *w1, s: c & 1 != 0, p: p1.clone(), m: m1.clone() };
                            let y = Operand { w: *w2, s: c & 2 != 0, p: p2.clone(), m: m2.clone() };
                            self.bin(op, &x, &y, base + ((c >> 3) & 1), c & 4 != 0);
                            if c < 8 {
                                self.rep_case(op, &x, &y, c & 4 != 0);
                            }
                        }
                    } else {
                        let c = rot;
                        rot = (rot + 7) % 16;
                        let x = Operand { w: *w1, s: c & 1 != 0, p: p1.clone(), m: m1.clone() };
                        let y = Operand { w: *w2, s: c & 2 != 0, p: p2.clone(), m: m2.clone() };
                        self.bin(op, &x, &y, base + ((c >> 3) & 1), c & 4 != 0);
                    }
                }
            }
        }
    }
}

const BOUNDARY_WIDTHS: &[usize] = &[1, 2, 31, 32, 33, 63, 64, 65, 127, 128, 129, 255, 256];

fn regime(w: usize) -> &'static str {
    if w <= 4 {
        "w<=4"
    } else if w <= 64 {
        "w<=64"
    } else if w <= 128 {
        "w65..128"
    } else {
        "w>128"
    }
}

fn gen_width(r: &mut Rng) -> usize {
    match r.below(20) {
        0..=11 => *r.pick(BOUNDARY_WIDTHS),
        12..=16 => r.range(1, 256) as usize,
        17 => r.range(1, 8) as usize,
        18 => *r.pick(&[257usize, 300]),
        _ => 0,
    }
}

fn gen_payload(r: &mut Rng, w: usize) -> Nat {
    if w == 0 {
        return Nat::from_u64(r.below(2));
    }
    let ones = Nat::ones(w);
    match r.below(10) {
        0 => Nat::zero(),
        1 => Nat::from_u64(1).and(&ones),
        2 => ones,
        3 => Nat::bit(w - 1),
        4 => ones.xor(&Nat::bit(w - 1)),
        5 => Nat(vec![0x5555_5555_5555_5555; w.div_ceil(64)]).and(&ones),
        6 => Nat(vec![0xaaaa_aaaa_aaaa_aaaa; w.div_ceil(64)]).and(&ones),
        7 => Nat::from_u64(r.below(8)).and(&ones),
        _ => Nat::random(r, w),
    }
}

fn gen_mask(r: &mut Rng, w: usize, density: u64) -> Nat {
    if w == 0 {
        return Nat::from_u64(if density == 0 { 0 } else { r.below(2) });
    }
    match density {
        0 => Nat::zero(),
        1 => {
            let mut m = Nat::zero();
            for _ in 0..r.range(1, 2) {
                m = m.or(&Nat::bit(r.below(w as u64) as usize));
            }
            m
        }
        _ => match r.below(3) {
            0 => Nat::ones(w),
            _ => Nat::random(r, w),
        },
    }
}

fn gen_operand(r: &mut Rng, w: usize, density: u64) -> Operand {
    Operand { w, s: r.chance(1, 2), p: gen_payload(r, w), m: gen_mask(r, w, density) }
}

/// X/Z density of one case: none (60 %), sparse (25 %), dense (15 %).
fn gen_density(r: &mut Rng) -> u64 {
    match r.below(20) {
        0..=11 => 0,
        12..=16 => 1,
        _ => 2,
    }
}

fn bump(r: &mut Rng, w: usize) -> usize {
    match r.below(6) {
        0..=2 => w,
        3 => w + 1,
        4 => BOUNDARY_WIDTHS.iter().copied().find(|b| *b > w).unwrap_or(w + 1),
        _ => w + r.range(1, 70) as usize,
    }
}

impl Gen<'_> {
    /// A small malformed stream: both sides must refuse these with `bad-op`.
    fn malformed(&mut self) {
        for line in [
            "frob",
            "bin",
            "bin Nop 1 0 0 0 1 0 0 0 1 0",
            "bin Add 8 0 1 0 8 0 1 0 8",
            "bin Add 8 0 1 0 8 0 1 0 8 2",
            "bin Add 8 0 zz 0 8 0 1 0 8 0",
            "bin Add 8 2 1 0 8 0 1 0 8 0",
            "un Add 8 0 +1 0 8 0",
            "un Frob 8 0 1 0 8 0",
            "un Add 8 0 1 0 8 0 0",
            "expand 8 0 1 0 10",
            "select 8 0 1 0 x 0",
            "concat 8 0 1 0 8 0 1",
            "shamt 8 0 1",
        ] {
            self.log.count("malformed");
            self.emit(line.to_string());
        }
    }

    fn random(&mut self, r: &mut Rng, n: u64) {
        self.malformed();
        for _ in 0..n {
            let k = r.below(100);
            if k < 62 {
                self.random_bin(r, false);
            } else if k < 74 {
                self.random_un(r, false);
            } else if k < 90 {
                self.random_struct(r);
            } else if k < 93 {
                self.random_rep(r);
            } else if k < 97 {
                self.random_bin(r, true);
            } else {
                self.random_un(r, true);
            }
        }
    }

    /// `off`: outside the caller invariants (context narrower than an operand, payload bits above
    /// the width): only the model/implementation correspondence is checked there.
    fn random_bin(&mut self, r: &mut Rng, off: bool) {
        let op = *r.pick(&BIN_OPS[..24]);
        let class = class_of(op);
        let d = gen_density(r);
        let mut w1 = gen_width(r);
        let mut w2 = if r.chance(1, 2) { w1 } else { gen_width(r) };
        if class == Class::Logic || class == Class::Shift {
            w2 = w2.max(1);
        }
        if class == Class::Logic {
            w1 = w1.max(1);
        }
        if class == Class::Cmp && w1 == 0 && w2 == 0 {
            w2 = 1;
        }
        let mut x = gen_operand(r, w1, d);
        let d2 = if r.chance(1, 3) { gen_density(r) } else { d };
        let mut y = gen_operand(r, w2, d2);
        if r.chance(2, 3) {
            y.s = x.s;
        }
        if r.chance(1, 8) && w1 == w2 {
            y.p = x.p.clone();
            if r.chance(1, 2) {
                y.m = x.m.clone();
            }
        }
        match op {
            "Div" | "Rem" => {
                if r.chance(1, 6) {
                    y.p = Nat::zero();
                } else if r.chance(1, 6) && w2 > 0 {
                    y.p = Nat::ones(w2); // -1 when signed
                    if w1 > 0 && r.chance(1, 2) {
                        x.p = Nat::bit(w1 - 1); // MIN / -1
                    }
                }
            }
            "LogicShiftR" | "LogicShiftL" | "ArithShiftR" | "ArithShiftL" => {
                let amt = match r.below(8) {
                    0 => 0,
                    1 => w1 as u64,
                    2 => w1.saturating_sub(1) as u64,
                    3 => w1 as u64 + 1,
                    4 => *r.pick(&[63u64, 64, 65, 127, 128]),
                    5 => r.next(),
                    _ => r.below(w1 as u64 + 2),
                };
                if r.chance(9, 10) {
                    y.p = Nat::from_u64(amt).and(&Nat::ones(w2));
                }
            }
            "Pow" => {
                if r.chance(2, 3) {
                    y.p = Nat::from_u64(r.below(7)).and(&Nat::ones(w2));
                }
                if r.chance(1, 3) {
                    x.p = Nat::from_u64(r.below(4)).and(&Nat::ones(w1.max(1)));
                    if w1 == 0 {
                        x.p = x.p.and(&Nat::from_u64(1));
                    }
                } else if r.chance(1, 4) && w1 > 0 {
                    x.p = Nat::ones(w1);
                }
            }
            _ => {}
        }
        let base = base_width(op, w1, w2);
        let mut cw = if matches!(class, Class::Cmp | Class::Logic) {
            *r.pick(&[1usize, 1, 1, 2, 32, 64, 65])
        } else {
            bump(r, base)
        };
        let cs = if r.chance(3, 4) {
            if class == Class::Shift { x.s } else { x.s && y.s }
        } else {
            r.chance(1, 2)
        };
        if off {
            self.log.count("off-domain");
            match r.below(4) {
                0 => cw = r.below(base as u64 + 1) as usize,
                1 => {
                    cw = 0;
                }
                2 => {
                    // payload / mask bits above the width
                    x.p = x.p.or(&Nat::bit(x.w + r.below(3) as usize));
                    if r.chance(1, 2) {
                        y.m = y.m.or(&Nat::bit(y.w + r.below(70) as usize));
                    }
                }
                _ => {
                    cw = r.below(base as u64 + 1) as usize;
                    x.w = x.w.max(65);
                    x.p = gen_payload(r, x.w);
                }
            }
        }
        self.bin(op, &x, &y, cw, cs);
    }

    fn random_rep(&mut self, r: &mut Rng) {
        let op = *r.pick(&BIN_OPS[..24]);
        let d = gen_density(r);
        let w = match r.below(4) {
            0 => r.range(1, 64) as usize,
            _ => *r.pick(&[1usize, 2, 31, 32, 33, 63, 64]),
        };
        let x = gen_operand(r, w, d);
        let mut y = gen_operand(r, w, d);
        if class_of(op) == Class::Shift {
            y.p = Nat::from_u64(r.below(w as u64 + 3)).and(&Nat::ones(w));
        }
        if r.chance(1, 2) {
            y.s = x.s;
        }
        let cs = x.s && y.s;
        self.rep_case(op, &x, &y, cs);
        if r.chance(1, 4) {
            let u = *r.pick(UN_OPS);
            let cw = if matches!(u, "Add" | "Sub" | "BitNot") { w } else { 1 };
            self.un_rep(u, &x, cw, x.s);
        }
    }

    fn random_un(&mut self, r: &mut Rng, off: bool) {
        let op = *r.pick(UN_OPS);
        let d = gen_density(r);
        let ctx = matches!(op, "Add" | "Sub" | "BitNot");
        let mut w = gen_width(r);
        if !ctx {
            w = w.max(1);
        }
        let mut x = gen_operand(r, w, d);
        let mut cw = if ctx { bump(r, w.max(1)) } else { *r.pick(&[1usize, 1, 2, 64, 65]) };
        let cs = if r.chance(3, 4) { x.s } else { r.chance(1, 2) };
        if off {
            self.log.count("off-domain");
            match r.below(3) {
                0 => cw = r.below(w as u64 + 1) as usize,
                1 => cw = 0,
                _ => x.p = x.p.or(&Nat::bit(x.w + r.below(3) as usize)),
            }
        }
        self.un(op, &x, cw, cs);
    }

    fn random_struct(&mut self, r: &mut Rng) {
        let d = gen_density(r);
        let w = gen_width(r);
        let x = gen_operand(r, w, d);
        let pos = |r: &mut Rng, w: usize| -> usize {
            match r.below(8) {
                0 => 0,
                1 => w.saturating_sub(1),
                2 => w,
                3 => *r.pick(&[63usize, 64, 65]),
                4 => w + r.below(70) as usize,
                _ => r.below(w as u64 + 1) as usize,
            }
        };
        match r.below(6) {
            0 => {
                self.log.count("op.expand");
                let nw = if r.chance(1, 6) { r.below(w as u64 + 1) as usize } else { bump(r, w) };
                self.emit(format!("expand {} {:x} {}", x.show(), nw, r.below(2)));
            }
            1 => {
                self.log.count("op.trunc");
                let nw = if r.chance(1, 6) { bump(r, w) } else { pos(r, w) };
                self.emit(format!("trunc {} {:x}", x.show(), nw));
            }
            2 => {
                self.log.count("op.select");
                let a = pos(r, w);
                let b = pos(r, w);
                let (beg, end) = if r.chance(9, 10) { (a.max(b), a.min(b)) } else { (a.min(b), a.max(b)) };
                self.emit(format!("select {} {:x} {:x}", x.show(), beg, end));
            }
            3 => {
                self.log.count("op.concat");
                let w2 = match r.below(4) {
                    0 => 64usize.saturating_sub(w),
                    1 => 65usize.saturating_sub(w),
                    _ => gen_width(r),
                };
                let y = gen_operand(r, w2, d);
                self.emit(format!("concat {} {}", x.show(), y.show()));
            }
            4 => {
                self.log.count("op.assign");
                let a = pos(r, w);
                let b = pos(r, w);
                let (beg, end) = if r.chance(9, 10) { (a.max(b), a.min(b)) } else { (a.min(b), a.max(b)) };
                let vw = if r.chance(2, 3) { beg.saturating_sub(end) + 1 } else { gen_width(r) };
                let v = gen_operand(r, vw, d);
                self.emit(format!("assign {} {} {:x} {:x}", x.show(), v.show(), beg, end));
            }
            _ => {
                self.log.count("op.shamt");
                self.emit(format!("shamt {}", x.show()));
            }
        }
    }
}

pub fn main(opts: &Opts) -> i32 {
    // panics of the code under test are caught and reported as `panic`; keep stderr quiet
    std::panic::set_hook(Box::new(|_| {}));
    let out = opts.out();
    let mut log = Log::new();
    if let Some(file) = opts.get("replay") {
        let text = match std::fs::read_to_string(file) {
            Ok(t) => t,
            Err(e) => {
                eprintln!("hx value: cannot read {file}: {e}");
                return 2;
            }
        };
        let mut mc = MaskCache::default();
        for line in text.lines() {
            let line = line.trim();
            if line.is_empty() {
                continue;
            }
            let r = eval_line(line, &mut mc);
            log.push(line.to_string(), r);
        }
        log.add("cases", log.ops.len() as u64);
        log.write(&out);
        return 0;
    }
    let mode = opts.get("mode").unwrap_or("all").to_string();
    let mut r = Rng::new(opts.seed());
    {
        let mut g = Gen { log: &mut log, mc: MaskCache::default() };
        if mode == "exh" || mode == "all" || mode == "boundary" {
            g.boundary();
        }
        if mode == "exh" || mode == "all" {
            g.exhaustive(opts.num("full", 2) as usize, opts.num("vals", 3) as usize);
        }
        if mode == "rand" || mode == "all" {
            g.random(&mut r, opts.num("n", 20000));
        }
    }
    log.add("cases", log.ops.len() as u64);
    log.write(&out);
    0
}
