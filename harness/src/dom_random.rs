//! Domain `random` (C32): the real `veryl_simulator::random_table` (`reset`, `seed_handle`,
//! `get_seed_handle`, `get`, `get_range`) driven by operation sequences.
//!
//! The generator inside `random_table` is a `Pcg64::seed_from_u64(derive_seed(base, name))` sampled
//! with `random_range`.  The harness keeps a *replica*: its own table of `Pcg64`s, seeded with its
//! own FNV-1a of `base.to_le_bytes() ++ name` and asked for `random_range(lo..=hi)` with bounds
//! computed here in `i128` from the property's words (two's-complement reading of the masked
//! bounds).  The replica's draw is (a) written into the request line, where the Lean model uses it
//! as its sampler, and (b) turned into the expected payload = `oracle.txt`.  If the implementation
//! seeded differently, sampled other bounds, or post-processed the sample differently, the
//! streams diverge.
//!
//! Requests (numbers hex; names hex-encoded UTF-8 bytes, `-` = empty):
//!   reset | base <seed> | setseed <name> <seed> | seedof <name> -> <seed>
//!   get <name> <width> <signed> <sample>             -> p=<payload> w=<width> s=<signed>
//!   range <name> <width> <signed> <min> <max> <sample> -> p=<payload> w=<width> s=<signed>
//!   par <base> <name> <k>  -> same | differ   (k 64-bit draws after reset(base) in 3 fresh threads + here)
use crate::rng::Rng;
use crate::util::{Log, Opts};
use rand::{RngExt, SeedableRng};
use rand_pcg::Pcg64;
use std::collections::HashMap;
use std::panic::{AssertUnwindSafe, catch_unwind};
use veryl_parser::resource_table;
use veryl_simulator::random_table;

fn fnv1a(base: u64, name: &[u8]) -> u64 {
    // FNV-1a, 64 bit (Fowler/Noll/Vo): offset basis 14695981039346656037, prime 2^40 + 2^8 + 0xb3
    let mut h: u64 = 14695981039346656037;
    for b in base.to_le_bytes().iter().chain(name.iter()) {
        h ^= *b as u64;
        h = h.wrapping_mul((1u64 << 40) + (1 << 8) + 0xb3);
    }
    h
}

fn name_bytes(s: &str) -> Option<Vec<u8>> {
    if s == "-" {
        return Some(vec![]);
    }
    if s.len() % 2 != 0 || !s.bytes().all(|b| b.is_ascii_hexdigit()) {
        return None;
    }
    let v: Vec<u8> = (0..s.len() / 2).map(|i| u8::from_str_radix(&s[2 * i..2 * i + 2], 16).unwrap()).collect();
    String::from_utf8(v.clone()).ok()?;
    Some(v)
}

fn hex_name(s: &str) -> String {
    if s.is_empty() { "-".to_string() } else { s.bytes().map(|b| format!("{b:02x}")).collect() }
}

/// Integer denoted by the low `width` bits of `raw` at the given signedness (width <= 64).
fn interp(raw: u64, width: u32, signed: bool) -> i128 {
    let w = width.min(64);
    let r: u128 = if w == 64 { raw as u128 } else { (raw as u128) & ((1u128 << w) - 1) };
    if signed && w > 0 && r >= (1u128 << (w - 1)) { r as i128 - (1i128 << w) } else { r as i128 }
}

/// Payload of `width` bits denoting `x`.
fn encode(x: i128, width: u32) -> u64 {
    let w = width.min(64);
    let m: i128 = 1i128 << w;
    (x.rem_euclid(m)) as u64
}

#[derive(Default)]
struct Replica {
    base: u64,
    rngs: HashMap<String, (Pcg64, u64)>,
}

impl Replica {
    fn rng(&mut self, name: &str) -> &mut (Pcg64, u64) {
        let base = self.base;
        self.rngs.entry(name.to_string()).or_insert_with(|| {
            let seed = fnv1a(base, &name_bytes(name).unwrap());
            (Pcg64::seed_from_u64(seed), seed)
        })
    }
}

fn show(v: &veryl_analyzer::value::Value) -> String {
    format!("p={:x} w={:x} s={}", &*v.payload(), v.width(), v.signed() as u8)
}

fn guarded(f: impl FnOnce() -> String) -> String {
    catch_unwind(AssertUnwindSafe(f)).unwrap_or_else(|_| "panic".to_string())
}

struct Seq {
    rep: Replica,
}

impl Seq {
    /// Completes a request (fills in the replica's sample when the line has none) and executes it.
    /// Returns (full request line, impl reply, oracle reply).
    fn apply(&mut self, line: &str, log: &mut Log) -> (String, String, String) {
        let t: Vec<&str> = line.split(' ').filter(|x| !x.is_empty()).collect();
        let bad = |l: &str| (l.to_string(), "bad-op".to_string(), "bad-op".to_string());
        let num = |s: &str| u64::from_str_radix(s, 16).ok();
        match t.as_slice() {
            ["reset"] => {
                self.rep = Replica::default();
                random_table::reset(0);
                (line.to_string(), "ok".into(), "ok".into())
            }
            ["base", b] => {
                let Some(b) = num(b) else { return bad(line) };
                random_table::reset(b);
                self.rep = Replica { base: b, rngs: HashMap::new() };
                (line.to_string(), "ok".into(), "ok".into())
            }
            ["setseed", name, x] => {
                let (Some(_), Some(x)) = (name_bytes(name), num(x)) else { return bad(line) };
                let key = resource_table::insert_str(&String::from_utf8(name_bytes(name).unwrap()).unwrap());
                random_table::seed_handle(key, x);
                self.rep.rngs.insert(name.to_string(), (Pcg64::seed_from_u64(x), x));
                (line.to_string(), "ok".into(), "ok".into())
            }
            ["seedof", name] => {
                let Some(nb) = name_bytes(name) else { return bad(line) };
                let key = resource_table::insert_str(&String::from_utf8(nb).unwrap());
                let imp = guarded(|| format!("{:x}", random_table::get_seed_handle(key)));
                let ora = format!("{:x}", self.rep.rng(name).1);
                (line.to_string(), imp, ora)
            }
            ["par", b, name, k] => {
                let (Some(b), Some(nb), Some(k)) = (num(b), name_bytes(name), num(k)) else { return bad(line) };
                let s = String::from_utf8(nb).unwrap();
                let key = resource_table::insert_str(&s);
                let snap = resource_table::export_tables();
                let draw = move |key| {
                    random_table::reset(b);
                    (0..k.min(64)).map(|_| random_table::get(key, 64, false).payload_u64()).collect::<Vec<u64>>()
                };
                let imp = guarded(|| {
                    let mut outs: Vec<Vec<u64>> = std::thread::scope(|sc| {
                        let hs: Vec<_> = (0..3)
                            .map(|i| {
                                let snap = &snap;
                                sc.spawn(move || {
                                    resource_table::import_tables(snap);
                                    // disturb this thread's table first: other handles, other base
                                    if i > 0 {
                                        random_table::reset(b ^ 0x55);
                                        let other = resource_table::insert_str("other_handle");
                                        let _ = random_table::get(other, 13, true);
                                        let _ = random_table::get(key, 7, false);
                                    }
                                    draw(key)
                                })
                            })
                            .collect();
                        hs.into_iter().map(|h| h.join().unwrap()).collect()
                    });
                    // this thread's own table is left as `base b` with handle `name` advanced
                    outs.push(draw(key));
                    if outs.iter().all(|o| *o == outs[0]) { "same".to_string() } else { "differ".to_string() }
                });
                // keep the replica in step with what `draw` did on this thread
                self.rep = Replica { base: b, rngs: HashMap::new() };
                for _ in 0..k.min(64) {
                    let _: u64 = self.rep.rng(name).0.random_range(0..=u64::MAX);
                }
                (line.to_string(), imp, "same".into())
            }
            ["get", name, w, sg, rest @ ..] if rest.len() <= 1 => {
                let (Some(nb), Some(w), Some(sg)) = (name_bytes(name), num(w), num(sg)) else { return bad(line) };
                if sg > 1 || w > 4096 {
                    return bad(line);
                }
                let (w, signed) = (w as u32, sg == 1);
                let key = resource_table::insert_str(&String::from_utf8(nb).unwrap());
                let hi = if w >= 64 { u64::MAX } else { (1u64 << w) - 1 };
                let sample: u64 = self.rep.rng(name).0.random_range(0..=hi);
                let imp = guarded(|| show(&random_table::get(key, w, signed)));
                let ora = format!("p={:x} w={:x} s={}", sample, w, sg);
                log.count(&format!("get.width.{}", wbucket(w)));
                (format!("get {name} {w:x} {sg} {sample:x}"), imp, ora)
            }
            ["range", name, w, sg, mn, mx, rest @ ..] if rest.len() <= 1 => {
                let (Some(nb), Some(w), Some(sg), Some(mn), Some(mx)) = (name_bytes(name), num(w), num(sg), num(mn), num(mx)) else {
                    return bad(line);
                };
                if sg > 1 || w > 4096 {
                    return bad(line);
                }
                let (w, signed) = (w as u32, sg == 1);
                let key = resource_table::insert_str(&String::from_utf8(nb).unwrap());
                // requested bounds, read at (width, signed); reversed bounds are swapped
                let (a, b) = (interp(mn, w, signed), interp(mx, w, signed));
                let (lo, hi) = (a.min(b), a.max(b));
                let x: i128 = if signed {
                    let s: i64 = self.rep.rng(name).0.random_range(lo as i64..=hi as i64);
                    s as i128
                } else {
                    let s: u64 = self.rep.rng(name).0.random_range(lo as u64..=hi as u64);
                    s as i128
                };
                assert!(lo <= x && x <= hi);
                let sample_tok = if signed { x as i64 as u64 } else { x as u64 };
                let imp = guarded(|| {
                    let v = random_table::get_range(key, mn, mx, w, signed);
                    // the property itself, checked on the implementation's value
                    let got = interp(v.payload_u64(), w, signed);
                    if !(lo <= got && got <= hi) || (w < 64 && v.payload_u64() >> w != 0) {
                        return format!("{} out-of-bounds[{lo},{hi}]", show(&v));
                    }
                    show(&v)
                });
                let ora = format!("p={:x} w={:x} s={}", encode(x, w), w, sg);
                log.count(&format!("range.width.{}", wbucket(w)));
                log.count(if signed { "range.signed" } else { "range.unsigned" });
                log.count(if a > b {
                    "range.reversed"
                } else if a == b {
                    "range.point"
                } else {
                    "range.ordered"
                });
                if lo == hi {
                    log.count("range.degenerate");
                }
                (format!("range {name} {w:x} {sg} {mn:x} {mx:x} {sample_tok:x}"), imp, ora)
            }
            _ => bad(line),
        }
    }
}

fn wbucket(w: u32) -> &'static str {
    match w {
        0 => "0",
        1 => "1",
        2..=31 => "2-31",
        32 => "32",
        33..=62 => "33-62",
        63 => "63",
        64 => "64",
        _ => "65+",
    }
}

const NAMES: &[&str] = &["r", "rng", "u_rng0", "a", "b", "ab", "", "乱数", "x.y", "handle_with_a_rather_long_name_0123456789"];
const WIDTHS: &[u32] = &[0, 1, 2, 7, 8, 31, 32, 33, 62, 63, 64];

fn gen_bound(r: &mut Rng, w: u32) -> u64 {
    let m = if w >= 64 { u64::MAX } else { (1u64 << w) - 1 };
    let top = if w == 0 { 0 } else { 1u64 << (w.min(64) - 1) };
    let v = match r.below(10) {
        0 => 0,
        1 => 1,
        2 => m,
        3 => top,               // most negative / msb only
        4 => top.wrapping_sub(1), // most positive
        5 => m.wrapping_sub(1),
        6 => top.wrapping_add(1),
        _ => r.next(),
    };
    // mostly in-range payloads, sometimes garbage above `width` (the code masks it)
    if r.chance(1, 8) { v | (r.next() << (w.min(63))) } else { v & m }
}

fn gen_seq(r: &mut Rng, max_len: u64) -> Vec<String> {
    let mut ops = vec![];
    let base = match r.below(5) {
        0 => 0,
        1 => u64::MAX,
        2 => 1,
        _ => r.next(),
    };
    ops.push(format!("base {base:x}"));
    let len = r.range(3, max_len);
    for _ in 0..len {
        let name = hex_name(*r.pick(NAMES));
        let w = if r.chance(3, 5) { *r.pick(WIDTHS) } else { r.range(0, 64) as u32 };
        let w = if r.chance(1, 40) { 65 + r.below(100) as u32 } else { w };
        let sg = r.below(2);
        match r.below(20) {
            0..=4 => ops.push(format!("get {name} {w:x} {sg}")),
            5..=14 => {
                let (a, b) = (gen_bound(r, w), gen_bound(r, w));
                let b = if r.chance(1, 10) { a } else { b };
                ops.push(format!("range {name} {w:x} {sg} {a:x} {b:x}"));
            }
            15..=16 => ops.push(format!("seedof {name}")),
            17 => ops.push(format!("setseed {name} {:x}", r.next())),
            18 => ops.push(format!("base {base:x}")), // same seed again: streams must restart identically
            _ => ops.push(format!("par {:x} {name} {:x}", r.next(), r.range(1, 8))),
        }
    }
    ops
}

pub fn main(opts: &Opts) -> i32 {
    let out = opts.out();
    let mut log = Log::new();
    let mut seqs: Vec<Vec<String>> = vec![];
    if let Some(f) = opts.get("replay") {
        let lines: Vec<String> = std::fs::read_to_string(f).expect("replay file").lines().map(|x| x.to_string()).filter(|x| !x.is_empty()).collect();
        seqs.push(lines.into_iter().filter(|l| l != "reset").collect());
    } else {
        let mut r = Rng::new(opts.seed());
        // every width x signedness x boundary pair once, on one handle
        let mut sweep = vec!["base 1".to_string()];
        for w in 0..=64u32 {
            for sg in 0..2 {
                let m = if w >= 64 { u64::MAX } else { (1u64 << w) - 1 };
                let top = if w == 0 { 0 } else { 1u64 << (w - 1) };
                for (a, b) in [(0, m), (m, 0), (top, top.wrapping_sub(1) & m), (top.wrapping_sub(1) & m, top), (1, 1), (top, top)] {
                    sweep.push(format!("range 72 {w:x} {sg} {a:x} {b:x}"));
                }
                sweep.push(format!("get 72 {w:x} {sg}"));
            }
        }
        log.add("sweep_ops", sweep.len() as u64);
        seqs.push(sweep);
        for _ in 0..opts.num("n", 300) {
            seqs.push(gen_seq(&mut r, opts.num("len", 30)));
        }
        seqs.push(vec!["base zz".into(), "get 6 8 0".into(), "range 61 8 2 0 1".into(), "seedof 6g".into(), "frob".into()]);
    }
    std::panic::set_hook(Box::new(|_| {}));
    for seq in &seqs {
        let mut s = Seq { rep: Replica::default() };
        let (l, i, o) = s.apply("reset", &mut log);
        log.push3(l, i, o);
        for op in seq {
            let (l, i, o) = s.apply(op, &mut log);
            log.count(&format!("op.{}", l.split(' ').next().unwrap_or("")));
            if l.starts_with("range") && l.len() > 34 && l.len() < 100 {
                log.sample(format!("{l} -> {i}"));
            }
            log.push3(l, i, o);
        }
    }
    log.add("sequences", seqs.len() as u64);
    log.write(&out);
    0
}
