//! Domain `vcd` (C36, waveform half; oracle only): small generated designs are simulated with a
//! VCD dumper writing into memory (`WaveDumper::new_vcd(SharedVec)`), on every interpreter /
//! Cranelift configuration.  After every step the harness asks the simulator for the value of every
//! dumped variable (`Simulator::get_var`), then parses the VCD text and compares, per timestamp and
//! variable, the dumped bit string with the value the simulator held.
//!
//! Request: `sim <design seed> <config index>`; impl = what the VCD says, oracle = what the
//! simulator reported: `#<t>:<name>=<bits>,...|#<t>:...`.
use crate::dom_svlv::gen_bits;
use crate::rng::Rng;
use crate::simutil::{bits_of, build, config_name, configs};
use crate::util::{Log, Opts};
use std::collections::BTreeMap;
use std::panic::{AssertUnwindSafe, catch_unwind};
use std::sync::{Arc, Mutex};
use veryl_analyzer::value::Value;
use veryl_simulator::Simulator;
use veryl_simulator::wave_dumper::{SharedVec, WaveDumper};

const WIDTHS: &[usize] = &[1, 2, 7, 8, 31, 32, 33, 63, 64, 65, 100, 127, 128, 129, 200];

struct Design {
    code: String,
    wa: usize,
    wb: usize,
    vars: Vec<&'static str>,
}

fn gen_design(r: &mut Rng) -> Design {
    let wa = *r.pick(WIDTHS);
    let wb = *r.pick(WIDTHS);
    let op1 = *r.pick(&["r ^ a", "r & a", "r | a", "~r", "a"]);
    let op2 = *r.pick(&["~b", "b", "b ^ s", "b | s"]);
    let code = format!(
        r#"
module Top (
    clk: input  clock,
    rst: input  reset,
    a  : input  logic<{wa}>,
    b  : input  logic<{wb}>,
    c  : output logic<{wa}>,
    d  : output logic<{wb}>,
    e  : output logic,
) {{
    var r: logic<{wa}>;
    var s: logic<{wb}>;
    always_ff {{
        if_reset {{
            r = 0;
            s = '1;
        }} else {{
            r = a;
            s = b;
        }}
    }}
    assign c = {op1};
    assign d = {op2};
    assign e = a[0];
}}
"#
    );
    Design { code, wa, wb, vars: vec!["clk", "rst", "a", "b", "c", "d", "e", "r", "s"] }
}

fn pad4(mut v: Vec<u8>) -> Vec<u8> {
    while v.len() % 4 != 0 {
        v.push(0);
    }
    v
}

fn gen_value(r: &mut Rng, width: usize, xz: bool) -> Value {
    let pk = r.below(12);
    let mk = *r.pick(&[0u64, 0, 2, 7, 8, 9, 9]);
    let p = gen_bits(r, width, pk);
    let m = if xz { gen_bits(r, width, mk) } else { vec![0] };
    Value::from_le_bytes(&pad4(p), &pad4(m), width, false)
}

/// Parses the dump: per `#t` block, name -> bit string (left-extended to the declared width by the
/// VCD rule: `0` for a leading 0/1, the same letter for a leading x/z).
fn parse_vcd(text: &str) -> Result<Vec<(u64, BTreeMap<String, String>)>, String> {
    let mut ids: BTreeMap<String, (String, usize)> = BTreeMap::new();
    let mut blocks: Vec<(u64, BTreeMap<String, String>)> = vec![];
    let mut scope: Vec<String> = vec![];
    for line in text.lines() {
        let line = line.trim();
        let t: Vec<&str> = line.split_whitespace().collect();
        if t.is_empty() {
            continue;
        }
        if t[0] == "$scope" {
            scope.push(t[2].to_string());
        } else if t[0] == "$upscope" {
            scope.pop();
        } else if t[0] == "$var" {
            let width: usize = t[2].parse().map_err(|_| "bad width")?;
            let name = if scope.len() > 1 { format!("{}.{}", scope[1..].join("."), t[4]) } else { t[4].to_string() };
            ids.insert(t[3].to_string(), (name, width));
        } else if let Some(ts) = t[0].strip_prefix('#') {
            blocks.push((ts.parse().map_err(|_| "bad time")?, BTreeMap::new()));
        } else if t[0].starts_with('$') {
            continue;
        } else {
            let (bits, id) = if let Some(b) = t[0].strip_prefix('b') {
                (b.to_string(), t.get(1).ok_or("vector change without id")?.to_string())
            } else {
                (t[0][..1].to_string(), t[0][1..].to_string())
            };
            let (name, width) = ids.get(&id).ok_or(format!("unknown id {id}"))?.clone();
            let mut bits = bits.to_lowercase();
            if bits.len() < width {
                let ext = match bits.chars().next() {
                    Some('x') => 'x',
                    Some('z') => 'z',
                    _ => '0',
                };
                bits = std::iter::repeat(ext).take(width - bits.len()).collect::<String>() + &bits;
            }
            blocks.last_mut().ok_or("value change before the first timestamp")?.1.insert(name, bits);
        }
    }
    Ok(blocks)
}

fn show(blocks: &[(u64, BTreeMap<String, String>)]) -> String {
    blocks
        .iter()
        .map(|(t, m)| format!("#{t}:{}", m.iter().map(|(k, v)| format!("{k}={v}")).collect::<Vec<_>>().join(",")))
        .collect::<Vec<_>>()
        .join("|")
}

/// Returns (from the VCD, from the simulator) or an error / skip reason.
fn run(seed: u64, cfg_idx: usize, log: &mut Log) -> Result<(String, String), String> {
    let mut r = Rng::new(seed);
    let design = gen_design(&mut r);
    let cfgs = configs();
    let config = cfgs.get(cfg_idx).ok_or("bad config index")?.clone();
    let steps = r.range(2, 5);
    let ir = build(&design.code, "Top", &config, false)?;
    let buf = Arc::new(Mutex::new(Vec::new()));
    let dumper = WaveDumper::new_vcd(Box::new(SharedVec(buf.clone())));
    let mut sim = Simulator::new(ir, Some(dumper));
    let clk = sim.get_clock("clk").ok_or("no clk")?;
    let rst = sim.get_reset("rst").ok_or("no rst")?;
    let mut snaps: Vec<(u64, BTreeMap<String, String>)> = vec![];
    let mut snap = |sim: &mut Simulator| {
        let mut m = BTreeMap::new();
        for v in &design.vars {
            if let Some(x) = sim.get_var(v) {
                m.insert(v.to_string(), bits_of(&x));
            }
        }
        snaps.push((sim.time, m));
    };
    // one edge in reset (level held by the caller, as `cosim_step_reset` does), then clocked steps
    let a = gen_value(&mut r, design.wa, config.use_4state);
    let b = gen_value(&mut r, design.wb, config.use_4state);
    sim.set("a", a);
    sim.set("b", b);
    if let Some(id) = rst.var_id() {
        sim.set_reset_level(&id, true);
    }
    sim.step_in_reset(&clk, &rst, true);
    snap(&mut sim);
    sim.time += 1;
    if let Some(id) = rst.var_id() {
        sim.set_reset_level(&id, false);
    }
    for _ in 0..steps {
        if r.chance(4, 5) {
            let xz = config.use_4state && r.chance(2, 3);
            let a = gen_value(&mut r, design.wa, xz);
            sim.set("a", a);
        }
        if r.chance(4, 5) {
            let xz = config.use_4state && r.chance(2, 3);
            let b = gen_value(&mut r, design.wb, xz);
            sim.set("b", b);
        }
        sim.step(&clk);
        snap(&mut sim);
        sim.time += if r.chance(1, 6) { 3 } else { 1 };
    }
    drop(sim);
    let text = String::from_utf8(buf.lock().unwrap().clone()).map_err(|_| "vcd not utf-8")?;
    let blocks = parse_vcd(&text)?;
    log.count(&format!("config.{}", config_name(&config)));
    log.count(&format!("wa.{}", if design.wa <= 64 { "le64" } else { "gt64" }));
    log.add("timestamps", blocks.len() as u64);
    log.add("values_compared", blocks.iter().map(|b| b.1.len() as u64).sum());
    let xz = blocks.iter().flat_map(|b| b.1.values()).filter(|v| v.contains('x') || v.contains('z')).count();
    log.add("values_with_xz", xz as u64);
    Ok((show(&blocks), show(&snaps)))
}

pub fn main(opts: &Opts) -> i32 {
    let out = opts.out();
    let mut log = Log::new();
    let lines: Vec<String> = if let Some(f) = opts.get("replay") {
        std::fs::read_to_string(f).expect("replay file").lines().map(|x| x.to_string()).filter(|x| !x.is_empty()).collect()
    } else {
        let mut r = Rng::new(opts.seed() ^ 0x76_63_64);
        let ncfg = configs().len();
        let mut v = vec![];
        for i in 0..opts.num("n", 24) {
            // every configuration in turn on fresh designs
            v.push(format!("sim {:x} {:x}", r.next(), (i as usize) % ncfg));
        }
        v
    };
    std::panic::set_hook(Box::new(|_| {}));
    for l in &lines {
        let t: Vec<&str> = l.split(' ').collect();
        let parsed = match t.as_slice() {
            ["sim", s, c] => u64::from_str_radix(s, 16).ok().zip(usize::from_str_radix(c, 16).ok()),
            _ => None,
        };
        let Some((seed, cfg)) = parsed else {
            log.push3(l.clone(), "bad-op".into(), "bad-op".into());
            continue;
        };
        match catch_unwind(AssertUnwindSafe(|| run(seed, cfg, &mut log))) {
            Ok(Ok((imp, ora))) => {
                if imp.len() < 400 {
                    log.sample(format!("{l} -> {imp}"));
                }
                log.push3(l.clone(), imp, ora);
            }
            Ok(Err(e)) => {
                // the design could not be built / simulated on this configuration: nothing was dumped
                log.count("skipped_error");
                log.sample(format!("{l} skipped: {}", e.chars().take(200).collect::<String>()));
                log.push3(l.clone(), "skipped".into(), "?".into());
            }
            Err(_) => {
                log.count("skipped_panic");
                log.push3(l.clone(), "skipped-panic".into(), "?".into());
            }
        }
    }
    log.add("sequences", lines.len() as u64);
    log.write(&out);
    0
}
