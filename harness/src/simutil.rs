//! Shared by the simulator-level domains (`vcd`, `comp`): Veryl text -> analyzer IR -> simulator IR,
//! through the same public calls `crates/cosim` and the simulator's own tests use.
use veryl_analyzer::ir as air;
use veryl_analyzer::value::Value;
use veryl_analyzer::{Analyzer, Context};
use veryl_metadata::Metadata;
use veryl_parser::Parser;
use veryl_simulator::Config;
use veryl_simulator::ir as sir;

/// Component type names made known to the analyzer (`$comp::<name>`).
pub const COMPONENTS: &[&str] = &["hx_echo", "hx_probe"];

pub fn build(code: &str, top: &str, config: &Config, components: bool) -> Result<sir::Ir, String> {
    veryl_analyzer::symbol_table::clear();
    let metadata = Metadata::create_default("prj").map_err(|e| format!("{e:?}"))?;
    let parser = Parser::parse(code, &"").map_err(|e| format!("parse: {e}"))?;
    let analyzer = Analyzer::new(&metadata);
    if components {
        veryl_analyzer::tb_component::insert_external_components(COMPONENTS);
    }
    let mut context = Context::default();
    let mut ir = air::Ir::default();
    let mut errors = vec![];
    errors.append(&mut analyzer.analyze_pass1("prj", &parser.veryl));
    errors.append(&mut Analyzer::analyze_post_pass1());
    errors.append(&mut analyzer.analyze_pass2(&parser.veryl, &mut context, Some(&mut ir)));
    errors.append(&mut Analyzer::analyze_post_pass2(&ir));
    let hard: Vec<String> = errors
        .iter()
        .filter(|e| !matches!(e, veryl_analyzer::AnalyzerError::UnusedVariable { .. } | veryl_analyzer::AnalyzerError::UnassignVariable { .. }))
        .map(|e| e.to_string())
        .collect();
    if !hard.is_empty() {
        return Err(format!("analyzer: {}", hard.join(" / ")));
    }
    let top = veryl_parser::resource_table::insert_str(top);
    sir::build_ir(&ir, top, config).map_err(|e| format!("build_ir: {e:?}"))
}

/// The 8 interpreter/Cranelift configurations of `Config::all()` (the `cc` backend variants, which
/// shell out to a C compiler, are left to the backend-equivalence properties).
pub fn configs() -> Vec<Config> {
    Config::all().into_iter().filter(|c| !c.aot_c).collect()
}

pub fn config_name(c: &Config) -> String {
    format!("{}state{}{}", if c.use_4state { 4 } else { 2 }, if c.use_jit { "+jit" } else { "" }, if c.disable_ff_opt { "+noffopt" } else { "" })
}

/// MSB-first `01xz` text of a simulator value, computed bit by bit from payload/mask bytes.
pub fn bits_of(v: &Value) -> String {
    let p = v.payload().to_bytes_le();
    let m = v.mask_xz().to_bytes_le();
    let b = |x: &Vec<u8>, i: usize| x.get(i / 8).is_some_and(|y| y >> (i % 8) & 1 == 1);
    (0..v.width())
        .rev()
        .map(|i| match (b(&m, i), b(&p, i)) {
            (false, false) => '0',
            (false, true) => '1',
            (true, false) => 'x',
            (true, true) => 'z',
        })
        .collect()
}
