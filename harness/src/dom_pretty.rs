//! Domain `pretty` (C28, reused by C08/C09/C13/C26): `Doc` trees × `RenderOpts` rendered by the
//! real `veryl_pretty::render::render_with_anchors`.
//!
//! Per document three request lines are written:
//! * `render <opts> <doc>` — impl reply = `<hex text>|[l:c:sl:sc:hex,…]`, compared byte for byte with
//!   the Lean model `vmodel pretty` (model-vs-impl; oracle `?`).
//! * `prop <opts> <doc>` — impl reply = verdicts of the property C28 itself, evaluated here on the REAL
//!   output by code that shares nothing with the renderer or the model (anchors point at their text,
//!   content in document order, anchors sorted); oracle reply = all `ok` (impl-vs-oracle; model `?`).
//!
//! * `hyp <opts> <doc>` — which hypotheses of the Lean theorems hold for this input, computed here and by
//!   the Lean driver independently (model-vs-impl on the side conditions; shows to which real documents
//!   `anchor_true_partial`, `nonws_opts_invariant`, `newline_only` apply).
//!
//! Modes: random documents (default), `--real 1` (Docs built by the real Formatter / Emitter for
//! /repo/testcases/veryl/*.veryl, captured through `verif_tap`), `--replay FILE` (request lines).
//!
//! Serialisation (`doc_to_sexp`): `<max_width> <indent_width> <newline-hex|-> <strip> <sexp>`, numbers
//! lower-case hex, texts hex-encoded UTF-8, S-expression with `,` separators and no spaces:
//!   (n) (t,HEX) (c,D,…) (i,[-]N,D) (g,D) (f,D) (l,HEX) (h) (dh,N) (cm,K,…) (ib,HEX) (ibp,N) (p,N)
//!   (ifp,N) (a,HEX,SL,SC)      comment K = (k,HEX,leading_newlines,is_line,SL,SC)
use crate::rng::Rng;
use crate::util::{Log, Opts, hex};
use std::collections::BTreeSet;
use std::panic;
use std::path::PathBuf;
use std::rc::Rc;
use veryl_pretty::doc::{self, AnchoredText, CommentDoc, Doc};
use veryl_pretty::render::{RenderOpts, Rendered, render_with_anchors};

// ---------------------------------------------------------------------------------------------
// serialisation
// ---------------------------------------------------------------------------------------------

fn sexp(d: &Doc, out: &mut String) {
    match d {
        Doc::Nil => out.push_str("(n)"),
        Doc::Text(s) => {
            out.push_str("(t,");
            out.push_str(&hex(s.as_bytes()));
            out.push(')');
        }
        Doc::Concat(items) => {
            out.push_str("(c");
            for i in items.iter() {
                out.push(',');
                sexp(i, out);
            }
            out.push(')');
        }
        Doc::Indent(off, inner) => {
            if *off < 0 {
                out.push_str(&format!("(i,-{:x},", (*off as i64).unsigned_abs()));
            } else {
                out.push_str(&format!("(i,{:x},", off));
            }
            sexp(inner, out);
            out.push(')');
        }
        Doc::Group(inner) => {
            out.push_str("(g,");
            sexp(inner, out);
            out.push(')');
        }
        Doc::ForceFlat(inner) => {
            out.push_str("(f,");
            sexp(inner, out);
            out.push(')');
        }
        Doc::Line(sep) => {
            out.push_str("(l,");
            out.push_str(&hex(sep.as_bytes()));
            out.push(')');
        }
        Doc::Hardline => out.push_str("(h)"),
        Doc::DedentHardline(l) => out.push_str(&format!("(dh,{:x})", l)),
        Doc::Comments(cs) => {
            out.push_str("(cm");
            for c in cs.iter() {
                out.push_str(&format!(
                    ",(k,{},{:x},{},{:x},{:x})",
                    hex(c.text.as_bytes()),
                    c.leading_newlines,
                    c.is_line_comment as u8,
                    c.src_line,
                    c.src_column
                ));
            }
            out.push(')');
        }
        Doc::IfBreak(s) => {
            out.push_str("(ib,");
            out.push_str(&hex(s.as_bytes()));
            out.push(')');
        }
        Doc::IfBreakPad(w) => out.push_str(&format!("(ibp,{:x})", w)),
        Doc::Pad(w) => out.push_str(&format!("(p,{:x})", w)),
        Doc::IfFlatPad(w) => out.push_str(&format!("(ifp,{:x})", w)),
        Doc::Anchored(a) => out.push_str(&format!(
            "(a,{},{:x},{:x})",
            hex(a.text.as_bytes()),
            a.src_line,
            a.src_column
        )),
    }
}

/// `<max_width> <indent_width> <newline> <strip> <doc>` — the argument part of a `render`/`prop`
/// request of the `pretty` protocol (prefix it with the request kind and a space).
pub fn doc_to_sexp(doc: &Doc, opts: &RenderOpts) -> String {
    let mut s = format!(
        "{:x} {:x} {} {} ",
        opts.max_width,
        opts.indent_width,
        if opts.newline.is_empty() { "-".to_string() } else { hex(opts.newline.as_bytes()) },
        opts.strip_trailing_whitespace as u8
    );
    sexp(doc, &mut s);
    s
}

/// Reply line of a `render` request.
pub fn rendered_to_reply(r: &Rendered) -> String {
    let a: Vec<String> = r
        .anchors
        .iter()
        .map(|a| {
            format!(
                "{:x}:{:x}:{:x}:{:x}:{}",
                a.dst_line,
                a.dst_column,
                a.src_line,
                a.src_column,
                hex(a.text.as_bytes())
            )
        })
        .collect();
    format!("{}|[{}]", hex(r.text.as_bytes()), a.join(","))
}

// ---- parsing (for --replay) ------------------------------------------------------------------

fn unhex(s: &str) -> Option<String> {
    if s == "-" {
        return Some(String::new());
    }
    if s.len() % 2 != 0 {
        return None;
    }
    let mut v = Vec::with_capacity(s.len() / 2);
    for i in (0..s.len()).step_by(2) {
        v.push(u8::from_str_radix(s.get(i..i + 2)?, 16).ok()?);
    }
    String::from_utf8(v).ok()
}

fn leak(s: String) -> &'static str {
    Box::leak(s.into_boxed_str())
}

struct P<'a> {
    b: &'a [u8],
    i: usize,
}

impl P<'_> {
    fn eat(&mut self, c: u8) -> Option<()> {
        if self.b.get(self.i) == Some(&c) {
            self.i += 1;
            Some(())
        } else {
            None
        }
    }
    fn atom(&mut self) -> String {
        let st = self.i;
        while self.i < self.b.len() && !matches!(self.b[self.i], b',' | b')' | b'(') {
            self.i += 1;
        }
        String::from_utf8_lossy(&self.b[st..self.i]).to_string()
    }
    fn num(&mut self) -> Option<u32> {
        u32::from_str_radix(&self.atom(), 16).ok()
    }
    fn comment(&mut self) -> Option<CommentDoc> {
        self.eat(b'(')?;
        if self.atom() != "k" {
            return None;
        }
        self.eat(b',')?;
        let text = unhex(&self.atom())?;
        self.eat(b',')?;
        let ln = self.num()?;
        self.eat(b',')?;
        let il = self.num()?;
        self.eat(b',')?;
        let sl = self.num()?;
        self.eat(b',')?;
        let sc = self.num()?;
        self.eat(b')')?;
        if il > 1 {
            return None;
        }
        Some(CommentDoc {
            text: text.into(),
            leading_newlines: ln,
            is_line_comment: il == 1,
            src_line: sl,
            src_column: sc,
        })
    }
    fn doc(&mut self, depth: usize) -> Option<Doc> {
        if depth > 4000 {
            return None;
        }
        self.eat(b'(')?;
        let head = self.atom();
        let d = match head.as_str() {
            "n" => Doc::Nil,
            "t" => {
                self.eat(b',')?;
                Doc::Text(unhex(&self.atom())?.into())
            }
            "c" => {
                let mut v = vec![];
                while self.b.get(self.i) == Some(&b',') {
                    self.i += 1;
                    v.push(self.doc(depth + 1)?);
                }
                Doc::Concat(v.into())
            }
            "i" => {
                self.eat(b',')?;
                let a = self.atom();
                let off = if let Some(x) = a.strip_prefix('-') {
                    -(i64::from_str_radix(x, 16).ok()?)
                } else {
                    i64::from_str_radix(&a, 16).ok()?
                };
                self.eat(b',')?;
                Doc::Indent(i32::try_from(off).ok()?, Rc::new(self.doc(depth + 1)?))
            }
            "g" => {
                self.eat(b',')?;
                Doc::Group(Rc::new(self.doc(depth + 1)?))
            }
            "f" => {
                self.eat(b',')?;
                Doc::ForceFlat(Rc::new(self.doc(depth + 1)?))
            }
            "l" => {
                self.eat(b',')?;
                Doc::Line(leak(unhex(&self.atom())?))
            }
            "h" => Doc::Hardline,
            "dh" => {
                self.eat(b',')?;
                Doc::DedentHardline(self.num()?)
            }
            "cm" => {
                let mut v = vec![];
                while self.b.get(self.i) == Some(&b',') {
                    self.i += 1;
                    v.push(self.comment()?);
                }
                Doc::Comments(v.into())
            }
            "ib" => {
                self.eat(b',')?;
                Doc::IfBreak(unhex(&self.atom())?.into())
            }
            "ibp" => {
                self.eat(b',')?;
                Doc::IfBreakPad(self.num()?)
            }
            "p" => {
                self.eat(b',')?;
                Doc::Pad(self.num()?)
            }
            "ifp" => {
                self.eat(b',')?;
                Doc::IfFlatPad(self.num()?)
            }
            "a" => {
                self.eat(b',')?;
                let text = unhex(&self.atom())?;
                self.eat(b',')?;
                let sl = self.num()?;
                self.eat(b',')?;
                let sc = self.num()?;
                Doc::Anchored(Rc::new(AnchoredText { text: text.into(), src_line: sl, src_column: sc }))
            }
            _ => return None,
        };
        self.eat(b')')?;
        Some(d)
    }
}

/// Inverse of `doc_to_sexp` on the tokens after the request kind.
pub fn parse_request(t: &[&str]) -> Option<(Doc, RenderOpts)> {
    if t.len() != 5 {
        return None;
    }
    let max_width = usize::from_str_radix(t[0], 16).ok()?;
    let indent_width = usize::from_str_radix(t[1], 16).ok()?;
    let newline = leak(unhex(t[2])?);
    let strip = match t[3] {
        "0" => false,
        "1" => true,
        _ => return None,
    };
    let mut p = P { b: t[4].as_bytes(), i: 0 };
    let d = p.doc(0)?;
    if p.i != p.b.len() {
        return None;
    }
    Some((d, RenderOpts { max_width, indent_width, newline, strip_trailing_whitespace: strip }))
}

// ---------------------------------------------------------------------------------------------
// the property oracle (independent of render.rs and of the Lean model)
// ---------------------------------------------------------------------------------------------

fn is_ws(c: char) -> bool {
    matches!(c, ' ' | '\t' | '\n' | '\r')
}

fn nonws(s: &str) -> Vec<char> {
    s.chars().filter(|c| !is_ws(*c)).collect()
}

#[derive(Clone, Copy, PartialEq)]
enum M {
    Flat,
    Break,
}

fn advance(s: &[char], starts: &BTreeSet<usize>, t: &str) -> BTreeSet<usize> {
    let t = nonws(t);
    if t.is_empty() {
        return starts.clone();
    }
    starts.iter().filter(|p| s[**p..].starts_with(&t)).map(|p| p + t.len()).collect()
}

/// All positions of `s` (the non-whitespace stream of the output) at which the content of `d`,
/// started at one of `starts`, can end: texts/anchored/comment texts always, separators of `Line`
/// in flat mode, `IfBreak` texts in break mode; a group met in break mode may be flat or broken,
/// everything below a flat group or a `ForceFlat` is flat.
fn ends(d: &Doc, m: M, s: &[char], starts: BTreeSet<usize>) -> BTreeSet<usize> {
    if starts.is_empty() {
        return starts;
    }
    match d {
        Doc::Nil | Doc::Hardline | Doc::DedentHardline(_) | Doc::IfBreakPad(_) | Doc::Pad(_) | Doc::IfFlatPad(_) => starts,
        Doc::Text(t) => advance(s, &starts, t),
        Doc::Anchored(a) => advance(s, &starts, &a.text),
        Doc::Concat(items) => {
            let mut cur = starts;
            for i in items.iter() {
                cur = ends(i, m, s, cur);
            }
            cur
        }
        Doc::Indent(_, inner) => ends(inner, m, s, starts),
        Doc::ForceFlat(inner) => ends(inner, M::Flat, s, starts),
        Doc::Group(inner) => {
            if m == M::Flat {
                ends(inner, M::Flat, s, starts)
            } else {
                let mut a = ends(inner, M::Flat, s, starts.clone());
                a.extend(ends(inner, M::Break, s, starts));
                a
            }
        }
        Doc::Line(sep) => {
            if m == M::Flat {
                advance(s, &starts, sep)
            } else {
                starts
            }
        }
        Doc::IfBreak(t) => {
            if m == M::Break {
                advance(s, &starts, t)
            } else {
                starts
            }
        }
        Doc::Comments(cs) => {
            let mut cur = starts;
            for c in cs.iter() {
                cur = advance(s, &cur, &c.text);
            }
            cur
        }
    }
}

fn content_ok(d: &Doc, text: &str) -> bool {
    let s = nonws(text);
    let mut st = BTreeSet::new();
    st.insert(0usize);
    ends(d, M::Break, &s, st).contains(&s.len())
}

fn trim_tw(s: &[char]) -> &[char] {
    let mut n = s.len();
    while n > 0 && (s[n - 1] == ' ' || s[n - 1] == '\t') {
        n -= 1;
    }
    &s[..n]
}

/// Does `text` (possibly multi-line) stand at 1-based (line, col) of the output, columns counted in
/// chars, lines separated by '\n'? With `strip`, trailing blanks of a line may have been removed
/// (`crlf`: the line terminator is "\r\n", so a stripped line still ends in '\r').
fn text_at(lines: &[Vec<char>], line: usize, col: usize, text: &str, strip: bool, crlf: bool) -> bool {
    if line == 0 || col == 0 {
        return false;
    }
    let segs: Vec<Vec<char>> = text.split('\n').map(|x| x.chars().collect()).collect();
    for (k, seg) in segs.iter().enumerate() {
        let Some(l) = lines.get(line - 1 + k) else { return false };
        let from = if k == 0 { col - 1 } else { 0 };
        if from > l.len() {
            return false;
        }
        let rest = &l[from..];
        let rest_nocr = if crlf && rest.last() == Some(&'\r') { &rest[..rest.len() - 1] } else { rest };
        let last = k + 1 == segs.len();
        let stripped_eq = strip && (rest == trim_tw(seg) || rest_nocr == trim_tw(seg));
        let ok = if last {
            rest.starts_with(seg) || stripped_eq
        } else {
            // the segment runs to the end of its line (the '\n' is the text's own)
            rest == &seg[..] || stripped_eq
        };
        if !ok {
            return false;
        }
    }
    true
}

fn mlbc_tails(d: &Doc, out: &mut Vec<Vec<char>>) {
    match d {
        Doc::Concat(items) => items.iter().for_each(|i| mlbc_tails(i, out)),
        Doc::Indent(_, i) | Doc::Group(i) | Doc::ForceFlat(i) => mlbc_tails(i, out),
        Doc::Comments(cs) => {
            for c in cs.iter() {
                if !c.is_line_comment && c.text.contains('\n') {
                    let tail: Vec<char> = c.text.rsplit('\n').next().unwrap_or("").chars().collect();
                    if !tail.is_empty() {
                        out.push(tail);
                    }
                }
            }
        }
        _ => {}
    }
}

fn max_dedent_level(d: &Doc) -> u32 {
    match d {
        Doc::Concat(items) => items.iter().map(max_dedent_level).max().unwrap_or(0),
        Doc::Indent(_, i) | Doc::Group(i) | Doc::ForceFlat(i) => max_dedent_level(i),
        Doc::DedentHardline(l) => *l,
        _ => 0,
    }
}

/// Verdicts of C28 on a real rendering: `anchors=ok|BAD:<sigs>:<i> content=ok|BAD sorted=ok|BAD`
/// (i = index of the first failing anchor). `<sigs>` classifies EVERY failing anchor, joined by `+`:
/// * `mlbc`  — signature of the defect of `render_comments`: the anchor's line starts with the last
///   line of a multi-line block comment of the document and the anchor's text stands exactly that
///   many columns to the right of the reported column;
/// * `blank` — signature of the blank-anchor defect: the anchor's text is EMPTY, the reported column lies
///   beyond the end of its line, and what stood between the true end of line and that column were
///   blanks removed after the anchor was recorded (by `strip_trailing_whitespace` — checked against
///   the unstripped rendering — and/or by a `DedentHardline` truncation of at most level*indent_width);
/// * `other` — anything else.
pub fn prop_verdicts(d: &Doc, opts: &RenderOpts, r: &Rendered) -> String {
    let lines: Vec<Vec<char>> = r.text.split('\n').map(|l| l.chars().collect()).collect();
    let strip = opts.strip_trailing_whitespace;
    let crlf = opts.newline.ends_with("\r\n");
    let mut tails = vec![];
    mlbc_tails(d, &mut tails);
    let max_trunc = (max_dedent_level(d) as usize).saturating_mul(opts.indent_width);
    // the rendering before `strip_trailing_whitespace` (only needed to classify failures)
    let raw_lines: Option<Vec<Vec<char>>> = if strip {
        let o2 = RenderOpts { strip_trailing_whitespace: false, ..opts.clone() };
        render_real(d, &o2).map(|r2| r2.text.split('\n').map(|l| l.chars().collect()).collect())
    } else {
        None
    };
    let mut first_bad: Option<usize> = None;
    let mut sigs: BTreeSet<&'static str> = BTreeSet::new();
    for (i, a) in r.anchors.iter().enumerate() {
        let (l, c) = (a.dst_line as usize, a.dst_column as usize);
        if text_at(&lines, l, c, &a.text, strip, crlf) {
            continue;
        }
        let line = if l >= 1 { lines.get(l - 1) } else { None };
        let is_mlbc = line.is_some_and(|line| {
            tails.iter().any(|t| line.starts_with(t) && text_at(&lines, l, c + t.len(), &a.text, strip, crlf))
        });
        // blank: EMPTY anchor text, reported column beyond the end of its line, and everything between
        // the true end of line and that column was blanks removed after the anchor was recorded: by
        // `strip_trailing_whitespace` (visible in the unstripped rendering `raw`) and/or by a
        // `DedentHardline` truncation (at most `max_trunc` columns, gone from `raw` too)
        let is_blank = !is_mlbc
            && a.text.is_empty()
            && line.is_some_and(|line| {
                let len = if crlf && line.last() == Some(&'\r') { line.len() - 1 } else { line.len() };
                if !(c >= 1 && c - 1 > len) {
                    return false;
                }
                let raw_line: &Vec<char> = match &raw_lines {
                    Some(rl) => match rl.get(l - 1) {
                        Some(x) => x,
                        None => return false,
                    },
                    None => line,
                };
                let raw_len = if crlf && raw_line.last() == Some(&'\r') { raw_line.len() - 1 } else { raw_line.len() };
                raw_len >= len
                    && raw_line[..len] == line[..len]
                    && raw_line[len..raw_len].iter().all(|ch| *ch == ' ' || *ch == '\t')
                    && (c - 1 <= raw_len || c - 1 - raw_len <= max_trunc)
            });
        sigs.insert(if is_mlbc {
            "mlbc"
        } else if is_blank {
            "blank"
        } else {
            "other"
        });
        if first_bad.is_none() {
            first_bad = Some(i);
        }
    }
    let anchors = match first_bad {
        None => "ok".to_string(),
        Some(i) => format!("BAD:{}:{:x}", sigs.into_iter().collect::<Vec<_>>().join("+"), i),
    };
    let sorted = r
        .anchors
        .windows(2)
        .all(|w| (w[0].dst_line, w[0].dst_column) <= (w[1].dst_line, w[1].dst_column));
    let content = content_ok(d, &r.text);
    format!(
        "anchors={} content={} sorted={}",
        anchors,
        if content { "ok" } else { "BAD" },
        if sorted { "ok" } else { "BAD" }
    )
}

const ALL_OK: &str = "anchors=ok content=ok sorted=ok";

fn all_nodes(d: &Doc, p: &dyn Fn(&Doc) -> bool) -> bool {
    p(d) && match d {
        Doc::Concat(items) => items.iter().all(|i| all_nodes(i, p)),
        Doc::Indent(_, i) | Doc::Group(i) | Doc::ForceFlat(i) => all_nodes(i, p),
        _ => true,
    }
}

/// Which hypotheses of the Lean theorems hold for this input (computed independently of the Lean
/// definitions `nlWsB`, `nlOkB`, `anchorNodeOK`, `layoutNeutralNode`, `nlFreeNode`; compared with them).
pub fn hyp_flags(d: &Doc, o: &RenderOpts) -> String {
    let nlws = o.newline.chars().all(is_ws);
    let nlok = o.newline.ends_with('\n') && o.newline.matches('\n').count() == 1;
    let friendly = all_nodes(d, &|x| match x {
        Doc::Line(s) => !s.contains('\n'),
        Doc::IfBreak(s) => !s.contains('\n'),
        _ => true,
    });
    let neutral = all_nodes(d, &|x| match x {
        Doc::Line(s) => s.chars().all(is_ws),
        Doc::IfBreak(s) => s.chars().all(is_ws),
        _ => true,
    });
    let nlfree = all_nodes(d, &|x| match x {
        Doc::Text(s) | Doc::IfBreak(s) => !s.contains('\n'),
        Doc::Line(s) => !s.contains('\n'),
        Doc::Anchored(a) => !a.text.contains('\n'),
        Doc::Comments(cs) => cs.iter().all(|c| !c.text.contains('\n')),
        _ => true,
    });
    format!(
        "nlws={} nlok={} friendly={} neutral={} nlfree={}",
        nlws as u8, nlok as u8, friendly as u8, neutral as u8, nlfree as u8
    )
}

// ---------------------------------------------------------------------------------------------
// generator
// ---------------------------------------------------------------------------------------------

const TEXTS: &[&str] = &[
    "a", "bb", "foo", "module", "x_y", "é", "日本", "😀", "aé日", "", " ", "  ", "begin", "end", ",", ";", "(", ")", "{", "}",
    "=", "assign", "logic", "a_rather_long_identifier_name", "0123456789012345678901234567890123456789", "ab\ncd",
    "x\n", "\ty", "tail ", "ß→λ", "if", "else", "<=", "8'hff",
];
const ANCH: &[&str] = &["a", "foo", "é", "日本語", "😀x", "id_0", "ModuleA", "x", " y", "ab\ncd", "λ\n  μ", "w1234567890123456789", "", ";"];
const ANCH_EXOTIC: &[&str] = &[" ", "  ", "ab  ", "\n", "x\n", "x "];
const SEPS: &[&str] = &[" ", "", " ", "", " ", ",", "·", ", "];
const SEPS_EXOTIC: &[&str] = &["\n", "a\nb", "\r\n"];
const IFB: &[&str] = &[",", ",", "", "é,", ";", " ,"];
const IFB_EXOTIC: &[&str] = &["x\ny", "\n"];
const LINE_CMT: &[&str] = &["// c", "// é日本", "//", "// trailing  ", "/// doc", "// a longer line comment that takes room"];
const BLOCK_CMT: &[&str] = &["/* b */", "/**/", "/* é */", "/* 日本 */", "/* some longer block comment */"];
const ML_BLOCK_CMT: &[&str] = &["/* a\n   b */", "/*\n*/", "/* x\n */", "/*\n\n*/", "/* é\n日本 */", "/* a\n"];
const NEWLINES: &[&str] = &["\n", "\r\n"];
const NEWLINES_EXOTIC: &[&str] = &["", "\n\n", "x", "\n ", "\r"];
const WIDTHS: &[usize] = &[0, 1, 2, 8, 10, 12, 20, 40, 79, 80, 81, 100, 119, 120];

#[derive(Default)]
struct Hist {
    ctor: [u64; 15],
    multibyte: u64,
    mlbc: u64,
    depth_max: u64,
}

struct Gen<'a> {
    r: &'a mut Rng,
    exotic: bool,
    h: &'a mut Hist,
}

impl Gen<'_> {
    fn pick(&mut self, main: &[&'static str], exo: &[&'static str]) -> &'static str {
        if self.exotic && self.r.chance(1, 3) { *self.r.pick(exo) } else { *self.r.pick(main) }
    }
    fn src(&mut self) -> (u32, u32) {
        (self.r.range(1, 200) as u32, self.r.range(1, 120) as u32)
    }
    fn comment(&mut self) -> CommentDoc {
        let k = self.r.below(10);
        let (text, mut is_line): (&str, bool) = if k < 4 {
            (*self.r.pick(LINE_CMT), true)
        } else if k < 7 {
            (*self.r.pick(BLOCK_CMT), false)
        } else {
            self.h.mlbc += 1;
            (*self.r.pick(ML_BLOCK_CMT), false)
        };
        if self.r.chance(1, 40) && !text.ends_with(' ') {
            is_line = !is_line;
        }
        let (sl, sc) = match self.r.below(6) {
            0 | 1 => (0, 0),
            2 => (0, self.r.range(1, 9) as u32),
            3 => (self.r.range(1, 9) as u32, 0),
            _ => self.src(),
        };
        let mut text = text.to_string();
        if self.exotic && self.r.chance(1, 4) {
            text.push(' ');
        }
        CommentDoc {
            text: text.into(),
            leading_newlines: *self.r.pick(&[0u32, 0, 0, 1, 1, 2, 3]),
            is_line_comment: is_line,
            src_line: sl,
            src_column: sc,
        }
    }
    fn leaf(&mut self) -> Doc {
        let k = self.r.below(24);
        let d = match k {
            0 => Doc::Nil,
            1..=6 => {
                let t = *self.r.pick(TEXTS);
                if self.r.chance(1, 2) { doc::text(t) } else { Doc::Text(t.into()) }
            }
            7..=9 => {
                let s = self.pick(SEPS, SEPS_EXOTIC);
                match s {
                    " " if self.r.chance(1, 2) => doc::line(),
                    "" if self.r.chance(1, 2) => doc::softline(),
                    _ => Doc::Line(s),
                }
            }
            10 | 11 => {
                if self.r.chance(1, 2) { doc::hard() } else { Doc::Hardline }
            }
            12 => Doc::DedentHardline(self.r.below(4) as u32),
            13 | 14 => {
                let n = self.r.range(1, 3);
                let cs: Vec<CommentDoc> = (0..n).map(|_| self.comment()).collect();
                if self.r.chance(1, 2) { doc::comments(cs) } else { Doc::Comments(cs.into()) }
            }
            15 => {
                let t = self.pick(IFB, IFB_EXOTIC);
                if self.r.chance(1, 2) { doc::if_break(t) } else { Doc::IfBreak(t.into()) }
            }
            16 => {
                let w = self.r.below(9) as u32;
                if self.r.chance(1, 2) { doc::if_break_pad(w) } else { Doc::IfBreakPad(w) }
            }
            17 | 18 => {
                let w = self.r.below(13) as u32;
                if self.r.chance(1, 2) { doc::pad(w) } else { Doc::Pad(w) }
            }
            19 => {
                let w = self.r.below(9) as u32;
                if self.r.chance(1, 2) { doc::if_flat_pad(w) } else { Doc::IfFlatPad(w) }
            }
            20 => doc::space(self.r.below(4) as usize),
            _ => {
                let t = self.pick(ANCH, ANCH_EXOTIC);
                let (sl, sc) = self.src();
                doc::anchored(t, sl, sc)
            }
        };
        d
    }
    fn doc(&mut self, depth: u64) -> Doc {
        self.h.depth_max = self.h.depth_max.max(depth);
        if depth >= 6 || self.r.chance(2 + depth, 10) {
            return self.leaf();
        }
        match self.r.below(10) {
            0..=4 => {
                let n = *self.r.pick(&[0u64, 1, 2, 2, 3, 3, 4, 5, 6]);
                let v: Vec<Doc> = (0..n).map(|_| self.doc(depth + 1)).collect();
                if self.r.chance(1, 3) { doc::concat(v) } else { Doc::Concat(v.into()) }
            }
            5 | 6 => doc::group(self.doc(depth + 1)),
            7 => match self.r.below(4) {
                0 => doc::nest(self.doc(depth + 1)),
                1 => doc::dedent(self.doc(depth + 1)),
                2 => {
                    let l = *self.r.pick(&[-10i32, -2, -1, 0, 1, 2, 3, 10]);
                    doc::indent_by(l, self.doc(depth + 1))
                }
                _ => {
                    let l = *self.r.pick(&[-3i32, -1, 0, 1, 2]);
                    Doc::Indent(l, Rc::new(self.doc(depth + 1)))
                }
            },
            8 => doc::force_flat(self.doc(depth + 1)),
            _ => {
                // the shape the formatter builds for lists: group(nest(item sep line item …) if_break(","))
                let n = self.r.range(1, 5);
                let mut v = vec![];
                for i in 0..n {
                    if i > 0 {
                        v.push(doc::text(","));
                        v.push(doc::line());
                    }
                    v.push(self.doc(depth + 2));
                }
                v.push(doc::if_break(","));
                doc::group(doc::concat(vec![
                    doc::text("{"),
                    doc::nest(doc::concat(vec![doc::softline(), doc::concat(v)])),
                    doc::softline(),
                    doc::text("}"),
                ]))
            }
        }
    }
}

fn ctor_index(d: &Doc) -> usize {
    match d {
        Doc::Nil => 0,
        Doc::Text(_) => 1,
        Doc::Concat(_) => 2,
        Doc::Indent(..) => 3,
        Doc::Group(_) => 4,
        Doc::ForceFlat(_) => 5,
        Doc::Line(_) => 6,
        Doc::Hardline => 7,
        Doc::DedentHardline(_) => 8,
        Doc::Comments(_) => 9,
        Doc::IfBreak(_) => 10,
        Doc::IfBreakPad(_) => 11,
        Doc::Pad(_) => 12,
        Doc::IfFlatPad(_) => 13,
        Doc::Anchored(_) => 14,
    }
}
const CTOR_NAMES: [&str; 15] = [
    "Nil", "Text", "Concat", "Indent", "Group", "ForceFlat", "Line", "Hardline", "DedentHardline", "Comments", "IfBreak",
    "IfBreakPad", "Pad", "IfFlatPad", "Anchored",
];

fn count_ctors(d: &Doc, h: &mut [u64; 15]) -> u64 {
    h[ctor_index(d)] += 1;
    1 + match d {
        Doc::Concat(items) => items.iter().map(|i| count_ctors(i, h)).sum(),
        Doc::Indent(_, i) | Doc::Group(i) | Doc::ForceFlat(i) => count_ctors(i, h),
        _ => 0,
    }
}

// ---------------------------------------------------------------------------------------------
// running one document
// ---------------------------------------------------------------------------------------------

fn render_real(d: &Doc, o: &RenderOpts) -> Option<Rendered> {
    panic::catch_unwind(panic::AssertUnwindSafe(|| render_with_anchors(d, o))).ok()
}

/// Push the `render` line and (if `with_prop`) the `prop` line of one document.
fn run_one(log: &mut Log, d: &Doc, o: &RenderOpts, with_prop: bool) {
    let req = doc_to_sexp(d, o);
    let r = render_real(d, o);
    log.count("render_requests");
    match &r {
        None => {
            log.count("panics");
            log.push3(format!("render {req}"), "panic".into(), "?".into());
        }
        Some(r) => {
            if r.text.contains('\n') {
                log.count("outputs_multi_line");
            }
            if !r.text.is_ascii() {
                log.count("outputs_multibyte");
            }
            log.add("anchors_total", r.anchors.len() as u64);
            log.push3(format!("render {req}"), rendered_to_reply(r), "?".into());
        }
    }
    if with_prop {
        log.count("prop_requests");
        let v = match &r {
            None => "panic".to_string(),
            Some(r) => prop_verdicts(d, o, r),
        };
        if v != ALL_OK {
            log.count(&format!("verdict_{}", v.split(' ').next().unwrap_or("").split(':').take(2).collect::<Vec<_>>().join(":")));
        }
        log.push3(format!("prop {req}"), v, ALL_OK.into());
    }
    let h = hyp_flags(d, o);
    for f in h.split(' ') {
        if f.ends_with("=1") {
            log.count(&format!("hyp_{}", &f[..f.len() - 2]));
        }
    }
    log.push3(format!("hyp {req}"), h, "?".into());
}

fn random_docs(log: &mut Log, seed: u64, n: u64) {
    let mut rng = Rng::new(seed);
    let mut h = Hist::default();
    for i in 0..n {
        let exotic = rng.chance(1, 20);
        let d = {
            let mut g = Gen { r: &mut rng, exotic, h: &mut h };
            g.doc(0)
        };
        let nl = if exotic && rng.chance(1, 2) { *rng.pick(NEWLINES_EXOTIC) } else { *rng.pick(NEWLINES) };
        let mw = match rng.below(3) {
            0 => *rng.pick(WIDTHS),
            _ => rng.below(121) as usize,
        };
        let o = RenderOpts {
            max_width: mw,
            indent_width: rng.below(9) as usize,
            newline: nl,
            strip_trailing_whitespace: rng.chance(1, 2),
        };
        let mut c = [0u64; 15];
        let nodes = count_ctors(&d, &mut c);
        for k in 0..15 {
            h.ctor[k] += c[k];
        }
        log.add("nodes_total", nodes);
        log.count(if exotic { "docs_exotic" } else { "docs_main" });
        log.count(&format!("newline_{}", hex(nl.as_bytes())));
        log.count(if o.strip_trailing_whitespace { "strip_on" } else { "strip_off" });
        log.count(&format!("max_width_{}", match mw { 0 => "0", 1..=20 => "1-20", 21..=79 => "21-79", _ => "80-120" }));
        run_one(log, &d, &o, !exotic);
        if i < 3 {
            log.sample(format!("render {}", doc_to_sexp(&d, &o)));
        }
    }
    for k in 0..15 {
        log.add(&format!("ctor_{}", CTOR_NAMES[k]), h.ctor[k]);
    }
    log.add("multi_line_block_comments", h.mlbc);
    log.add("depth_max", h.depth_max);
    let _ = h.multibyte;
}

// ---------------------------------------------------------------------------------------------
// --real: documents built by the real Formatter and Emitter
// ---------------------------------------------------------------------------------------------

#[allow(unexpected_cfgs)]
#[cfg(veryl_verif)]
fn real_docs(log: &mut Log, limit: usize, seed: u64) {
    use veryl_analyzer::Analyzer;
    use veryl_emitter::Emitter;
    use veryl_formatter::Formatter;
    use veryl_metadata::Metadata;
    use veryl_parser::Parser;
    use veryl_pretty::render::verif_tap;

    let mut files = vec![];
    if let Ok(rd) = std::fs::read_dir("/repo/testcases/veryl") {
        for e in rd.flatten() {
            if e.path().extension().is_some_and(|x| x == "veryl") {
                if let Ok(src) = std::fs::read_to_string(e.path()) {
                    files.push((e.path().file_name().unwrap().to_string_lossy().to_string(), src));
                }
            }
        }
    }
    files.sort();
    // a seed-dependent rotation so that the quick tier sees different files on different seeds
    if !files.is_empty() {
        let k = (seed as usize) % files.len();
        files.rotate_left(k);
    }
    files.truncate(limit);
    let metadata = Metadata::create_default("prj").unwrap();
    let analyzer = Analyzer::new(&metadata);
    let mut parsed = vec![];
    for (name, src) in &files {
        match panic::catch_unwind(panic::AssertUnwindSafe(|| Parser::parse(src, &name.as_str()))) {
            Ok(Ok(p)) => {
                let _ = panic::catch_unwind(panic::AssertUnwindSafe(|| analyzer.analyze_pass1("prj", &p.veryl)));
                parsed.push((name.clone(), src.clone(), p));
            }
            _ => log.count("real_parse_failed"),
        }
    }
    let _ = panic::catch_unwind(|| Analyzer::analyze_post_pass1());
    for (name, src, p) in &parsed {
        let mut taken: Vec<(&'static str, Doc, RenderOpts)> = vec![];
        verif_tap::start();
        let ok = panic::catch_unwind(panic::AssertUnwindSafe(|| {
            let mut f = Formatter::new(&metadata);
            f.format(&p.veryl, src);
        }))
        .is_ok();
        for (d, o) in verif_tap::take() {
            taken.push(("fmt", d, o));
        }
        if !ok {
            log.count("real_format_panic");
        }
        verif_tap::start();
        let pb = PathBuf::from(name);
        let ok = panic::catch_unwind(panic::AssertUnwindSafe(|| {
            let mut e = Emitter::new(&metadata, "prj", &pb, &pb.with_extension("sv"), &pb.with_extension("sv.map"));
            e.emit(&p.veryl, src);
        }))
        .is_ok();
        for (d, o) in verif_tap::take() {
            taken.push(("emit", d, o));
        }
        if !ok {
            log.count("real_emit_panic");
        }
        log.count("real_files");
        for (kind, d, o) in &taken {
            log.count(&format!("real_docs_{kind}"));
            let mut c = [0u64; 15];
            log.add("real_nodes_total", count_ctors(d, &mut c));
            for k in 0..15 {
                log.add(&format!("real_ctor_{}", CTOR_NAMES[k]), c[k]);
            }
            // the options the tool really used, then narrower pages / CRLF / the other strip setting
            let variants = [
                o.clone(),
                RenderOpts { max_width: 40, ..o.clone() },
                RenderOpts { max_width: 0, newline: "\r\n", strip_trailing_whitespace: !o.strip_trailing_whitespace, ..o.clone() },
            ];
            for v in &variants {
                run_one(log, d, v, true);
            }
            if log.samples.len() < 5 {
                let s = doc_to_sexp(d, o);
                let cut: String = s.chars().take(300).collect();
                log.sample(format!("real {kind} {name}: render {cut}…"));
            }
        }
    }
}

#[allow(unexpected_cfgs)]
#[cfg(not(veryl_verif))]
fn real_docs(log: &mut Log, _limit: usize, _seed: u64) {
    log.count("real_unavailable_without_cfg_veryl_verif");
}

// ---------------------------------------------------------------------------------------------

fn replay(log: &mut Log, path: &str) {
    let body = std::fs::read_to_string(path).unwrap_or_default();
    for line in body.lines() {
        let t: Vec<&str> = line.split(' ').filter(|x| !x.is_empty()).collect();
        if t.is_empty() {
            continue;
        }
        let parsed = if t[0] == "render" || t[0] == "prop" || t[0] == "hyp" { parse_request(&t[1..]) } else { None };
        match (t[0], parsed) {
            ("render", Some((d, o))) => {
                let rep = match render_real(&d, &o) {
                    Some(r) => rendered_to_reply(&r),
                    None => "panic".into(),
                };
                log.push3(line.to_string(), rep, "?".into());
            }
            ("prop", Some((d, o))) => {
                let rep = match render_real(&d, &o) {
                    Some(r) => prop_verdicts(&d, &o, &r),
                    None => "panic".into(),
                };
                log.push3(line.to_string(), rep, ALL_OK.into());
            }
            ("hyp", Some((d, o))) => log.push3(line.to_string(), hyp_flags(&d, &o), "?".into()),
            _ => log.push3(line.to_string(), "bad-op".into(), "?".into()),
        }
    }
}

pub fn main(opts: &Opts) -> i32 {
    panic::set_hook(Box::new(|_| {}));
    let seed = opts.seed();
    let n = opts.num("n", 1000);
    let real = opts.num("real", 0) != 0;
    let real_n = opts.num("real-n", 1000) as usize;
    let replay_file = opts.get("replay").map(|x| x.to_string());
    let out = opts.out();
    let handle = std::thread::Builder::new()
        .stack_size(512 * 1024 * 1024)
        .spawn(move || {
            let mut log = Log::new();
            if let Some(f) = replay_file {
                replay(&mut log, &f);
            } else if real {
                real_docs(&mut log, real_n, seed);
            } else {
                random_docs(&mut log, seed, n);
            }
            log.add("sequences", log.ops.len() as u64);
            log.write(&out);
        })
        .unwrap();
    match handle.join() {
        Ok(()) => 0,
        Err(_) => 3,
    }
}
